#!/usr/bin/env python3
"""Regenerate MANIFEST.json from the table below (only properties whose msa/props module exists are claimed)."""
import json, os
HERE = os.path.dirname(os.path.dirname(os.path.abspath(__file__)))

CLAIMS = {
 "C01": ("typestate of the lazily built surface caches for every public entry point and query order (R-LAZY, context-sensitive must-analysis), "
         "reader/writer agreement of the half-edge record layout, border predicate truth table, partition / symmetry pairing rules, "
         "keyify key agreement, inverse-walk structure of the rotational sort", "4/C01"),
 "C02": ("row-type agnosticism of every consumer of index rows (R-ROW), lock-step updates of the parallel corner arrays, keyify normalisation "
         "of stored edges, check-then-add de-duplication, validity predicate under all orderings, compaction offset, dispatch table totality, "
         "raw->prepared typestate of hard-edge flagging, order of the phases of prepare()", "4/C02"),
 "C03": ("typestate of the lazily built volume caches (R-LAZY) on the three volume classes, row agnosticism in volume.py, literal tetra/hexa "
         "face tables (closed, oriented, face i omits vertex i, copies equal), inverse index-map pairing, border predicates", "4/C03"),
 "C04": ("reader/writer table agreement per file format: extension dispatch, index base, per-keyword arity and element kind, no reordering of "
         "rows, lossless float formatting, attribute type table totality", "4/C04"),
 "C05": ("bounds predicate under all orderings, growth alignment of attributes with their container, no aliasing of the shared default, "
         "sibling agreement of the accept/reject summary of sparse and dense setters, cast table, expand pairing", "4/C05"),
 "C06": ("copy completeness and freshness, merge payload freshness and running offset, transforms write each vertex once with a fresh value "
         "(no in-place update of a stored vector)", "4/C06"),
 "C07": ("return discipline of annotated attribute functions, sibling agreement of persistent / non-persistent constructors, triangular gate "
         "before corner arithmetic, weight/normaliser pairing, mean divisor equals trip count", "4/C07"),
 "C08": ("symbolic stencil of each assembled operator: symmetry / Hermitian pairing, zero row sum, one entry per incidence with documented sign, "
         "real/complex branch agreement of the gradient", "4/C08"),
 "C09": ("arity agreement of the weight callables, sentinel escape, running offset of build_path, Dijkstra skeleton obligations applied "
         "uniformly to all sibling loops", "4/C09"),
 "C10": ("BFS / Kruskal skeleton obligations applied uniformly to the three spanning-tree classes and forests: guarded enqueue, FIFO, "
         "parent/children/edges pairing, computed flag on all exits", "4/C10"),
 "C11": ("termination path for unsplittable leaves, dependence of the pruning bound on k, complementary partition masks, comparator strictness "
         "under all orderings, bounded-heap extraction, freshness of the arrays written in the constructor", "4/C11"),
 "C12": ("numpy error-state restore on all exits, parameter immutability over the five primitive modules, constructor-stores-view vs in-place "
         "mutation, interval predicates under all orderings", "4/C12"),
 "C13": ("row agnosticism in subdivision.py, fresh-index discipline, barycentre divisor equals number of summed points, editor protocol, "
         "no mutation of the shared input containers", "4/C13"),
 "C14": ("symbolic index arithmetic of the grid-like generators (stride = inner trip count, max index < |V| with witness, element-count "
         "polynomials, Euler identity), literal face tables, positional forwarding, parameter homogeneity", "4/C14"),
 "C15": ("threshold constants and comparators under all orderings, write-only-True flag sources, endpoint pairing of feature vertices, "
         "running offsets of the border extractor", "4/C15"),
 "C16": ("the clauses of the statement that are visible in the shape of the code: one output face per input face in the same order and arity, "
         "each corner copy placed at the position of its input vertex under a running offset, vertex copies merged only across interior edges that "
         "are not reported as cut and only between copies of the same vertex (tuple-role provenance of direct_face), reference map inverse of the "
         "duplicate table, cut graph = complement of the dual tree with symmetric adjacency, pruning of non-singular leaves only. The topological "
         "clauses (disk, one border loop, chi = 1, connectivity of the cut graph) are NOT decided", "4/C16 and 10.6"),
 "C17": ("Euler gate dominates the solve, first parameter of each square side differs from the preceding corner (affine forms), border order "
         "source, per-corner / per-vertex sibling agreement", "4/C17"),
 "C18": ("constrained stores only through the free partition, normalisation after the last write on every path, Hermitian pairing of the "
         "connection transport", "4/C18"),
 "C19": ("physical-degree homogeneity of the samplers, n_pts rows allocated, barycentric coefficient sums, de Casteljau gate and range "
         "predicate, stride/range of the Bezier patch grid", "4/C19"),
 "C20": ("lock-step book-keeping of union-find add/union, read-only queries, no numpy coercion of element collections, bounds predicates, "
         "heap is written only through heapq, comparison on priority only", "4/C20"),
}
NA = {}

READY = {"C01", "C02", "C03", "C04", "C05", "C06", "C07", "C08", "C09", "C10", "C11", "C12", "C13", "C14", "C15", "C16", "C17", "C18", "C19", "C20"}

def main():
    checks, na = [], []
    for pid in sorted(list(CLAIMS) + list(NA)):
        if pid in NA:
            na.append({"property_id": pid, "reason": NA[pid]})
            continue
        if pid not in READY or not os.path.exists(os.path.join(HERE, "msa", "props", pid.lower() + ".py")):
            na.append({"property_id": pid, "reason": "check not built yet (planned in DESIGN section 4); nothing is claimed until it runs"})
            continue
        text, ref = CLAIMS[pid]
        # the claim text follows the module's own EXPLANATION (kept next to the rules, so it cannot drift from what is run)
        try:
            import importlib, sys
            sys.path.insert(0, HERE)
            mod = importlib.import_module(f"msa.props.{pid.lower()}")
            expl = " ".join(str(getattr(mod, "EXPLANATION", "")).split())
            rules = sorted(getattr(mod, "RULES", {}))
            if expl:
                text = expl[:1400] + (" ..." if len(expl) > 1400 else "") + f" Rule instances: {', '.join(rules)}"
            ref = ref.split(" and ")[0] + " and 11"
        except Exception as e:  # noqa
            pass
        checks.append({
            "property_id": pid,
            "quick_cmd": f"./check {pid} --tier quick",
            "thorough_cmd": f"./check {pid} --tier thorough",
            "evidence_file": f"/verif/evidence/{pid}.json",
            "replay_cmd_template": f"./check {pid} --replay {{path}}",
            "engine": "msa",
            "technique": "static analysis of /repo/mouette's source (stdlib ast, re-parsed on every run): repository-specific rules over a "
                         "normalised syntax tree - must-dataflow / typestate, symbolic summaries that follow helper calls, decision tables over "
                         "truth assignments, order abstraction of comparison predicates, polynomial forms of index arithmetic, and "
                         "interpretation of small function bodies by the analyser's own interpreter over finite abstract tables (order types, "
                         "sign classes, enum members, symbolic template meshes). mouette is never imported or executed; no solver, no tests",
            "level_claimed": {
                "category": "other",
                "text": "Static rule conformance: every listed obligation is discharged at every site of the current source (exit 0), "
                        "contradicted by a recognised construct named in the report (exit 1, VIOLATION), or undecided because the code has a "
                        "shape the rules do not read (exit 2, ANALYSIS-ERROR - neither a pass nor an alarm). Decides necessary conditions of "
                        "the property: " + text + " It does not prove the behavioural statement. Right level because the property quantifies "
                        "over run-time values no static argument in reach can bound, while its realistic breakages are visible in these clauses.",
                "design_ref": "DESIGN.md section " + ref,
            },
            "level_note": "Trusted: CPython ast; the numpy / CPython semantics the rules and the analyser's small interpreters encode (in-place "
                          "augmented assignment on ndarrays, Vec(x) is a view, list + list allocates, heapq invariant, dtype truncation); the "
                          "loader normal form N1-N4 (msa/normal.py). Validated on every change of the checker against 140+ independent breaking "
                          "changes, 120 independent behaviour-preserving refactorings and 10 whole-package respellings (DESIGN section 11). "
                          "A vanished public anchor or an undecided obligation is exit 2 (ANALYSIS-ERROR), never a pass.",
        })
    man = {
        "version": 1,
        "setup_cmd": "sh tools/setup.sh",
        "hooks": {
            "guard": "MOUETTE_VERIF",
            "enable": "no hooks: the checks are static (ast) and never import or execute /repo",
            "baseline_off_cmd": "cd /repo && /venv/bin/python -m pytest -ra -q -p no:cacheprovider --timeout=900 --continue-on-collection-errors",
            "source_commits": [],
            "add_only": True,
        },
        "engines": [{"name": "msa", "path": "/verif/msa", "serves_properties": [c["property_id"] for c in checks],
                     "kind_free_text": "mouette static analyser: stdlib-ast loader with star-import resolution and source normal form, class/MRO "
                                       "model, structured must-dataflow, symbolic summaries, decision tables, order abstraction, polynomial index "
                                       "forms, finite-table interpretation, per-property rule tables"}],
        "checks": checks,
        "notes": "All checks are static analysis of /repo/mouette at run time. known_findings.json lists genuine defects recorded rather than "
                 "repaired and the fix: commits made in /repo. Thorough tier = quick rules + self-test of the checker (designated breaking / benign variants applied in memory, the re-formatted package and ten whole-package respellings).",
        "not_applicable": na,
    }
    with open(os.path.join(HERE, "MANIFEST.json"), "w") as fh:
        json.dump(man, fh, indent=1)
    print(f"{len(checks)} checks, {len(na)} not applicable")

if __name__ == "__main__":
    main()
