#!/usr/bin/env python3
"""Confirm a seeded change: demo passes on the pristine tree, fails with the patch, and the pinned test-suite still passes.
usage: seed_confirm.py <dir with patch.diff demo.py meta.json> [--no-tests]
Works on a scratch copy of /repo under /tmp (removed afterwards); /repo is never touched."""
import json, os, shutil, subprocess, sys, tempfile, xml.etree.ElementTree as ET

def sh(cmd, cwd=None, env=None, timeout=1800):
    return subprocess.run(cmd, shell=True, cwd=cwd, env=env, capture_output=True, text=True, timeout=timeout)

def main():
    d = os.path.abspath(sys.argv[1])
    run_tests = "--no-tests" not in sys.argv
    tmp = tempfile.mkdtemp(prefix="seedconfirm_")
    try:
        wt = os.path.join(tmp, "repo")
        sh(f"git -C /repo worktree add -q --detach {wt} HEAD")
        env = dict(os.environ, PYTHONPATH=wt, PYTHONDONTWRITEBYTECODE="1")
        os.makedirs(os.path.join(wt, "seeded", "x"))
        shutil.copy(os.path.join(d, "demo.py"), os.path.join(wt, "seeded", "x", "demo.py"))
        r0 = sh("/venv/bin/python seeded/x/demo.py", cwd=wt, env=env, timeout=600)
        ap = sh(f"git apply {os.path.join(d, 'patch.diff')}", cwd=wt)
        if ap.returncode != 0:
            print("PATCH DOES NOT APPLY:", ap.stderr[:500]); return 2
        r1 = sh("/venv/bin/python seeded/x/demo.py", cwd=wt, env=env, timeout=600)
        res = {"demo_pristine_rc": r0.returncode, "demo_patched_rc": r1.returncode}
        ok = r0.returncode == 0 and r1.returncode != 0
        if run_tests:
            base = json.load(open("/root/.vp/BASELINE.json"))
            out = os.path.join(tmp, "junit.xml")
            cmd = base["cmd"].replace("cd /repo", f"cd {wt}").replace("<file>", out)
            sh(cmd, env=env, timeout=3000)
            passed = set()
            for tc in ET.parse(out).getroot().iter("testcase"):
                if not any(ch.tag in ("failure", "error", "skipped") for ch in tc):
                    passed.add(tc.get("classname") + "::" + tc.get("name"))
            missing = [t for t in base["stable_pass"] if t not in passed]
            res["tests_missing"] = missing[:10]
            res["tests_passed"] = len(passed)
            ok = ok and not missing
        res["confirmed"] = ok
        print(json.dumps(res, indent=1))
        if r0.returncode != 0:
            print("pristine demo output:", (r0.stdout + r0.stderr)[-800:])
        if r1.returncode == 0:
            print("patched demo output:", (r1.stdout + r1.stderr)[-800:])
        return 0 if ok else 1
    finally:
        sh(f"git -C /repo worktree remove --force {os.path.join(tmp, 'repo')}")
        shutil.rmtree(tmp, ignore_errors=True)

if __name__ == "__main__":
    sys.exit(main())
