#!/bin/sh
# confirm every benign change that has no confirm.json yet (parallel)
cd "$(dirname "$0")/.."
ls benign | while read d; do [ -f benign/$d/confirm.json ] || echo $d; done | xargs -P ${1:-6} -I{} sh -c '/venv/bin/python tools/benign_confirm.py benign/{} > benign/{}/confirm.json 2>&1; echo {} done'
