#!/usr/bin/env python3
"""Generic mutation sweep (measurement only, never part of a verdict): for one property, every first-order AST mutant of
the functions its check analyses is built in memory and the check is re-run on it.  Prints the kill ratio and the
survivors, which are candidates for new rules (many survivors are equivalent or irrelevant to the property).
usage: mutation_sweep.py Cxx [--jobs N] [--limit M] [--json out]"""
import ast, copy, json, os, sys, warnings, multiprocessing as mp
sys.path.insert(0, os.path.dirname(os.path.dirname(os.path.abspath(__file__))))
from msa.core import Repo, AnalysisError
from msa.cli import run_property

CMP = {ast.Lt: ast.LtE, ast.LtE: ast.Lt, ast.Gt: ast.GtE, ast.GtE: ast.Gt, ast.Eq: ast.NotEq, ast.NotEq: ast.Eq,
       ast.Is: ast.IsNot, ast.IsNot: ast.Is, ast.In: ast.NotIn, ast.NotIn: ast.In}


def mutants_of(fn):
    """yield (description, mutator(node_copy_root) ) - implemented by index path replay"""
    nodes = list(ast.walk(fn))
    for idx, n in enumerate(nodes):
        if isinstance(n, ast.Compare) and len(n.ops) == 1 and type(n.ops[0]) in CMP:
            yield idx, "cmp", f"{type(n.ops[0]).__name__}->{CMP[type(n.ops[0])].__name__} in `{ast.unparse(n)}`"
        if isinstance(n, ast.BoolOp):
            yield idx, "bool", f"and<->or in `{ast.unparse(n)[:60]}`"
        if isinstance(n, ast.BinOp) and isinstance(n.op, (ast.Add, ast.Sub)):
            yield idx, "addsub", f"+<->- in `{ast.unparse(n)[:60]}`"
        if isinstance(n, ast.Constant) and isinstance(n.value, int) and not isinstance(n.value, bool) and 0 <= n.value <= 8:
            yield idx, "const+1", f"{n.value}->{n.value + 1}"
            if n.value > 0:
                yield idx, "const-1", f"{n.value}->{n.value - 1}"
        if isinstance(n, ast.Call) and len(n.args) == 2 and all(isinstance(a, ast.Name) for a in n.args) and n.args[0].id != n.args[1].id:
            yield idx, "swapargs", f"swap args of `{ast.unparse(n)[:60]}`"
        if isinstance(n, (ast.Expr, ast.Assign, ast.AugAssign)) and not (isinstance(n, ast.Expr) and isinstance(n.value, ast.Constant)):
            yield idx, "delete", f"delete `{ast.unparse(n)[:70]}`"
        if isinstance(n, ast.UnaryOp) and isinstance(n.op, ast.Not):
            yield idx, "unnot", f"drop not in `{ast.unparse(n)[:60]}`"
        if isinstance(n, ast.AugAssign) and isinstance(n.op, (ast.Add, ast.Sub)):
            yield idx, "augflip", f"+=<->-= in `{ast.unparse(n)[:60]}`"


def apply(fn_copy, idx, kind):
    n = list(ast.walk(fn_copy))[idx]
    if kind == "cmp":
        n.ops = [CMP[type(n.ops[0])]()]
    elif kind == "bool":
        n.op = ast.Or() if isinstance(n.op, ast.And) else ast.And()
    elif kind == "addsub":
        n.op = ast.Sub() if isinstance(n.op, ast.Add) else ast.Add()
    elif kind == "const+1":
        n.value += 1
    elif kind == "const-1":
        n.value -= 1
    elif kind == "swapargs":
        n.args = [n.args[1], n.args[0]]
    elif kind == "delete":
        # replace statement by pass
        for p in ast.walk(fn_copy):
            for fld in ("body", "orelse", "finalbody"):
                sub = getattr(p, fld, None)
                if isinstance(sub, list):
                    for i, s in enumerate(sub):
                        if s is n:
                            sub[i] = ast.Pass()
                            return
    elif kind == "unnot":
        for p in ast.walk(fn_copy):
            for f, v in ast.iter_fields(p):
                if v is n:
                    setattr(p, f, n.operand)
                    return
                if isinstance(v, list):
                    for i, x in enumerate(v):
                        if x is n:
                            v[i] = n.operand
                            return
    elif kind == "augflip":
        n.op = ast.Sub() if isinstance(n.op, ast.Add) else ast.Add()


_G = {}


def find(body, parts):
    """locate a function by qualname in a raw (un-normalised) parse of the module"""
    for st in body:
        if isinstance(st, (ast.FunctionDef, ast.ClassDef)) and st.name == parts[0]:
            if len(parts) == 1:
                return st
            rest = parts[1:]
            if rest[0] == "<locals>":
                rest = rest[1:]
            return find(st.body, rest)
    return None


def work(job):
    prop, relpath, qual, idx, kind, desc = job
    base = _G["base"]
    mod = next(m for m in base.modules.values() if m.relpath == relpath)
    with warnings.catch_warnings():
        warnings.simplefilter("ignore")
        tree = ast.parse(mod.source)
    fn = find(tree.body, qual.split("."))
    if fn is None:
        return job, "nofn"
    apply(fn, idx, kind)
    try:
        src = ast.unparse(tree) + "\n"
        repo = Repo(overlay={relpath: src})
        rc, ctx, new, old = run_property(prop, "quick", repo=repo, quiet=True, write=False)
        base_keys = _G["base_keys"]
        keys = {f.key() for f in new + old}
        if keys - base_keys:
            return job, "killed:" + ",".join(sorted({f.rule for f in new + old if f.key() not in base_keys}))
        return job, ("undecided:" + ",".join(sorted({f.rule for f in ctx.undecided_list}))) if ctx.undecided_list else "survived"
    except AnalysisError as e:
        return job, "analysis-error"
    except Exception as e:
        return job, "crash:" + type(e).__name__


def main():
    prop = sys.argv[1].upper()
    jobs_n = int(sys.argv[sys.argv.index("--jobs") + 1]) if "--jobs" in sys.argv else 14
    limit = int(sys.argv[sys.argv.index("--limit") + 1]) if "--limit" in sys.argv else 100000
    base = Repo()
    rc, ctx, new, old = run_property(prop, "quick", repo=base, quiet=True, write=False)
    _G["base"] = base
    _G["base_keys"] = {f.key() for f in new + old}
    jobs = []
    for fq in sorted(ctx.functions):
        modname, qual = fq.split("::")
        mod = base.modules[modname]
        with warnings.catch_warnings():
            warnings.simplefilter("ignore")
            fn = find(ast.parse(mod.source).body, qual.split("."))     # the loader's tree is normalised: index the raw source like the worker
        if fn is None:
            continue
        # re-parse to get an index-stable walk identical to the worker's
        for idx, kind, desc in mutants_of(ast.parse(ast.unparse(fn)).body[0] if False else fn):
            jobs.append((prop, mod.relpath, qual, idx, kind, desc))
    jobs = jobs[:limit]
    with mp.Pool(jobs_n) as pool:
        res = pool.map(work, jobs, chunksize=4)
    tally = {}
    surv = []
    for job, r in res:
        k = r.split(":")[0]
        tally[k] = tally.get(k, 0) + 1
        if k in ("survived", "crash", "analysis-error"):
            surv.append((job[1], job[2], job[4], job[5], r))
    tot = len(res)
    print(f"{prop}: {tot} mutants over {len(ctx.functions)} functions: {tally}")
    if "--json" in sys.argv:
        json.dump({"property": prop, "total": tot, "tally": tally, "survivors": surv}, open(sys.argv[sys.argv.index("--json") + 1], "w"), indent=1)
    if "--show" in sys.argv:
        for s in surv:
            print("  ", s[4][:14].ljust(14), s[1], "|", s[2], "|", s[3])

if __name__ == "__main__":
    main()
