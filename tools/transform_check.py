#!/usr/bin/env python3
"""Benign whole-package variants by mechanical, behaviour-preserving AST transformations (measurement of false alarms).

  rename    every local variable of every function (not parameters, not globals/nonlocals, not names captured from / shared
            with a nested scope's parameters) is renamed  v -> v_r
  augassign `x += e`  ->  `x = x + e`   for plain local names bound to numbers only (loop counters / offsets: the right-hand
            side is a numeric literal or a Name) - never for attributes / subscripts (in-place vs rebinding differs there)
  compare   `a < b` -> `b > a`, `a <= b` -> `b >= a` (single comparisons, operands are names / attributes / constants / calls)
  notin     `not (a in b)` <-> `a not in b`;  `not a == b` -> `a != b`
  ifcont    a loop body of the form [..., `if c: continue`, rest...] -> [..., `if not c: rest`] when the `if` has no else and
            `rest` is non-empty

Each transformation is applied to the whole package; every check must report exactly the same findings as on /repo (obligation
counts may differ for `ifcont`, which changes the number of guards).  usage: transform_check.py [--only t1,t2] [props...]"""
import ast, os, sys, warnings, json
sys.path.insert(0, os.path.dirname(os.path.dirname(os.path.abspath(__file__))))
from msa.core import Repo
from msa.cli import run_property


from msa.transforms import TRANSFORMS, build_overlay


def main():
    args = sys.argv[1:]
    only = None
    if "--only" in args:
        i = args.index("--only")
        only = args[i + 1].split(",")
        del args[i:i + 2]
    dump = None
    if "--dump" in args:
        i = args.index("--dump")
        dump = args[i + 1]
        del args[i:i + 2]
    props = args or [c["property_id"] for c in json.load(open(os.path.join(os.path.dirname(__file__), "..", "MANIFEST.json")))["checks"]]
    base = Repo()
    bad = 0
    base_res = {}
    for p in props:
        rc0, c0, new0, old0 = run_property(p, "quick", repo=base, quiet=True, write=False)
        base_res[p] = (sorted(f.key() for f in new0 + old0), c0.obligations)
    for tname, T in TRANSFORMS.items():
        if only and tname not in only:
            continue
        overlay = build_overlay(base, T)
        if dump:
            for rel, src in overlay.items():
                path = os.path.join(dump, tname, rel)
                os.makedirs(os.path.dirname(path), exist_ok=True)
                open(path, "w").write(src)
        repo2 = Repo(overlay=overlay)
        for p in props:
            k0, n0 = base_res[p]
            try:
                rc1, c1, new1, old1 = run_property(p, "quick", repo=repo2, quiet=True, write=False)
            except Exception as e:
                print(f"{tname:10s} {p}: FAIL analyser raised: {type(e).__name__}: {str(e)[:200]}")
                bad += 1
                continue
            k1 = sorted(f.key() for f in new1 + old1)
            if k0 != k1:
                bad += 1
                print(f"{tname:10s} {p}: FAIL findings differ ({n0} vs {c1.obligations} obligations)")
                for k in k1:
                    if k not in k0:
                        print("      +", k[1], k[3], "|", k[4][:160])
                for k in k0:
                    if k not in k1:
                        print("      -", k[1], k[3], "|", k[4][:160])
            else:
                print(f"{tname:10s} {p}: ok ({n0} -> {c1.obligations} obligations, {len(k1)} findings identical)")
    return 1 if bad else 0


if __name__ == "__main__":
    sys.exit(main())
