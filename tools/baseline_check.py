#!/usr/bin/env python3
"""Run the pinned test command and compare with /root/.vp/BASELINE.json (stable_pass must all pass)."""
import json, subprocess, sys, tempfile, xml.etree.ElementTree as ET, os
base = json.load(open("/root/.vp/BASELINE.json"))
out = tempfile.mktemp(suffix=".xml")
cmd = base["cmd"].replace("<file>", out)
subprocess.run(cmd, shell=True, stdout=subprocess.DEVNULL, stderr=subprocess.DEVNULL)
passed = set()
for tc in ET.parse(out).getroot().iter("testcase"):
    bad = any(ch.tag in ("failure", "error", "skipped") for ch in tc)
    name = tc.get("classname") + "::" + tc.get("name")
    if not bad:
        passed.add(name)
os.unlink(out)
missing = [t for t in base["stable_pass"] if t not in passed]
print(f"passed={len(passed)} baseline={len(base['stable_pass'])} missing={len(missing)}")
for m in missing[:30]:
    print("  MISSING", m)
sys.exit(1 if missing else 0)
