#!/bin/sh
# Full validation of the checker (not part of any registered check): clean tree, corpora, respellings, self-test.
cd "$(dirname "$0")/.."
echo "== clean tree"; for i in $(seq -w 1 20); do MSA_NO_EVIDENCE=1 ./check C$i >/tmp/regress_C$i.txt 2>&1; echo -n "C$i=$? "; done; echo
echo "== seeded (own property)"; python3 tools/run_seeded.py | tail -1
echo "== benign (all checks)"; python3 tools/run_benign.py | tail -1
echo "== respellings"; /venv/bin/python tools/transform_check.py | grep -c " ok "; /venv/bin/python tools/transform_check.py | grep FAIL
echo "== self-test"; for i in $(seq -w 1 20); do /venv/bin/python -m msa.selftest C$i | tail -1; done
