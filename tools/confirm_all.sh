#!/bin/sh
# confirm every seeded change that has no confirm.json yet (parallel)
cd "$(dirname "$0")/.."
ls seeded | while read d; do [ -f seeded/$d/confirm.json ] || echo $d; done | xargs -P ${1:-6} -I{} sh -c '/venv/bin/python tools/seed_confirm.py seeded/{} > seeded/{}/confirm.json 2>&1; echo {} done'
