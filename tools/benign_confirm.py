#!/usr/bin/env python3
"""Confirm a behaviour-preserving change: equiv.py prints identical output (and exits 0) on the pristine tree and with the patch,
and the pinned test-suite still passes.   usage: benign_confirm.py <dir with patch.diff equiv.py meta.json> [--no-tests]"""
import json, os, shutil, subprocess, sys, tempfile, hashlib, xml.etree.ElementTree as ET

def sh(cmd, cwd=None, env=None, timeout=3000):
    return subprocess.run(cmd, shell=True, cwd=cwd, env=env, capture_output=True, text=True, timeout=timeout)

def main():
    d = os.path.abspath(sys.argv[1])
    run_tests = "--no-tests" not in sys.argv
    tmp = tempfile.mkdtemp(prefix="bnconfirm_")
    wt = os.path.join(tmp, "repo")
    try:
        sh(f"git -C /repo worktree add -q --detach {wt} HEAD")
        env = dict(os.environ, PYTHONPATH=wt, PYTHONDONTWRITEBYTECODE="1")
        os.makedirs(os.path.join(wt, "out", "k"))
        import re
        src = open(os.path.join(d, "equiv.py")).read()
        src = re.sub(r"/tmp/bn_C\d\d", wt, src)        # some scripts assert that they import the scratch worktree they were written in
        open(os.path.join(wt, "out", "k", "equiv.py"), "w").write(src)
        r0 = sh("/venv/bin/python out/k/equiv.py", cwd=wt, env=env, timeout=1800)
        ap = sh(f"git apply {os.path.join(d, 'patch.diff')}", cwd=wt)
        if ap.returncode != 0:
            print(json.dumps({"confirmed": False, "why": "patch does not apply: " + ap.stderr[:300]})); return 2
        r1 = sh("/venv/bin/python out/k/equiv.py", cwd=wt, env=env, timeout=1800)
        res = {"equiv_pristine_rc": r0.returncode, "equiv_patched_rc": r1.returncode,
               "same_output": r0.stdout == r1.stdout, "digest": hashlib.sha256(r0.stdout.encode()).hexdigest()[:16],
               "output_bytes": len(r0.stdout)}
        # behaviour preservation = identical non-empty output and identical exit status with and without the patch.  (A script whose own
        # oracle of the property disagrees with the current /repo - e.g. written before a later fix: commit - exits 1 on both sides; that
        # is recorded as oracle_rc and does not affect the comparison.)
        ok = r0.returncode == r1.returncode and r0.stdout == r1.stdout and len(r0.stdout) > 0
        res["oracle_rc"] = r0.returncode
        if run_tests:
            base = json.load(open("/root/.vp/BASELINE.json"))
            out = os.path.join(tmp, "junit.xml")
            cmd = base["cmd"].replace("cd /repo", f"cd {wt}").replace("<file>", out)
            sh(cmd, env=env, timeout=3000)
            passed = set()
            for tc in ET.parse(out).getroot().iter("testcase"):
                if not any(ch.tag in ("failure", "error", "skipped") for ch in tc):
                    passed.add(tc.get("classname") + "::" + tc.get("name"))
            missing = [t for t in base["stable_pass"] if t not in passed]
            res["tests_missing"] = missing[:10]
            res["tests_passed"] = len(passed)
            ok = ok and not missing
        res["confirmed"] = ok
        print(json.dumps(res, indent=1))
        if not ok:
            print("pristine stderr:", r0.stderr[-400:]); print("patched stderr:", r1.stderr[-400:])
        return 0 if ok else 1
    finally:
        sh(f"git -C /repo worktree remove --force {wt}")
        shutil.rmtree(tmp, ignore_errors=True)

if __name__ == "__main__":
    sys.exit(main())
