#!/usr/bin/env python3
"""Run the checks against every kept seeded change (/verif/seeded/<id>/patch.diff) on a scratch copy of /repo.
Prints one line per change: which properties' checks report a new violation, and by which rules.
usage: run_seeded.py [ids...] [--all-props]"""
import json, os, shutil, subprocess, sys, tempfile
HERE = os.path.dirname(os.path.dirname(os.path.abspath(__file__)))

def main():
    ids = [a for a in sys.argv[1:] if not a.startswith("--")]
    all_props = "--all-props" in sys.argv
    sd = os.path.join(HERE, "seeded")
    man = json.load(open(os.path.join(HERE, "MANIFEST.json")))
    claimed = [c["property_id"] for c in man["checks"]]
    rows = []
    for name in sorted(os.listdir(sd)):
        if ids and name not in ids:
            continue
        d = os.path.join(sd, name)
        if not os.path.exists(os.path.join(d, "patch.diff")):
            continue
        meta = json.load(open(os.path.join(d, "meta.json")))
        tmp = tempfile.mkdtemp(prefix="seedrun_")
        try:
            shutil.copytree("/repo/mouette", os.path.join(tmp, "mouette"))
            ap = subprocess.run(["patch", "-p1", "-s", "-i", os.path.join(d, "patch.diff")], cwd=tmp, capture_output=True, text=True)
            if ap.returncode != 0:
                rows.append((name, meta["property"], "PATCH-FAILED", ap.stdout[:200]))
                continue
            props = claimed if all_props else [meta["property"]]
            caught = {}
            for p in props:
                env = dict(os.environ, MSA_REPO=tmp, MSA_NO_EVIDENCE="1")
                r = subprocess.run([os.path.join(HERE, "check"), p], capture_output=True, text=True, env=env, cwd=HERE)
                rules = sorted({l.split("rule=")[1].split()[0] for l in r.stdout.splitlines() if l.strip().startswith("finding rule=")})
                if r.returncode == 1:
                    caught[p] = rules
                elif r.returncode == 2:
                    caught[p] = ["ANALYSIS-ERROR: " + r.stdout.strip().splitlines()[-1][:150]]
            rows.append((name, meta["property"], "CAUGHT" if meta["property"] in caught and not str(caught[meta["property"]][0]).startswith("ANALYSIS") else
                         ("caught-by-other" if caught else "MISSED"), caught))
        finally:
            shutil.rmtree(tmp, ignore_errors=True)
    for r in rows:
        print(f"{r[0]:24s} {r[1]:4s} {r[2]:16s} {r[3]}")
    if not ids and all_props:
        json.dump([{"id": r[0], "property": r[1], "verdict": r[2], "caught": r[3] if isinstance(r[3], dict) else {}} for r in rows],
                  open(os.path.join(HERE, "notes", "seeded_results.json"), "w"), indent=1)
    n = len(rows)
    c = sum(1 for r in rows if r[2] == "CAUGHT")
    print(f"{c}/{n} seeded changes caught by the check of their own property")

if __name__ == "__main__":
    main()
