#!/usr/bin/env python3
"""Run the checks against every kept seeded change (/verif/seeded/<id>/patch.diff) on a scratch copy of /repo.
Prints one line per change: which properties' checks report a new violation, and by which rules.
usage: run_seeded.py [ids...] [--all-props]"""
import json, os, shutil, subprocess, sys, tempfile
from concurrent.futures import ThreadPoolExecutor
HERE = os.path.dirname(os.path.dirname(os.path.abspath(__file__)))


def one(name, claimed, all_props):
    sd = os.path.join(HERE, "seeded")
    d = os.path.join(sd, name)
    meta = json.load(open(os.path.join(d, "meta.json")))
    tmp = tempfile.mkdtemp(prefix="seedrun_")
    try:
        shutil.copytree("/repo/mouette", os.path.join(tmp, "mouette"))
        ap = subprocess.run(["patch", "-p1", "-s", "-i", os.path.join(d, "patch.diff")], cwd=tmp, capture_output=True, text=True)
        if ap.returncode != 0:
            return (name, meta["property"], "PATCH-FAILED", ap.stdout[:200])
        props = claimed if all_props else [meta["property"]]
        caught = {}
        for p in props:
            env = dict(os.environ, MSA_REPO=tmp, MSA_NO_EVIDENCE="1")
            r = subprocess.run([os.path.join(HERE, "check"), p], capture_output=True, text=True, env=env, cwd=HERE)
            rules = sorted({l.split("rule=")[1].split()[0] for l in r.stdout.splitlines() if l.strip().startswith("finding rule=")})
            if r.returncode == 1:
                caught[p] = rules
            elif r.returncode == 2:
                und = sorted({l.split("rule=")[1].split()[0] for l in r.stdout.splitlines() if l.strip().startswith("UNDECIDED rule=")})
                caught[p] = ["ANALYSIS-ERROR: " + (("undecided " + ",".join(und)) if und else r.stdout.strip().splitlines()[-1][:150])]
        own = caught.get(meta["property"])
        verdict = "CAUGHT" if own and not str(own[0]).startswith("ANALYSIS") else ("caught-by-other" if any(
            not str(v[0]).startswith("ANALYSIS") for v in caught.values()) else ("UNDECIDED" if caught else "MISSED"))
        return (name, meta["property"], verdict, caught)
    finally:
        shutil.rmtree(tmp, ignore_errors=True)


def main():
    ids = [a for a in sys.argv[1:] if not a.startswith("--")]
    all_props = "--all-props" in sys.argv
    sd = os.path.join(HERE, "seeded")
    man = json.load(open(os.path.join(HERE, "MANIFEST.json")))
    claimed = [c["property_id"] for c in man["checks"]]
    names = [n for n in sorted(os.listdir(sd)) if (not ids or n in ids) and os.path.exists(os.path.join(sd, n, "patch.diff"))
             and os.path.exists(os.path.join(sd, n, "meta.json"))]
    with ThreadPoolExecutor(int(os.environ.get("MSA_JOBS", "12"))) as ex:
        rows = list(ex.map(lambda n: one(n, claimed, all_props), names))
    for r in rows:
        print(f"{r[0]:24s} {r[1]:4s} {r[2]:16s} {r[3]}")
    if not ids and all_props:
        json.dump([{"id": r[0], "property": r[1], "verdict": r[2], "caught": r[3] if isinstance(r[3], dict) else {}} for r in rows],
                  open(os.path.join(HERE, "notes", "seeded_results.json"), "w"), indent=1)
    n = len(rows)
    c = sum(1 for r in rows if r[2] == "CAUGHT")
    print(f"{c}/{n} seeded changes caught by the check of their own property")

if __name__ == "__main__":
    main()
