#!/usr/bin/env python3
"""Run every check against every kept behaviour-preserving change (/verif/benign/<id>/patch.diff) on a scratch copy of /repo.
A check that reports a NEW violation (exit 1) or gives up (exit 2) on such a tree is a false alarm.
usage: run_benign.py [ids...] [--own]     (--own: only the check of the property the change was written for)"""
import json, os, shutil, subprocess, sys, tempfile
from concurrent.futures import ThreadPoolExecutor
HERE = os.path.dirname(os.path.dirname(os.path.abspath(__file__)))


def one(name, claimed, own):
    d = os.path.join(HERE, "benign", name)
    meta = json.load(open(os.path.join(d, "meta.json")))
    tmp = tempfile.mkdtemp(prefix="bnrun_")
    try:
        shutil.copytree("/repo/mouette", os.path.join(tmp, "mouette"))
        ap = subprocess.run(["patch", "-p1", "-s", "-i", os.path.join(d, "patch.diff")], cwd=tmp, capture_output=True, text=True)
        if ap.returncode != 0:
            return name, meta.get("property"), "PATCH-FAILED", {}
        props = [meta["property"]] if own else claimed
        alarms = {}
        for p in props:
            env = dict(os.environ, MSA_REPO=tmp, MSA_NO_EVIDENCE="1")
            r = subprocess.run([os.path.join(HERE, "check"), p], capture_output=True, text=True, env=env, cwd=HERE)
            if r.returncode == 1:
                alarms[p] = [l.strip()[:300] for l in r.stdout.splitlines() if l.strip().startswith("finding rule=")]
            elif r.returncode != 0:
                alarms[p] = ["ANALYSIS-ERROR: " + (r.stdout.strip().splitlines() or ["?"])[-1][:300]]
        verdict = "silent"
        if alarms:
            verdict = "ALARM" if any(not f.startswith("ANALYSIS-ERROR") for fs in alarms.values() for f in fs) else "UNDECIDED"
        return name, meta.get("property"), verdict, alarms
    finally:
        shutil.rmtree(tmp, ignore_errors=True)


def main():
    ids = [a for a in sys.argv[1:] if not a.startswith("--")]
    own = "--own" in sys.argv
    man = json.load(open(os.path.join(HERE, "MANIFEST.json")))
    claimed = [c["property_id"] for c in man["checks"]]
    names = [n for n in sorted(os.listdir(os.path.join(HERE, "benign"))) if (not ids or n in ids)
             and os.path.exists(os.path.join(HERE, "benign", n, "patch.diff")) and os.path.exists(os.path.join(HERE, "benign", n, "meta.json"))]
    with ThreadPoolExecutor(int(os.environ.get("MSA_JOBS", "12"))) as ex:
        rows = list(ex.map(lambda n: one(n, claimed, own), names))
    n_alarm = 0
    n_und = sum(1 for r in rows if r[2] == "UNDECIDED")
    for name, prop, verdict, alarms in rows:
        print(f"{name:12s} {prop} {verdict}")
        for p, fs in alarms.items():
            for f in fs:
                print(f"      [{p}] {f}")
        n_alarm += verdict != "silent"
    print(f"{len(rows) - n_alarm}/{len(rows)} behaviour-preserving changes leave every check silent; {n_alarm - n_und} raise a false alarm (exit 1), "
          f"{n_und} end undecided (exit 2, no alarm)")
    if not ids and not own:
        json.dump([{"id": r[0], "property": r[1], "verdict": r[2], "alarms": r[3]} for r in rows],
                  open(os.path.join(HERE, "notes", "benign_results.json"), "w"), indent=1)

if __name__ == "__main__":
    main()
