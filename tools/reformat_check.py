#!/usr/bin/env python3
"""Benign whole-package variant: every module replaced by ast.unparse(ast.parse(src)) (comments, layout, quotes,
parentheses and line numbers all change; behaviour does not).  Every check must report exactly what it reports on /repo."""
import ast, os, sys, warnings
sys.path.insert(0, os.path.dirname(os.path.dirname(os.path.abspath(__file__))))
from msa.core import Repo
from msa.cli import run_property
import json

def main():
    props = sys.argv[1:] or [c["property_id"] for c in json.load(open(os.path.join(os.path.dirname(__file__), "..", "MANIFEST.json")))["checks"]]
    base = Repo()
    overlay = {}
    with warnings.catch_warnings():
        warnings.simplefilter("ignore")
        for name, m in base.modules.items():
            overlay[m.relpath] = ast.unparse(ast.parse(m.source)) + "\n"
    repo2 = Repo(overlay=overlay)
    bad = 0
    for p in props:
        rc0, c0, new0, old0 = run_property(p, "quick", repo=base, quiet=True, write=False)
        try:
            rc1, c1, new1, old1 = run_property(p, "quick", repo=repo2, quiet=True, write=False)
        except Exception as e:
            print(f"{p}: FAIL analyser raised on the reformatted tree: {type(e).__name__}: {e}")
            bad += 1
            continue
        k0 = sorted(f.key() for f in new0 + old0)
        k1 = sorted(f.key() for f in new1 + old1)
        if k0 != k1 or c0.obligations != c1.obligations:
            bad += 1
            print(f"{p}: FAIL findings/obligations differ after reformatting: {c0.obligations} vs {c1.obligations}")
            for k in k1:
                if k not in k0: print("   +", k[1:])
            for k in k0:
                if k not in k1: print("   -", k[1:])
        else:
            print(f"{p}: ok ({c1.obligations} obligations, {len(k1)} findings identical)")
    return 1 if bad else 0

if __name__ == "__main__":
    sys.exit(main())
