#!/bin/sh
# Offline setup: nothing to build - the analyser is stdlib-only python run by /venv/bin/python (or python3).
cd "$(dirname "$0")/.." || exit 1
PY=/venv/bin/python; [ -x "$PY" ] || PY=python3
mkdir -p evidence
$PY -c "import ast, sys; sys.path.insert(0, '.'); import msa.core, msa.cli; print('msa ok', sys.version.split()[0])"
