"""
notes/repro_findings.py -- NOT a check, NOT registered in MANIFEST.json.

Reproduction scripts for the genuine defects listed in DESIGN.md section 5: each block calls the
real library with a concrete failing input ("you can show the failing input against the real
code").  Used once, in round 0, to tell genuine defects from false alarms before arming the static
rules, and kept only as documentation for known_findings.json.  Run by hand:

    /venv/bin/python /verif/notes/repro_findings.py

A line starting with [EXC] or a value annotated in the label is the defect showing.
"""

def part0():

    # ---------------------------------------------------------------- p1.py
    import warnings; warnings.filterwarnings("ignore")
    import numpy as np, traceback
    import mouette as M

    def attempt(name, f):
        try:
            r = f()
            print(f"[ok ] {name}: {r!r}"[:300])
        except Exception as e:
            print(f"[EXC] {name}: {type(e).__name__}: {e}"[:300])

    # C01 half_edge_to_corner on fresh mesh
    def c01():
        m = M.procedural.unit_grid(3,3,triangulate=True)
        return m.connectivity.half_edge_to_corner(0,1)
    attempt("C01 half_edge_to_corner fresh", c01)
    def c01b():
        m = M.procedural.unit_grid(3,3,triangulate=True)
        m.connectivity.vertex_to_corners(0)
        return m.connectivity.half_edge_to_corner(0,1)
    attempt("C01 half_edge_to_corner after", c01b)

    # C03 edge_to_face fresh
    def tetmesh():
        V = np.array([[0,0,0],[1,0,0],[0,1,0],[0,0,1],[1,1,1.]])
        C = [(0,1,2,3),(1,2,3,4)]
        raw = M.mesh.RawMeshData()
        raw.vertices += [M.Vec(v) for v in V]
        raw.cells += C
        return M.mesh.VolumeMesh(raw)
    def c03():
        m = tetmesh(); return m.connectivity.edge_to_face(0)
    attempt("C03 edge_to_face fresh", c03)
    def c03b():
        m = tetmesh(); m.connectivity.edge_id(0,1); return m.connectivity.edge_to_face(0)
    attempt("C03 edge_to_face after edge_id", c03b)
    def c03c():
        m = tetmesh(); return (m.cell_faces._elem, m.cell_faces._adj, m.cell_corners._elem, m.cell_corners._adj)
    attempt("C02 cell_faces/cell_corners", c03c)
    # numpy-built volume
    def c02np():
        V = np.array([[0,0,0],[1,0,0],[0,1,0],[0,0,1],[1,1,1.]])
        m = M.mesh.from_arrays(V, C=np.array([(0,1,2,3),(1,2,3,4)]))
        return m.connectivity.face_to_cells(0)
    attempt("C02 numpy volume face_to_cells", c02np)
    # from_arrays aliasing
    def c06a():
        V = np.array([[0,0,0],[1,0,0],[0,1,0.]])
        m = M.mesh.from_arrays(V, F=np.array([[0,1,2]]))
        M.transform.translate(m, M.Vec(1.,1.,1.))
        return V.tolist()
    attempt("C06 from_arrays alias after translate (V mutated?)", c06a)
    def c06b():
        m = M.procedural.unit_grid(2,2)
        mm = M.mesh.merge([m,m])
        before = [list(v) for v in m.vertices]
        M.transform.translate(mm, M.Vec(1.,0.,0.))
        return before[1], list(m.vertices[1]), list(mm.vertices[1]), list(mm.vertices[5])
    attempt("C06 merge twice then translate", c06b)
    def c06c():
        r = M.procedural.ring(5, 0.5, open=True)
        a = [list(r.vertices[1]), list(r.vertices[len(r.vertices)-1])]
        M.transform.translate(r, M.Vec(1.,0.,0.))
        return a, list(r.vertices[1]), list(r.vertices[len(r.vertices)-1])
    attempt("C06 open ring translate", c06c)

def part1():

    # ---------------------------------------------------------------- p2.py
    import warnings; warnings.filterwarnings("ignore")
    import numpy as np, traceback, signal
    import mouette as M
    from mouette.mesh.data_container import DataContainer

    class TO(Exception): pass
    def handler(s,f): raise TO("timeout")
    signal.signal(signal.SIGALRM, handler)

    def attempt(name, f, t=10):
        signal.alarm(t)
        try:
            r = f()
            print(f"[ok ] {name}: {r!r}"[:400])
        except BaseException as e:
            print(f"[EXC] {name}: {type(e).__name__}: {e}"[:400])
        finally:
            signal.alarm(0)

    # C05
    def c05a():
        a = DataContainer([1,2,3]); b = DataContainer([4,5])
        a.create_attribute("x", float, dense=True)
        a += b
        return len(a)
    attempt("C05 container += container with attribute", c05a)
    def c05b():
        a = DataContainer([1,2,3]); at = a.create_attribute("x", float, dense=True)
        return at[3]
    attempt("C05 dense index==size", c05b)
    def c05c():
        a = DataContainer([1,2,3]); at = a.create_attribute("x", float, 2)
        at[0] += M.Vec(1.,1.)
        return list(at[1]), list(at[2])
    attempt("C05 sparse vector default aliasing", c05c)

    # C09
    def c09a():
        m = M.procedural.unit_grid(3,3,triangulate=True)
        return M.processing.shortest_path(m, 0, 8, weights="one")
    attempt("C09 weights=one", c09a)
    def c09b():
        m = M.procedural.unit_grid(3,3,triangulate=True)
        return M.processing.shortest_path_to_vertex_set(m, 0, [8])
    attempt("C09 single target set", c09b)
    def c09c():
        m = M.procedural.unit_grid(3,3,triangulate=True)
        p, pm = M.processing.shortest_path(m, 0, [2,6], export_path_mesh=True)
        return p, list(pm.edges), len(pm.vertices)
    attempt("C09 path mesh 2 targets", c09c)

    # C11
    def c11a():
        pts = np.zeros((12,3))
        t = M.spatial.KDTree(pts, max_leaf_size=10)
        return len(t.nodes)
    attempt("C11 duplicates build", c11a, 5)
    def c11b():
        rng = np.random.default_rng(0)
        bad = 0
        for trial in range(50):
            pts = rng.random((40,2))
            t = M.spatial.KDTree(pts, max_leaf_size=2, strategy="balanced")
            q = rng.random(2)
            k = 7
            r = t.query(q, k)
            d = np.linalg.norm(pts-q,axis=1)
            exp = list(np.argsort(d)[:k])
            if len(r)!=k or sorted(d[r]) != sorted(d[exp]): bad += 1
        return bad
    attempt("C11 knn small leaves wrong count of 50", c11b, 20)

    # C12
    def c12a():
        old = np.geterr()
        np.seterr(all="ignore")
        M.Vec.normalized(M.Vec(1.,0.,0.))
        r = np.geterr()
        np.seterr(**old)
        return r
    attempt("C12 seterr after normalized (was ignore)", c12a)
    def c12b():
        old = np.geterr()
        try:
            M.Vec.normalized(M.Vec(0.,0.,0.))
        except Exception as e: pass
        r = np.geterr(); np.seterr(**old); return r
    attempt("C12 seterr after failing normalized", c12b)
    def c12c():
        a = np.zeros(3); b = np.ones(3)
        bb = M.geometry.AABB(a,b); bb.pad(1.)
        return a.tolist(), b.tolist()
    attempt("C12 AABB pad mutates caller arrays", c12c)

    # C13
    def c13a():
        pl = M.procedural.chain_of_vertices(np.array([[0,0,0],[1,0,0],[2,0,0.]]))
        M.mesh.split_edge(pl, 0)
        return list(pl.edges)
    attempt("C13 split_edge", c13a)
    def c13b():
        m = M.procedural.unit_grid(3,3,triangulate=True)
        nfc = len(m.face_corners)
        with M.mesh.SurfaceSubdivision(m) as s:
            s.loop_subdivision(1)
        return nfc, len(m.face_corners), len(m.faces), len(s.mesh.faces), len(s.mesh.edges.get_attribute("hard_edges")), len(s.mesh.edges)
    attempt("C13 input mesh after loop subdivision", c13b)

def part2():

    # ---------------------------------------------------------------- p4.py
    import warnings; warnings.filterwarnings("ignore")
    import numpy as np, signal, os, tempfile
    import mouette as M
    class TO(Exception): pass
    def handler(s,f): raise TO("timeout")
    signal.signal(signal.SIGALRM, handler)
    def attempt(name, f, t=20):
        signal.alarm(t)
        try:
            r = f(); print(f"[ok ] {name}: {r!r}"[:500])
        except BaseException as e:
            print(f"[EXC] {name}: {type(e).__name__}: {e}"[:400])
        finally: signal.alarm(0)

    def c14a():
        m = M.procedural.unit_grid(4,2)
        return len(m.vertices), list(m.faces), len(m.edges)
    attempt("C14 unit_grid(4,2)", c14a)
    def c14a2():
        m = M.procedural.unit_grid(2,4)
        return len(m.vertices), list(m.faces)
    attempt("C14 unit_grid(2,4)", c14a2)
    def c14b():
        P = [M.Vec(0.,0,0),M.Vec(1.,0,0),M.Vec(0.,1,0),M.Vec(0.,0,1)]
        m = M.procedural.hexahedron_4pts(*P, colored=False, volume=True)
        return type(m).__name__, len(m.faces), [len(f) for f in m.faces][:3]
    attempt("C14 hexahedron_4pts volume=True", c14b)
    def c14c():
        m = M.procedural.sphere_fibonacci(50); return type(m).__name__, len(m.faces)
    attempt("C14 sphere_fibonacci surface", c14c)
    def c14d():
        m = M.procedural.sphere_uv(5,7)
        used = set(v for f in m.faces for v in f)
        return len(m.vertices), len(used), M.attributes.euler_characteristic(m)
    attempt("C14 sphere_uv unused", c14d)
    def c19b():
        S = M.splines.BezierPatch([[M.Vec(i,j,0.) for j in range(3)] for i in range(3)])
        m = S.as_surface(5,3)
        return len(m.vertices), max(v for f in m.faces for v in f), len(m.faces)
    attempt("C19 bezier as_surface(5,3)", c19b)
    def c19c():
        p = M.sampling.sample_ball(M.Vec(0.,0,0), 0.1, 2000)
        return float(np.max(np.linalg.norm(p,axis=1)))
    attempt("C19 sample_ball radius 0.1 max norm", c19c)
    def c19d():
        bb = M.geometry.AABB([2.,2.],[3.,4.])
        p = M.sampling.sample_AABB(bb, 16, mode="grid")
        return p.min(axis=0).tolist(), p.max(axis=0).tolist(), len(p)
    attempt("C19 sample_AABB grid", c19d)

    def c17():
        m = M.procedural.unit_grid(4,4,triangulate=True)
        T = M.parametrization.TutteEmbedding(m, "square", save_on_corners=False)(); 
        bnd,_ = M.processing.extract_border_cycle(m)
        pos = [tuple(np.round(T.uvs[v],6)) for v in bnd]
        return len(pos), len(set(pos)), pos
    attempt("C17 tutte square boundary positions", c17)

    def c18():
        m = M.procedural.unit_grid(5,5,triangulate=True)
        ff = M.framefield.SurfaceFrameField(m, "faces", order=6, verbose=False, n_smooth=0)
        ff.run()
        # check constraint: face with exactly one border edge: var == (edge dir)^6
        bad=0; tot=0
        for e in m.boundary_edges:
            a,b = m.edges[e]
            for T in m.connectivity.edge_to_faces(a,b):
                if T is None: continue
                X,Y = ff.conn.base(T)
                E = m.vertices[b]-m.vertices[a]
                c = complex(E.dot(X),E.dot(Y)); c/=abs(c)
                tot+=1
                if abs(ff.var[T]-c**6)>1e-6: bad+=1
        return bad, tot
    attempt("C18 faces order 6 constraint", c18)

    def c07():
        m = M.procedural.unit_grid(3,3,triangulate=True)
        return M.attributes.triangle_aspect_ratio(m)
    attempt("C07 triangle_aspect_ratio returns", c07)

    def c20():
        uf = M.utils.UnionFind([(0,1),(1,2),(2,3)])
        uf.union((0,1),(1,2))
        return uf.component((0,1))
    attempt("C20 UF tuple component", c20)
    def c20b():
        uf = M.utils.UnionFind([(0,1),(1,2),(2,3)])
        uf.union((0,1),(1,2))
        return uf.component_mapping()
    attempt("C20 UF tuple component_mapping", c20b)
    def c20c():
        uf = M.utils.UnionFind(["a","b",1])
        uf.union("a",1)
        return uf.component("a"), uf.components()
    attempt("C20 UF mixed", c20c)

def part3():

    # ---------------------------------------------------------------- p5.py
    import warnings; warnings.filterwarnings("ignore")
    import numpy as np, signal, os, tempfile
    import mouette as M
    def attempt(name, f):
        try:
            r = f(); print(f"[ok ] {name}: {r!r}"[:600])
        except BaseException as e:
            print(f"[EXC] {name}: {type(e).__name__}: {e}"[:400])
    d = tempfile.mkdtemp()
    def rt(m, ext, **kw):
        p = os.path.join(d, "x."+ext); M.mesh.save(m,p); return M.mesh.load(p, **kw)
    def quadmesh(): return M.procedural.unit_grid(3,3)
    def hexmesh():
        P=[M.Vec(0.,0,0),M.Vec(1.,0,0),M.Vec(1.,1,0),M.Vec(0.,1,0),M.Vec(0.,0,1),M.Vec(1.,0,1),M.Vec(1.,1,1),M.Vec(0.,1,1)]
        return M.procedural.hexahedron(*P, volume=True)
    def tetm():
        raw = M.mesh.RawMeshData(); raw.vertices += [M.Vec(0.,0,0),M.Vec(1.,0,0),M.Vec(0.,1,0),M.Vec(0.,0,1),M.Vec(1.,1,1.)]; raw.cells += [(0,1,2,3),(1,2,3,4)]
        return M.mesh.VolumeMesh(raw)

    attempt("C04 off quad", lambda: (lambda m: (type(m).__name__, len(m.faces), len(getattr(m,'cells',[]))))(rt(quadmesh(),"off")))
    attempt("C04 medit hex", lambda: (lambda m: (type(m).__name__, [len(c) for c in m.cells]))(rt(hexmesh(),"mesh")))
    attempt("C04 tet hex", lambda: (lambda m: (type(m).__name__, [len(c) for c in m.cells]))(rt(hexmesh(),"tet")))
    attempt("C04 geogram quad", lambda: (lambda m: (type(m).__name__, [len(c) for c in m.faces][:4], len(m.faces)))(rt(quadmesh(),"geogram_ascii")))
    attempt("C04 geogram tet volume", lambda: (lambda m: (type(m).__name__, len(m.cells)))(rt(tetm(),"geogram_ascii")))
    def geoattr(tp, val, k=1):
        m = M.procedural.unit_grid(2,2,triangulate=True)
        a = m.vertices.create_attribute("foo", tp, k)
        a[1] = val
        m2 = rt(m, "geogram_ascii")
        b = m2.vertices.get_attribute("foo")
        return b.type, b.elemsize, b[1], b[0]
    attempt("C04 geogram float attr", lambda: geoattr(float, 2.5))
    attempt("C04 geogram int2 attr", lambda: geoattr(int, [3,4], 2))
    attempt("C04 geogram bool attr", lambda: geoattr(bool, True))
    attempt("C04 geogram complex attr", lambda: geoattr(complex, 1+2j))
    attempt("C04 geogram str attr", lambda: geoattr(str, "hello"))
    def polyl():
        return M.procedural.chain_of_vertices(np.array([[0,0,0],[1,0,0],[2,0,0.]]))
    attempt("C04 polyline obj", lambda: (lambda m:(type(m).__name__, list(m.edges)))(rt(polyl(),"obj")))
    attempt("C04 polyline mesh", lambda: (lambda m:(type(m).__name__, list(m.edges)))(rt(polyl(),"mesh")))
    attempt("C04 polyline off", lambda: (lambda m:(type(m).__name__, ))(rt(polyl(),"off")))
    attempt("C04 polyline geogram", lambda: (lambda m:(type(m).__name__, list(m.edges)))(rt(polyl(),"geogram_ascii")))
    attempt("C04 quad obj", lambda: (lambda m:(type(m).__name__, list(m.faces)[:2], len(m.edges.get_attribute('hard_edges')) if m.edges.has_attribute('hard_edges') else None))(rt(quadmesh(),"obj")))
    attempt("C04 quad medit", lambda: (lambda m:(type(m).__name__, list(m.faces)[:2]))(rt(quadmesh(),"mesh")))
    attempt("C04 tet medit", lambda: (lambda m:(type(m).__name__, list(m.cells)))(rt(tetm(),"mesh")))
    # C02 hard edges after re-wrap
    def c02h():
        m = M.procedural.unit_grid(3,3,triangulate=True)
        h0 = len(m.edges.get_attribute("hard_edges"))
        with M.mesh.SurfaceSubdivision(m) as s:
            s.split_face_as_fan(0)
        return h0, len(s.mesh.edges.get_attribute("hard_edges")), len(s.mesh.edges)
    attempt("C02/C13 hard edges after editing block", c02h)
    def c15():
        m = M.procedural.icosahedron()
        return M.processing.extract_border_cycle(m)
    attempt("C15 border cycle closed", c15)
    def c07m():
        m = M.procedural.unit_grid(2,2)
        return M.attributes.mean_edge_length(m), M.attributes.mean_edge_length(m, 100)
    attempt("C07 mean_edge_length n>len", c07m)
    def c06copy():
        m = M.procedural.unit_grid(2,2); m.connectivity.vertex_to_vertices(0)
        c = M.mesh.copy(m, copy_connectivity=True)
        return c.connectivity is m.connectivity, c.connectivity.mesh is m
    attempt("C06 copy connectivity shared", c06copy)

def part4():

    # ---------------------------------------------------------------- p6.py
    import warnings; warnings.filterwarnings("ignore")
    import mouette as M
    from collections import Counter
    def orient_ok(faces):
        c = Counter()
        for f in faces:
            n=len(f)
            for i in range(n): c[(f[i],f[(i+1)%n])]+=1
        return all(v==1 for v in c.values()), [k for k,v in c.items() if v>1]
    P=[M.Vec(0.,0,0),M.Vec(1.,0,0),M.Vec(0.,1,0),M.Vec(0.,0,1)]
    t = M.procedural.tetrahedron(*P)
    print("tetrahedron", orient_ok(list(t.faces)))
    print("ico", orient_ok(list(M.procedural.icosahedron().faces)))
    print("cube", orient_ok(list(M.procedural.axis_aligned_cube().faces)), orient_ok(list(M.procedural.axis_aligned_cube(triangulate=True).faces)))
    print("cyl", orient_ok(list(M.procedural.cylinder(P[0],P[1],N=5).faces)))
    print("torus", orient_ok(list(M.procedural.torus(5,4).faces)), orient_ok(list(M.procedural.torus(5,4,triangulate=True).faces)))
    print("sphere_uv", orient_ok(list(M.procedural.sphere_uv(5,4).faces)))
    print("grid", orient_ok(list(M.procedural.unit_grid(3,3,True).faces)))
    print("unit_triangle", orient_ok(list(M.procedural.unit_triangle(4,4).faces)))
    print("ring", orient_ok(list(M.procedural.ring(5,0.3).faces)), orient_ok(list(M.procedural.flat_ring(5,0.3).faces)))
    try:
        t.connectivity.vertex_to_vertices(0); print("tet connectivity ok", [t.connectivity.direct_face(a,b) for a,b in [(2,3),(3,2)]])
    except Exception as e: print("EXC", e)

if __name__ == '__main__':
    part0()
    part1()
    part2()
    part3()
    part4()
