"""Loader, module/class model, finding protocol, evidence writer."""
from __future__ import annotations
import ast, hashlib, json, os, sys, time, warnings
from dataclasses import dataclass, field

REPO = os.environ.get("MSA_REPO", "/repo")
PKG = "mouette"
VERIF = os.path.dirname(os.path.dirname(os.path.abspath(__file__)))
MIN_MODULES = 100  # 109 today; a drop below 100 means the loader did not see the package


class AnalysisError(Exception):
    """The analyser cannot decide: anchor vanished, file does not parse, ... (exit 2)."""


def unparse(node) -> str:
    try:
        return ast.unparse(node)
    except Exception:  # pragma: no cover
        return "<%s>" % type(node).__name__


class Module:
    def __init__(self, name, path, source, is_pkg):
        self.name, self.path, self.source, self.is_pkg = name, path, source, is_pkg
        try:
            with warnings.catch_warnings():
                warnings.simplefilter('ignore')
                self.tree = ast.parse(source, filename=path)
        except SyntaxError as e:
            raise AnalysisError(f"{path} does not parse: {e}")
        self.normal_count = {}
        if not os.environ.get("MSA_NO_NORMAL"):
            from .normal import normalise
            self.tree, self.normal_count = normalise(self.tree)
        self.funcs: dict[str, ast.FunctionDef] = {}
        self.classes: dict[str, ast.ClassDef] = {}
        self._index(self.tree.body, "")
        for n in ast.walk(self.tree):
            for c in ast.iter_child_nodes(n):
                c._parent = n  # type: ignore[attr-defined]

    def _index(self, body, prefix):
        for st in body:
            if isinstance(st, (ast.FunctionDef, ast.AsyncFunctionDef)):
                q = prefix + st.name
                # keep the *last* definition of a name (python semantics), but property
                # setters etc. get a suffix so the getter stays addressable
                if q in self.funcs and _is_setter(st):
                    q = q + ".setter"
                self.funcs[q] = st
                st._qualname = q  # type: ignore[attr-defined]
                self._index(st.body, q + ".<locals>.")
            elif isinstance(st, ast.ClassDef):
                q = prefix + st.name
                self.classes[q] = st
                st._qualname = q  # type: ignore[attr-defined]
                self._index(st.body, q + ".")
            elif isinstance(st, (ast.If, ast.Try, ast.With, ast.For, ast.While)):
                for fld in ("body", "orelse", "finalbody"):
                    self._index(getattr(st, fld, []) or [], prefix)
                for h in getattr(st, "handlers", []) or []:
                    self._index(h.body, prefix)

    @property
    def relpath(self):
        return os.path.relpath(self.path, REPO)


def _is_setter(fn):
    for d in fn.decorator_list:
        if isinstance(d, ast.Attribute) and d.attr in ("setter", "deleter"):
            return True
    return False


class Repo:
    """All modules of the package, with import / star-import resolution."""

    def __init__(self, root=None, overlay=None, base=None):
        self.root = root or REPO
        self.overlay = overlay or {}
        self.modules: dict[str, Module] = {}
        if base is not None:
            # share the parsed modules of `base`, re-parse only the overlaid files (used by the self-test)
            self.root = base.root
            for name, m in base.modules.items():
                if m.relpath in self.overlay:
                    self.modules[name] = Module(name, m.path, self.overlay[m.relpath], m.is_pkg)
                else:
                    self.modules[name] = m
            self._exports = {}
            self._compute_exports()
            return
        pkgdir = os.path.join(self.root, PKG)
        if not os.path.isdir(pkgdir):
            raise AnalysisError(f"package directory {pkgdir} not found")
        for d, dirs, files in os.walk(pkgdir):
            dirs[:] = sorted(x for x in dirs if x != "__pycache__")
            for f in sorted(files):
                if not f.endswith(".py"):
                    continue
                path = os.path.join(d, f)
                rel = os.path.relpath(path, self.root)
                parts = rel[:-3].split(os.sep)
                is_pkg = parts[-1] == "__init__"
                if is_pkg:
                    parts = parts[:-1]
                name = ".".join(parts)
                if rel in self.overlay:
                    src = self.overlay[rel]
                else:
                    with open(path, encoding="utf-8") as fh:
                        src = fh.read()
                self.modules[name] = Module(name, path, src, is_pkg)
        if len(self.modules) < MIN_MODULES and not os.environ.get("MSA_ALLOW_SMALL"):
            raise AnalysisError(f"only {len(self.modules)} modules parsed under {pkgdir} (< {MIN_MODULES})")
        self._exports: dict[str, dict] = {}
        self._compute_exports()

    # ------------------------------------------------------------------ lookup
    def module(self, name) -> Module:
        name = name if name.startswith(PKG) else PKG + "." + name
        if name not in self.modules:
            raise AnalysisError(f"anchor module {name} not found")
        return self.modules[name]

    def func(self, modname, qualname) -> ast.FunctionDef:
        m = self.module(modname)
        if qualname not in m.funcs:
            raise AnalysisError(f"anchor function {m.name}::{qualname} not found")
        return m.funcs[qualname]

    def has_func(self, modname, qualname) -> bool:
        m = self.module(modname)
        return qualname in m.funcs

    def cls(self, modname, qualname) -> ast.ClassDef:
        m = self.module(modname)
        if qualname not in m.classes:
            raise AnalysisError(f"anchor class {m.name}::{qualname} not found")
        return m.classes[qualname]

    def digest(self, modnames=None) -> str:
        h = hashlib.sha256()
        for n in sorted(modnames or self.modules):
            h.update(n.encode())
            h.update(self.module(n).source.encode())
        return h.hexdigest()[:16]

    # ------------------------------------------------------ import resolution
    def _abs_import(self, mod: Module, node: ast.ImportFrom):
        if node.level == 0:
            return node.module
        base = mod.name.split(".")
        if not mod.is_pkg:
            base = base[:-1]
        if node.level > 1:
            base = base[: len(base) - (node.level - 1)]
        if node.module:
            base = base + node.module.split(".")
        return ".".join(base)

    def _module_level_stmts(self, mod):
        out = []

        def rec(body):
            for st in body:
                out.append(st)
                if isinstance(st, (ast.If, ast.Try, ast.With)):
                    for fld in ("body", "orelse", "finalbody"):
                        rec(getattr(st, fld, []) or [])
                    for h in getattr(st, "handlers", []) or []:
                        rec(h.body)
        rec(mod.tree.body)
        return out

    def _compute_exports(self):
        # bindings[mod][name] = ("def"|"class"|"var"|"module"|"import", origin module, origin name)
        bind = {n: {} for n in self.modules}
        stars = {n: [] for n in self.modules}
        for n, mod in self.modules.items():
            b = bind[n]
            for st in self._module_level_stmts(mod):
                if isinstance(st, (ast.FunctionDef, ast.AsyncFunctionDef)):
                    b[st.name] = ("def", n, st.name)
                elif isinstance(st, ast.ClassDef):
                    b[st.name] = ("class", n, st.name)
                elif isinstance(st, (ast.Assign, ast.AnnAssign, ast.AugAssign)):
                    tg = st.targets if isinstance(st, ast.Assign) else [st.target]
                    for t in tg:
                        for nm in ast.walk(t):
                            if isinstance(nm, ast.Name):
                                b[nm.id] = ("var", n, nm.id)
                elif isinstance(st, ast.Import):
                    for a in st.names:
                        nm = a.asname or a.name.split(".")[0]
                        b[nm] = ("module", a.name if a.asname else a.name.split(".")[0], None)
                elif isinstance(st, ast.ImportFrom):
                    src = self._abs_import(mod, st)
                    for a in st.names:
                        if a.name == "*":
                            stars[n].append(src)
                        else:
                            full = (src + "." + a.name) if src else a.name
                            if full in self.modules:
                                b[a.asname or a.name] = ("module", full, None)
                            else:
                                b[a.asname or a.name] = ("import", src, a.name)
                elif isinstance(st, (ast.For,)):
                    for nm in ast.walk(st.target):
                        if isinstance(nm, ast.Name):
                            b[nm.id] = ("var", n, nm.id)
            # a package binds its sub-modules once they are imported anywhere; approximate:
            if mod.is_pkg:
                for other in self.modules:
                    if other.startswith(n + ".") and "." not in other[len(n) + 1:]:
                        b.setdefault(other[len(n) + 1:], ("module", other, None))
        changed = True
        while changed:
            changed = False
            for n in self.modules:
                for src in stars[n]:
                    if src in bind:
                        for k, v in bind[src].items():
                            if k.startswith("_"):
                                continue
                            if k not in bind[n]:
                                bind[n][k] = v
                                changed = True
        self._exports = bind

    def resolve(self, modname, name, _depth=0):
        """Follow imports: returns (kind, module, name) with kind in def/class/var/module/external."""
        modname = modname if modname.startswith(PKG) else PKG + "." + modname
        b = self._exports.get(modname, {}).get(name)
        if b is None:
            return None
        kind, src, oname = b
        if kind == "import":
            if src in self.modules and _depth < 20:
                r = self.resolve(src, oname, _depth + 1)
                return r if r is not None else ("external", src, oname)
            return ("external", src, oname)
        if kind == "module" and src not in self.modules:
            return ("external", src, None)
        return b

    def resolve_func(self, modname, name):
        r = self.resolve(modname, name)
        if r and r[0] == "def":
            return self.modules[r[1]], self.modules[r[1]].funcs.get(r[2])
        return None

    # ------------------------------------------------------------ class model
    def class_bases(self, mod: Module, cls: ast.ClassDef):
        """Resolved (Module, ClassDef) list of direct bases that live in the package."""
        out = []
        for b in cls.bases:
            r = self._resolve_class_expr(mod, b)
            if r:
                out.append(r)
        return out

    def _resolve_class_expr(self, mod, expr):
        parts = []
        e = expr
        while isinstance(e, ast.Attribute):
            parts.append(e.attr)
            e = e.value
        if not isinstance(e, ast.Name):
            return None
        parts.append(e.id)
        parts.reverse()
        r = self.resolve(mod.name, parts[0])
        if not r:
            return None
        if r[0] == "class":
            m = self.modules[r[1]]
            q = ".".join([r[2]] + parts[1:])
            if q in m.classes:
                return (m, m.classes[q])
        if r[0] == "module" and r[1] in self.modules and len(parts) > 1:
            m = self.modules[r[1]]
            q = ".".join(parts[1:])
            if q in m.classes:
                return (m, m.classes[q])
            rr = self.resolve(m.name, parts[1])
            if rr and rr[0] == "class":
                m2 = self.modules[rr[1]]
                q = ".".join([rr[2]] + parts[2:])
                if q in m2.classes:
                    return (m2, m2.classes[q])
        return None

    def mro(self, mod: Module, cls: ast.ClassDef):
        """Linearisation (single inheritance chain; multiple bases are visited left to right)."""
        out, seen = [], set()

        def rec(m, c):
            key = (m.name, c._qualname)
            if key in seen:
                return
            seen.add(key)
            out.append((m, c))
            for bm, bc in self.class_bases(m, c):
                rec(bm, bc)
        rec(mod, cls)
        return out

    def methods(self, mod, cls):
        """name -> (Module, FunctionDef, owner ClassDef) following the MRO; properties included."""
        out = {}
        for m, c in self.mro(mod, cls):
            for st in c.body:
                if isinstance(st, ast.FunctionDef) and not _is_setter(st):
                    out.setdefault(st.name, (m, st, c))
        return out


# ---------------------------------------------------------------------------
@dataclass
class Site:
    module: str
    qualname: str
    line: int = 0

    def __str__(self):
        return f"{self.module.replace('.', '/')}.py:{self.line} {self.qualname}"


@dataclass
class Finding:
    prop: str
    rule: str
    site: Site
    construct: str
    what: str
    detail: dict = field(default_factory=dict)

    def key(self):
        return (self.prop, self.rule, self.site.module, self.site.qualname, self.construct)


class Ctx:
    """Per-run accumulator of obligations, findings and coverage facts."""

    def __init__(self, prop, tier, repo: Repo):
        self.prop, self.tier, self.repo = prop, tier, repo
        self.obligations = 0
        self.discharged = 0
        self.instances: dict[str, int] = {}      # rule -> number of obligations
        self.samples: list = []
        self.findings: list[Finding] = []
        self.unsupported: list[str] = []
        self.functions: set = set()
        self.modules: set = set()
        self.notes: list[str] = []
        self.undecided_list: list[Finding] = []

    def site(self, modname, fn_or_qual, node=None) -> Site:
        modname = modname if modname.startswith(PKG) else PKG + "." + modname
        q = fn_or_qual if isinstance(fn_or_qual, str) else getattr(fn_or_qual, "_qualname", fn_or_qual.name)
        line = getattr(node, "lineno", None) or (0 if isinstance(fn_or_qual, str) else fn_or_qual.lineno)
        self.modules.add(modname)
        self.functions.add(modname + "::" + q)
        return Site(modname, q, line)

    def ok(self, rule, site: Site, note=""):
        self.obligations += 1
        self.discharged += 1
        self.instances[rule] = self.instances.get(rule, 0) + 1
        if len([s for s in self.samples if s["rule"] == rule]) < 2:
            self.samples.append({"rule": rule, "site": str(site), "verdict": "discharged", "note": note})

    def fail(self, rule, site: Site, construct, what, **detail):
        self.obligations += 1
        self.instances[rule] = self.instances.get(rule, 0) + 1
        f = Finding(self.prop, rule, site, construct, what, detail)
        if f.key() not in [g.key() for g in self.findings]:
            self.findings.append(f)

    def undecided(self, rule, site: Site, construct, what="", **detail):
        """The rule cannot locate (or read) the construct it is about: the anchored function exists but no longer has a shape the
        rule understands.  Neither a pass nor a violation: the run ends as ANALYSIS-ERROR (exit 2) with this obligation listed -
        an alarm (`fail`) needs a recognised construct that contradicts the rule."""
        self.obligations += 1
        self.instances[rule] = self.instances.get(rule, 0) + 1
        f = Finding(self.prop, rule, site, construct, what, detail)
        if f.key() not in [g.key() for g in self.undecided_list]:
            self.undecided_list.append(f)

    def check(self, cond, rule, site, construct, what, note="", **detail):
        if cond:
            self.ok(rule, site, note or construct)
        else:
            self.fail(rule, site, construct, what, **detail)
        return cond

    def declare_unsupported(self, what):
        self.unsupported.append(what)

    def require_count(self, rule, n, at_least):
        """Fail closed when a rule matched fewer sites than were confirmed by hand."""
        if n < at_least:
            raise AnalysisError(f"{rule}: only {n} instance(s) found, {at_least} were confirmed by hand "
                                f"- the matcher lost its sites (refusing a vacuous pass)")


def load_known():
    p = os.path.join(VERIF, "known_findings.json")
    if not os.path.exists(p):
        return {"findings": [], "fixed": []}
    with open(p) as fh:
        return json.load(fh)


def known_key(k):
    return (k["property"], k["rule"], k["module"], k["qualname"], k["construct"])
