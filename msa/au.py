"""Small AST utilities shared by the rules."""
from __future__ import annotations
import ast

FUNC = (ast.FunctionDef, ast.AsyncFunctionDef, ast.Lambda, ast.ClassDef)


def norm(node) -> str:
    """Position-free structural key of a node (syntactic equality)."""
    if node is None:
        return "None"
    if isinstance(node, list):
        return "[" + ",".join(norm(x) for x in node) + "]"
    return ast.dump(node, annotate_fields=False, include_attributes=False)


def same(a, b) -> bool:
    return norm(a) == norm(b)


def src(node) -> str:
    try:
        return ast.unparse(node)
    except Exception:
        return "<%s>" % type(node).__name__


def chain(node):
    """`a.b.c` -> ['a','b','c'];  anything else -> None."""
    parts = []
    while isinstance(node, ast.Attribute):
        parts.append(node.attr)
        node = node.value
    if isinstance(node, ast.Name):
        parts.append(node.id)
        return parts[::-1]
    return None


def is_self_attr(node, name=None, recv="self"):
    return (isinstance(node, ast.Attribute) and isinstance(node.value, ast.Name)
            and node.value.id == recv and (name is None or node.attr == name))


def walk(node, into_funcs=False):
    """ast.walk that does not descend into nested function / class definitions
    (lambdas are entered: they are expressions of the enclosing function)."""
    todo = [node] if not isinstance(node, list) else list(node)
    first = True
    while todo:
        n = todo.pop()
        yield n
        for c in ast.iter_child_nodes(n):
            if not into_funcs and isinstance(c, (ast.FunctionDef, ast.AsyncFunctionDef, ast.ClassDef)):
                continue
            todo.append(c)


def walk_ordered(node):
    """Pre-order, source-order walk, not entering nested defs."""
    yield node
    for c in ast.iter_child_nodes(node):
        if isinstance(c, (ast.FunctionDef, ast.AsyncFunctionDef, ast.ClassDef)):
            continue
        yield from walk_ordered(c)


def calls(node, into_funcs=False):
    return [n for n in walk(node, into_funcs) if isinstance(n, ast.Call)]


def call_name(call):
    """Dotted name of the callee (`a.b.c(...)` -> 'a.b.c') or None."""
    c = chain(call.func)
    return ".".join(c) if c else None


def call_tail(call):
    """Last component of the callee name ('append' for x.y.append(...))."""
    f = call.func
    if isinstance(f, ast.Attribute):
        return f.attr
    if isinstance(f, ast.Name):
        return f.id
    return None


def names(node):
    return {n.id for n in walk(node) if isinstance(n, ast.Name)}


def stmts(body):
    """All statements of a body, recursively (not entering nested defs), in source order."""
    for st in body:
        yield st
        if isinstance(st, (ast.FunctionDef, ast.AsyncFunctionDef, ast.ClassDef)):
            continue
        for fld in ("body", "orelse", "finalbody"):
            sub = getattr(st, fld, None)
            if sub and isinstance(sub, list):
                yield from stmts(sub)
        for h in getattr(st, "handlers", []) or []:
            yield from stmts(h.body)
        if hasattr(ast, "Match") and isinstance(st, ast.Match):
            for c in st.cases:
                yield from stmts(c.body)


def parent(node):
    return getattr(node, "_parent", None)


def enclosing_block(stmt):
    """The list (body/orelse/...) that contains `stmt`, plus its owner node."""
    p = parent(stmt)
    if p is None:
        return None, None
    for fld in ("body", "orelse", "finalbody"):
        sub = getattr(p, fld, None)
        if isinstance(sub, list) and any(s is stmt for s in sub):
            return sub, p
    return None, p


def enclosing_stmt(node):
    n = node
    while n is not None and not isinstance(n, ast.stmt):
        n = parent(n)
    return n


def ancestors(node):
    n = parent(node)
    while n is not None:
        yield n
        n = parent(n)


def enclosing_func(node):
    for a in ancestors(node):
        if isinstance(a, (ast.FunctionDef, ast.AsyncFunctionDef)):
            return a
    return None


def guards(node, stop=None):
    """(test, polarity) facts that hold whenever `node` executes, innermost first, up to (excluding) `stop`: the enclosing
    If / While / IfExp / comprehension-if tests and the negation of every earlier sibling `if T: <always leaves>` (early
    continue / return / break / raise) of the enclosing blocks.  Leading `not`s are folded into the polarity, so that
    `if c: continue; S`, `if not c: S` and `if c: pass else: S` all give S the same facts."""
    import os
    if os.environ.get("MSA_OLD_GUARDS"):
        return raw_guards(node, stop)
    return [strip_not(t, p) for t, p in conditions(node, stop=stop)]


def raw_guards(node, stop=None):
    """List of (test_expr, polarity) of the If / While / IfExp / comprehension-if that
    enclose `node`, innermost first, up to (excluding) `stop`."""
    out = []
    child = node
    for a in ancestors(node):
        if a is stop:
            break
        if isinstance(a, ast.If) or isinstance(a, ast.While):
            if any(child is s for s in a.body):
                out.append((a.test, True))
            elif any(child is s for s in a.orelse):
                out.append((a.test, False))
        elif isinstance(a, ast.IfExp):
            if child is a.body:
                out.append((a.test, True))
            elif child is a.orelse:
                out.append((a.test, False))
        elif isinstance(a, ast.comprehension):
            pass
        elif isinstance(a, (ast.ListComp, ast.SetComp, ast.GeneratorExp, ast.DictComp)):
            if child is not a.generators[0]:
                for g in a.generators:
                    for t in g.ifs:
                        out.append((t, True))
        if isinstance(a, (ast.FunctionDef, ast.AsyncFunctionDef)):
            break
        child = a
    return out


def const(node, default=None):
    if isinstance(node, ast.Constant):
        return node.value
    if isinstance(node, ast.UnaryOp) and isinstance(node.op, ast.USub) and isinstance(node.operand, ast.Constant):
        return -node.operand.value
    return default


def literal(node):
    """ast.literal_eval that returns None on failure."""
    try:
        return ast.literal_eval(node)
    except Exception:
        return None


def assigned_names(target):
    out = []
    for n in ast.walk(target):
        if isinstance(n, ast.Name) and isinstance(n.ctx, ast.Store):
            out.append(n.id)
    return out


def assign_targets(st):
    if isinstance(st, ast.Assign):
        return st.targets
    if isinstance(st, (ast.AnnAssign, ast.AugAssign)):
        return [st.target]
    return []


def params(fn, skip_self=False):
    a = fn.args
    ps = [x.arg for x in a.posonlyargs + a.args]
    if a.vararg:
        ps.append(a.vararg.arg)
    ps += [x.arg for x in a.kwonlyargs]
    if a.kwarg:
        ps.append(a.kwarg.arg)
    if skip_self and ps and ps[0] in ("self", "cls"):
        ps = ps[1:]
    return ps


def find_calls(node, tail=None, name=None):
    out = []
    for c in calls(node):
        if tail is not None and call_tail(c) != tail:
            continue
        if name is not None and call_name(c) != name:
            continue
        out.append(c)
    return out


def first_line(node):
    return getattr(node, "lineno", 0)


# ---------------------------------------------------------------- normal forms shared by the rules (layout-independent matching)
def increment(st):
    """`x += e` / `x -= e` / `x = x + e` / `x = e + x` / `x = x - e`  ->  (target source, sign, e)   (None otherwise).
    The target may be a name, an attribute or a subscript; for the rebinding forms the left operand must be the target itself."""
    if isinstance(st, ast.AugAssign) and isinstance(st.op, (ast.Add, ast.Sub)):
        return src(st.target), (1 if isinstance(st.op, ast.Add) else -1), st.value
    if isinstance(st, ast.Assign) and len(st.targets) == 1 and isinstance(st.value, ast.BinOp) and isinstance(st.value.op, (ast.Add, ast.Sub)):
        t = src(st.targets[0])
        if src(st.value.left) == t:
            return t, (1 if isinstance(st.value.op, ast.Add) else -1), st.value.right
        if isinstance(st.value.op, ast.Add) and src(st.value.right) == t:
            return t, 1, st.value.left
    return None


_NEG = {ast.Lt: ast.GtE, ast.LtE: ast.Gt, ast.Gt: ast.LtE, ast.GtE: ast.Lt, ast.Eq: ast.NotEq, ast.NotEq: ast.Eq,
        ast.In: ast.NotIn, ast.NotIn: ast.In, ast.Is: ast.IsNot, ast.IsNot: ast.Is}
_SWAP = {ast.Gt: ast.Lt, ast.GtE: ast.LtE}
_OPS = {ast.Lt: "<", ast.LtE: "<=", ast.Eq: "==", ast.NotEq: "!=", ast.In: "in", ast.NotIn: "not in", ast.Is: "is", ast.IsNot: "is not"}


def canon_test(test, pol=True):
    """Canonical text of `test` holding with polarity `pol`: leading `not`s are folded into the polarity, a single comparison is
    negated through its operator when pol is False, `>` / `>=` are written as `<` / `<=` with swapped operands, the operands of
    `==` / `!=` are ordered.  Anything else is returned as its source, prefixed by `not ` when pol is False.
    `not (a in b)`, `a not in b`;  `b > a`, `a < b`, `not a >= b`  all give the same text."""
    while isinstance(test, ast.UnaryOp) and isinstance(test.op, ast.Not):
        test, pol = test.operand, not pol
    if isinstance(test, ast.Compare) and len(test.ops) == 1 and type(test.ops[0]) in _NEG:
        op = type(test.ops[0])
        l, r = test.left, test.comparators[0]
        if not pol:
            op = _NEG[op]
        if op in _SWAP:
            op, l, r = _SWAP[op], r, l
        ls, rs = src(l), src(r)
        if op in (ast.Eq, ast.NotEq) and rs < ls:
            ls, rs = rs, ls
        return f"{ls} {_OPS[op]} {rs}"
    return src(test) if pol else f"not {src(test)}"


def strip_not(test, pol=True):
    while isinstance(test, ast.UnaryOp) and isinstance(test.op, ast.Not):
        test, pol = test.operand, not pol
    return test, pol


def _leaves(body):
    """every path through `body` ends in continue / break / return / raise (conservative, structured code only)"""
    if not body:
        return False
    last = body[-1]
    if isinstance(last, (ast.Continue, ast.Break, ast.Return, ast.Raise)):
        return True
    if isinstance(last, ast.If) and last.orelse:
        return _leaves(last.body) and _leaves(last.orelse)
    return False


def conditions(node, stop=None, toplevel=False):
    """(test, polarity) facts that hold whenever `node` executes: the enclosing if / while / conditional-expression guards and the
    negation of every earlier sibling `if T: <always leaves>` of the enclosing blocks, innermost first, up to `stop` (excluded) or the
    enclosing function.  `if c: continue; S` and `if not c: S` give the same facts for S.  Early returns in the top-level block of
    the function (special cases answered up front: empty input, single target ...) are only included with toplevel=True."""
    out = list(raw_guards(node, stop=stop))
    cur = node if isinstance(node, ast.stmt) else enclosing_stmt(node)
    while cur is not None and cur is not stop and not isinstance(cur, (ast.FunctionDef, ast.AsyncFunctionDef, ast.Module, ast.ClassDef)):
        blk, owner = enclosing_block(cur)
        if blk and (toplevel or not isinstance(owner, (ast.FunctionDef, ast.AsyncFunctionDef))):
            for s in blk:
                if s is cur:
                    break
                if isinstance(s, ast.If):
                    bl, el = _leaves(s.body), _leaves(s.orelse)
                    if bl and not el:
                        out.append((s.test, False))
                    elif el and not bl:
                        out.append((s.test, True))
        if isinstance(owner, ast.ExceptHandler):
            owner = parent(owner)
        cur = owner if isinstance(owner, ast.stmt) else None
    return out


def canon_conditions(node, stop=None):
    return [canon_test(t, p) for t, p in conditions(node, stop=stop)]
