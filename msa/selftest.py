"""Checker self-test (thorough tier): placeholder until mutation tables exist."""
def run(prop):
    return 0
