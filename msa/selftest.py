"""Checker self-test (thorough tier).

For every property a table of *designated variants* of the current source is derived in memory
(`Repo(overlay=...)`, nothing is written to /repo and nothing is executed):

  * breaking variants: a small edit that violates the property (among them the reverse of every
    `fix:` commit) - the named rule must report a finding;
  * benign variants: behaviour-preserving edits - the check must stay silent.

A variant whose `old` text no longer occurs in the file (the tree was edited) is reported as skipped.
A self-test failure is an ANALYSIS-ERROR (exit 2): the checker, not the repository, is broken.
"""
from __future__ import annotations
import importlib, os, sys
from .core import Repo, AnalysisError, load_known, known_key, PKG


def variants_for(prop):
    try:
        mod = importlib.import_module(f"msa.variants.{prop.lower()}")
    except ModuleNotFoundError:
        return [], []
    return getattr(mod, "BREAKING", []), getattr(mod, "BENIGN", [])


def apply(repo_root, file, old, new, count=1):
    path = os.path.join(repo_root, file)
    with open(path, encoding="utf-8") as fh:
        src = fh.read()
    if old not in src:
        return None
    return src.replace(old, new, count)


_BASE = None
LAST = {}


def _base():
    global _BASE
    if _BASE is None:
        _BASE = Repo()
    return _BASE


def run_variant(prop, file, old, new):
    from .cli import run_property
    base = _base()
    src = apply(base.root, file, old, new)
    if src is None:
        return None
    try:
        repo = Repo(overlay={file: src}, base=base)
    except AnalysisError:
        return "parse-error"
    try:
        rc, ctx, new_f, old_f = run_property(prop, "quick", repo=repo, quiet=True, write=False)
    except AnalysisError as e:
        return ("analysis-error", str(e))
    # an undecided obligation is neither a detection (breaking variants) nor silence (benign variants)
    return new_f + [_F("UNDECIDED:" + f.rule, f.construct) for f in ctx.undecided_list]


class _F:
    def __init__(self, rule, construct):
        self.rule, self.construct = rule, construct


def _work(job):
    prop, file, old, new = job
    r = run_variant(prop, file, old, new)
    if isinstance(r, list):   # findings are not picklable with their AST-free payload? keep only what the report needs
        return [_F(f.rule, f.construct) for f in r]
    return r


class _F:
    def __init__(self, rule, construct):
        self.rule, self.construct = rule, construct


def _parallel(prop, jobs):
    import multiprocessing as mp
    if len(jobs) < 4:
        return [_work((prop,) + j) for j in jobs]
    n = min(int(os.environ.get("MSA_JOBS", "12")), len(jobs))
    with mp.Pool(n) as pool:
        return pool.map(_work, [(prop,) + j for j in jobs], chunksize=2)


def run(prop, verbose=True):
    breaking, benign = variants_for(prop)
    if not breaking and not benign:
        print(f"  self-test: no designated variants for {prop}")
        return 0
    bad = 0
    n_b = n_s = n_ok = 0
    results = _parallel(prop, [(v[1], v[2], v[3]) for v in breaking] + [(v[0], v[1], v[2]) for v in benign])
    res_iter = iter(results)
    for v in breaking:
        rule, file, old, new = v[:4]
        res = next(res_iter)
        label = v[4] if len(v) > 4 else old.strip().splitlines()[0][:60]
        if res is None:
            n_s += 1
            if verbose:
                print(f"  self-test SKIP  (text not present) {rule}: {label}")
            continue
        n_b += 1
        if isinstance(res, tuple) or res == "parse-error":
            bad += 1
            print(f"  self-test FAIL  breaking variant made the analyser give up ({res}) {rule}: {label}")
            continue
        hit = [f for f in res if f.rule == rule or rule == "*"]
        if hit:
            n_ok += 1
            if verbose:
                print(f"  self-test ok    fires {rule}: {label}")
        else:
            bad += 1
            print(f"  self-test FAIL  rule {rule} silent on breaking variant: {label} (other findings: {[f.rule for f in res]})")
    for v in benign:
        file, old, new = v[:3]
        label = v[3] if len(v) > 3 else old.strip().splitlines()[0][:60]
        res = next(res_iter)
        if res is None:
            n_s += 1
            if verbose:
                print(f"  self-test SKIP  (text not present) benign: {label}")
            continue
        n_b += 1
        if isinstance(res, tuple) or res == "parse-error" or res:
            bad += 1
            what = res if isinstance(res, (tuple, str)) else [(f.rule, f.construct[:80]) for f in res]
            print(f"  self-test FAIL  alarm on benign variant: {label}: {what}")
        else:
            n_ok += 1
            if verbose:
                print(f"  self-test ok    silent on benign: {label}")
    # whole-package benign variant: every module re-emitted by ast.unparse (layout, comments, quotes, line numbers change)
    import ast, warnings
    from .cli import run_property
    base = Repo()
    overlay = {}
    with warnings.catch_warnings():
        warnings.simplefilter("ignore")
        for m in base.modules.values():
            overlay[m.relpath] = ast.unparse(ast.parse(m.source)) + "\n"
    try:
        rc0, c0, new0, old0 = run_property(prop, "quick", repo=base, quiet=True, write=False)
        rc1, c1, new1, old1 = run_property(prop, "quick", repo=Repo(overlay=overlay), quiet=True, write=False)
        same = sorted(f.key() for f in new0 + old0) == sorted(f.key() for f in new1 + old1) and c0.obligations == c1.obligations
    except Exception as e:  # noqa
        same = False
        print(f"  self-test FAIL  analyser raised on the re-formatted package: {type(e).__name__}: {e}")
    n_b += 1
    if same:
        n_ok += 1
        if verbose:
            print(f"  self-test ok    re-formatted package: same {c1.obligations} obligations, same findings")
    else:
        bad += 1
        print("  self-test FAIL  verdict depends on source layout (re-formatted package gives other obligations / findings)")
    # whole-package respellings (msa/transforms.py): same findings, nothing undecided
    from .transforms import TRANSFORMS, build_overlay
    k0 = sorted(f.key() for f in new0 + old0) if same or 'new0' in dir() else None
    for tname, T in TRANSFORMS.items():
        n_b += 1
        try:
            rc2, c2, new2, old2 = run_property(prop, "quick", repo=Repo(overlay=build_overlay(base, T)), quiet=True, write=False)
            good = k0 is not None and sorted(f.key() for f in new2 + old2) == k0 and not c2.undecided_list
            why = "" if good else f"findings {[f.key()[1:] for f in new2][:3]} undecided {[f.rule for f in c2.undecided_list][:5]}"
        except Exception as e:  # noqa
            good, why = False, f"{type(e).__name__}: {e}"
        if good:
            n_ok += 1
            if verbose:
                print(f"  self-test ok    respelling `{tname}`: same findings")
        else:
            bad += 1
            print(f"  self-test FAIL  verdict changes under the behaviour-preserving respelling `{tname}`: {why[:300]}")
    print(f"  self-test {prop}: {n_ok}/{n_b} variants behaved as required, {n_s} skipped")
    global LAST
    LAST = {"variants_run": n_b, "variants_as_required": n_ok, "variants_skipped": n_s,
            "breaking_variants": len(breaking), "benign_variants": len(benign) + 1, "whole_package_respellings": len(TRANSFORMS)}
    return 1 if bad else 0


if __name__ == "__main__":
    rc = 0
    for p in sys.argv[1:]:
        rc |= run(p.upper())
    sys.exit(rc)
