"""Checker self-test (thorough tier).

For every property a table of *designated variants* of the current source is derived in memory
(`Repo(overlay=...)`, nothing is written to /repo and nothing is executed):

  * breaking variants: a small edit that violates the property (among them the reverse of every
    `fix:` commit) - the named rule must report a finding;
  * benign variants: behaviour-preserving edits - the check must stay silent.

A variant whose `old` text no longer occurs in the file (the tree was edited) is reported as skipped.
A self-test failure is an ANALYSIS-ERROR (exit 2): the checker, not the repository, is broken.
"""
from __future__ import annotations
import importlib, os, sys
from .core import Repo, AnalysisError, load_known, known_key, PKG


def variants_for(prop):
    try:
        mod = importlib.import_module(f"msa.variants.{prop.lower()}")
    except ModuleNotFoundError:
        return [], []
    return getattr(mod, "BREAKING", []), getattr(mod, "BENIGN", [])


def apply(repo_root, file, old, new, count=1):
    path = os.path.join(repo_root, file)
    with open(path, encoding="utf-8") as fh:
        src = fh.read()
    if old not in src:
        return None
    return src.replace(old, new, count)


def run_variant(prop, file, old, new):
    from .cli import run_property
    base = Repo()
    src = apply(base.root, file, old, new)
    if src is None:
        return None
    try:
        repo = Repo(overlay={file: src})
    except AnalysisError:
        return "parse-error"
    try:
        rc, ctx, new_f, old_f = run_property(prop, "quick", repo=repo, quiet=True, write=False)
    except AnalysisError as e:
        return ("analysis-error", str(e))
    return new_f


def run(prop, verbose=True):
    breaking, benign = variants_for(prop)
    if not breaking and not benign:
        print(f"  self-test: no designated variants for {prop}")
        return 0
    bad = 0
    n_b = n_s = n_ok = 0
    for v in breaking:
        rule, file, old, new = v[:4]
        res = run_variant(prop, file, old, new)
        label = v[4] if len(v) > 4 else old.strip().splitlines()[0][:60]
        if res is None:
            n_s += 1
            if verbose:
                print(f"  self-test SKIP  (text not present) {rule}: {label}")
            continue
        n_b += 1
        if isinstance(res, tuple) or res == "parse-error":
            bad += 1
            print(f"  self-test FAIL  breaking variant made the analyser give up ({res}) {rule}: {label}")
            continue
        hit = [f for f in res if f.rule == rule or rule == "*"]
        if hit:
            n_ok += 1
            if verbose:
                print(f"  self-test ok    fires {rule}: {label}")
        else:
            bad += 1
            print(f"  self-test FAIL  rule {rule} silent on breaking variant: {label} (other findings: {[f.rule for f in res]})")
    for v in benign:
        file, old, new = v[:3]
        label = v[3] if len(v) > 3 else old.strip().splitlines()[0][:60]
        res = run_variant(prop, file, old, new)
        if res is None:
            n_s += 1
            if verbose:
                print(f"  self-test SKIP  (text not present) benign: {label}")
            continue
        n_b += 1
        if isinstance(res, tuple) or res == "parse-error" or res:
            bad += 1
            what = res if isinstance(res, (tuple, str)) else [(f.rule, f.construct[:80]) for f in res]
            print(f"  self-test FAIL  alarm on benign variant: {label}: {what}")
        else:
            n_ok += 1
            if verbose:
                print(f"  self-test ok    silent on benign: {label}")
    print(f"  self-test {prop}: {n_ok}/{n_b} variants behaved as required, {n_s} skipped")
    return 1 if bad else 0


if __name__ == "__main__":
    rc = 0
    for p in sys.argv[1:]:
        rc |= run(p.upper())
    sys.exit(rc)
