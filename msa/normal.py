"""Source normal form applied by the loader to every module before any rule looks at it.

The rules match shapes of the syntax tree.  Several spellings of one program would otherwise have to be recognised by every rule
separately; instead the loader rewrites each module into a normal form with semantics-preserving steps only, so that all rules see
one spelling (node positions are kept for the reports):

  N1  `not (a == b)` -> `a != b`, `not (a in b)` -> `a not in b`, `not (a is b)` -> `a is not b` (and the converses).  Ordering
      comparisons are NOT folded (`not a < b` differs from `a >= b` on NaN).
  N2  `if not c: A else: B` -> `if c: B else: A` and `A if not c else B` -> `B if c else A`  (plain else, no elif chain)
  N3  a single comparison with a literal on the left and a non-literal on the right is mirrored: `3 == n` -> `n == 3`, `0 < x` -> `x > 0`
  N4  `if c: <body that always leaves> else: R`  ->  `if c: <body>` followed by R   (early exit instead of an else branch),
      where "always leaves" = ends in return / raise / continue / break on every path

Nothing else is changed: no constant folding, no reordering of statements, no renaming."""
from __future__ import annotations
import ast

_NEG = {ast.Eq: ast.NotEq, ast.NotEq: ast.Eq, ast.In: ast.NotIn, ast.NotIn: ast.In, ast.Is: ast.IsNot, ast.IsNot: ast.Is}
_MIRROR = {ast.Lt: ast.Gt, ast.LtE: ast.GtE, ast.Gt: ast.Lt, ast.GtE: ast.LtE, ast.Eq: ast.Eq, ast.NotEq: ast.NotEq}


def _is_literal(e):
    if isinstance(e, ast.Constant):
        return True
    if isinstance(e, ast.UnaryOp) and isinstance(e.op, (ast.USub, ast.UAdd)) and isinstance(e.operand, ast.Constant):
        return True
    return False


def _leaves(body):
    if not body:
        return False
    last = body[-1]
    if isinstance(last, (ast.Return, ast.Raise, ast.Continue, ast.Break)):
        return True
    if isinstance(last, ast.If) and last.orelse:
        return _leaves(last.body) and _leaves(last.orelse)
    return False


class Normalise(ast.NodeTransformer):
    def __init__(self):
        self.count = {"N1": 0, "N2": 0, "N3": 0, "N4": 0}

    # ---- expressions
    def visit_UnaryOp(self, n):
        self.generic_visit(n)
        if isinstance(n.op, ast.Not) and isinstance(n.operand, ast.Compare) and len(n.operand.ops) == 1 and type(n.operand.ops[0]) in _NEG:
            c = n.operand
            self.count["N1"] += 1
            return ast.copy_location(ast.Compare(left=c.left, ops=[_NEG[type(c.ops[0])]()], comparators=c.comparators), n)
        return n

    def visit_Compare(self, n):
        self.generic_visit(n)
        if len(n.ops) == 1 and type(n.ops[0]) in _MIRROR and _is_literal(n.left) and not _is_literal(n.comparators[0]):
            self.count["N3"] += 1
            return ast.copy_location(ast.Compare(left=n.comparators[0], ops=[_MIRROR[type(n.ops[0])]()], comparators=[n.left]), n)
        return n

    def visit_IfExp(self, n):
        self.generic_visit(n)
        if isinstance(n.test, ast.UnaryOp) and isinstance(n.test.op, ast.Not):
            self.count["N2"] += 1
            return ast.copy_location(ast.IfExp(test=n.test.operand, body=n.orelse, orelse=n.body), n)
        return n

    # ---- statements
    def visit_If(self, n):
        self.generic_visit(n)
        if n.orelse and not (len(n.orelse) == 1 and isinstance(n.orelse[0], ast.If)) \
                and isinstance(n.test, ast.UnaryOp) and isinstance(n.test.op, ast.Not):
            self.count["N2"] += 1
            n.test, n.body, n.orelse = n.test.operand, n.orelse, n.body
        return n

    def _flatten(self, body):
        """N4 on one statement list (children already normalised)"""
        out = []
        for st in body:
            out.append(st)
            if isinstance(st, ast.If) and st.orelse and _leaves(st.body):
                rest = st.orelse
                st.orelse = []
                self.count["N4"] += 1
                out.extend(self._flatten(rest))
        return out

    def generic_visit(self, node):
        super().generic_visit(node)
        for fld in ("body", "orelse", "finalbody"):
            b = getattr(node, fld, None)
            if isinstance(b, list) and b and isinstance(b[0], ast.stmt):
                setattr(node, fld, self._flatten(b))
        return node


def normalise(tree):
    t = Normalise()
    tree = t.visit(tree)
    ast.fix_missing_locations(tree)
    return tree, t.count
