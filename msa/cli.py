"""Driver: ./check <Cxx> [--tier quick|thorough] [--replay path]"""
from __future__ import annotations
import argparse, importlib, json, os, sys, time, traceback
from .core import Repo, Ctx, AnalysisError, load_known, known_key, VERIF, REPO

LEVEL = "other"


def run_property(prop, tier, replay=None, repo=None, quiet=False, write=True):
    t0 = time.time()
    repo = repo or Repo()
    mod = importlib.import_module(f"msa.props.{prop.lower()}")
    ctx = Ctx(prop, tier, repo)
    mod.run(ctx)
    known = load_known()
    kn = {known_key(k): k for k in known.get("findings", [])}
    new, old = [], []
    for f in ctx.findings:
        (old if f.key() in kn else new).append(f)
    out = []
    out.append(f"[{prop}] tier={tier} repo={repo.root} modules_parsed={len(repo.modules)} "
               f"functions_analysed={len(ctx.functions)} obligations={ctx.obligations} "
               f"discharged={ctx.discharged}")
    for r in sorted(ctx.instances):
        out.append(f"  rule {r}: {ctx.instances[r]} obligation(s)")
    for u in ctx.unsupported:
        out.append(f"  UNSUPPORTED (declared, not decided): {u}")
    for f in old:
        out.append(f"KNOWN-FINDING: property={prop} rule={f.rule} {f.site} :: {f.construct} -- {f.what}")
    for f in ctx.undecided_list:
        out.append(f"  UNDECIDED rule={f.rule} at {f.site}: {f.construct} -- {f.what}")
    replay_dir = os.path.join(VERIF, "evidence", "replay")
    vio_lines = []
    if write and not replay and os.path.isdir(replay_dir):
        for fn_ in os.listdir(replay_dir):
            if fn_.startswith(prop + "-"):
                os.unlink(os.path.join(replay_dir, fn_))
    if new:
        os.makedirs(replay_dir, exist_ok=True)
    for i, f in enumerate(new):
        path = os.path.join(replay_dir, f"{prop}-{i}.json")
        if write:
            with open(path, "w") as fh:
                json.dump({"property": prop, "rule": f.rule, "module": f.site.module,
                           "qualname": f.site.qualname, "line": f.site.line,
                           "file": f.site.module.replace(".", "/") + ".py",
                           "construct": f.construct, "what": f.what, "detail": f.detail,
                           "rule_text": getattr(mod, "RULES", {}).get(f.rule, "")}, fh, indent=1)
        out.append(f"  finding rule={f.rule} at {f.site}: {f.construct} -- {f.what}")
        vio_lines.append(f"VIOLATION property={prop} replay={path}")
    if replay:
        with open(replay) as fh:
            r = json.load(fh)
        key = (r["property"], r["rule"], r["module"], r["qualname"], r["construct"])
        hit = [f for f in ctx.findings if f.key() == key]
        out.append(f"replay {replay}: {'still present' if hit else 'no longer present'}")
        vio_lines = [f"VIOLATION property={prop} replay={replay}"] if hit and key not in kn else []
        new = hit if key not in kn else []
    wall = time.time() - t0
    if write:
        ev = {
            "property_id": prop, "tier": tier, "seed": int(os.environ.get("VERIF_SEED", "0") or 0),
            "level": LEVEL,
            "coverage": {
                "explanation": getattr(mod, "EXPLANATION", "") or
                    "static rule conformance over the source of /repo (ast); see DESIGN.md",
                "obligations": ctx.obligations,
                "discharged": ctx.discharged,
                "evaluations": ctx.obligations,
                "distinct_nontrivial": len(ctx.instances),
                "rule": "one evaluation = one rule obligation at one site; distinct_nontrivial = number of distinct rule "
                        "instances with at least one site (a rule with zero sites is an analysis error, not a pass)",
                "samples": ctx.samples[:12] or [{"note": "no obligations"}],
                "rule_instances": ctx.instances,
                "modules_analysed": sorted(ctx.modules),
                "functions_analysed": len(ctx.functions),
                "modules_parsed": len(repo.modules),
                "source_digest": repo.digest(sorted(ctx.modules)) if ctx.modules else "",
                "known_findings_rederived": [f"{f.rule} {f.site.module}::{f.site.qualname} :: {f.construct}" for f in old],
                "new_findings": [f"{f.rule} {f.site.module}::{f.site.qualname} :: {f.construct}" for f in new],
                "unsupported_declared": ctx.unsupported,
                "undecided": [f"{f.rule} {f.site.module}::{f.site.qualname} :: {f.construct}" for f in ctx.undecided_list],
                "exhaustive": True,
                "checker_cmd": f"./check {prop} --tier {tier}",
                "trusted_base": ["CPython ast module", "numpy/CPython semantics encoded in the rules (DESIGN section 1)"],
            },
            "assumptions": getattr(mod, "ASSUMPTIONS", []) + [
                "decides structural necessary conditions only; the behavioural remainder is listed under 'Not decided' in DESIGN.md"],
            "wall_s": round(wall, 3),
            "violations": len(new),
        }
        os.makedirs(os.path.join(VERIF, "evidence"), exist_ok=True)
        with open(os.path.join(VERIF, "evidence", f"{prop}.json"), "w") as fh:
            json.dump(ev, fh, indent=1)
    if not quiet:
        print("\n".join(out))
        for l in vio_lines:
            print(l)
    rc = 1 if vio_lines else 0
    if not vio_lines and ctx.undecided_list and not replay:
        if not quiet:
            print(f"ANALYSIS-ERROR property={prop} {len(ctx.undecided_list)} obligation(s) undecided: the code no longer has a shape the "
                  f"rules recognise (neither a pass nor a violation)")
        rc = 2
    return rc, ctx, new, old


def main(argv=None):
    ap = argparse.ArgumentParser()
    ap.add_argument("prop")
    ap.add_argument("--tier", default=os.environ.get("VERIF_TIER", "quick"), choices=["quick", "thorough"])
    ap.add_argument("--replay")
    a = ap.parse_args(argv)
    try:
        rc, ctx, new, old = run_property(a.prop.upper(), a.tier, a.replay, write=not os.environ.get("MSA_NO_EVIDENCE"))
        if a.tier == "thorough" and not a.replay:
            from . import selftest
            rc2 = selftest.run(a.prop.upper())
            evp = os.path.join(VERIF, "evidence", f"{a.prop.upper()}.json")
            if os.path.exists(evp) and not os.environ.get("MSA_NO_EVIDENCE"):
                with open(evp) as fh:
                    ev = json.load(fh)
                ev["coverage"]["checker_selftest"] = dict(selftest.LAST, note="designated breaking variants (rule must fire) and benign "
                                                          "variants (check must stay silent), applied in memory to the current source; "
                                                          "includes the reverse of every fix: commit and the re-formatted package")
                with open(evp, "w") as fh:
                    json.dump(ev, fh, indent=1)
            if rc2 != 0:
                print(f"ANALYSIS-ERROR property={a.prop.upper()} self-test of the checker failed")
                return 2
        return rc
    except AnalysisError as e:
        print(f"ANALYSIS-ERROR property={a.prop.upper()} {e}")
        return 2
    except Exception:
        traceback.print_exc()
        print(f"ANALYSIS-ERROR property={a.prop.upper()} analyser raised")
        return 2


if __name__ == "__main__":
    sys.exit(main())
