"""Tiny symbolic helpers: local single-assignment bindings, substitution, affine index forms."""
from __future__ import annotations
import ast, copy
from fractions import Fraction
from . import au


def clone(node):
    """Structural copy of an AST (fields + positions only): the `_parent` links the loader adds are not
    followed, so copying an expression does not drag the whole module along."""
    if isinstance(node, list):
        return [clone(x) for x in node]
    if not isinstance(node, ast.AST):
        return node
    new = type(node)()
    for f in node._fields:
        if hasattr(node, f):
            setattr(new, f, clone(getattr(node, f)))
    for a in ("lineno", "col_offset", "end_lineno", "end_col_offset"):
        if hasattr(node, a):
            setattr(new, a, getattr(node, a))
    return new


class Subst(ast.NodeTransformer):
    def __init__(self, mapping):
        self.mapping = mapping

    def visit_Name(self, node):
        if isinstance(node.ctx, ast.Load) and node.id in self.mapping:
            return clone(self.mapping[node.id])
        return node


def subst(expr, mapping):
    return Subst(mapping).visit(clone(expr))


def split_assign(st):
    """Yield (Name target id, value expr) pairs of an assignment, splitting tuple forms and
    `a, b, c = (f(p) for p in (x, y, z))` generator unpackings."""
    if not isinstance(st, ast.Assign) or len(st.targets) != 1:
        if isinstance(st, ast.AnnAssign) and isinstance(st.target, ast.Name) and st.value is not None:
            yield st.target.id, st.value
        return
    t, v = st.targets[0], st.value
    if isinstance(t, ast.Name):
        yield t.id, v
        return
    if isinstance(t, (ast.Tuple, ast.List)) and all(isinstance(x, ast.Name) for x in t.elts):
        if isinstance(v, (ast.Tuple, ast.List)) and len(v.elts) == len(t.elts):
            for a, b in zip(t.elts, v.elts):
                yield a.id, b
        elif isinstance(v, (ast.GeneratorExp, ast.ListComp)) and len(v.generators) == 1 \
                and not v.generators[0].ifs and isinstance(v.generators[0].target, ast.Name) \
                and isinstance(v.generators[0].iter, (ast.Tuple, ast.List)) \
                and len(v.generators[0].iter.elts) == len(t.elts):
            var = v.generators[0].target.id
            for a, src_e in zip(t.elts, v.generators[0].iter.elts):
                yield a.id, subst(v.elt, {var: src_e})


class Bindings:
    """name -> defining expression for names assigned exactly once in `fn` (not entering
    nested defs); loop targets are recorded as ('loopvar', loop)."""

    def __init__(self, fn):
        self.defs = {}
        self.count = {}
        self.loops = {}
        for st in au.stmts(fn.body):
            for name, v in split_assign(st):
                self.count[name] = self.count.get(name, 0) + 1
                self.defs[name] = v
            if isinstance(st, ast.Assign) and not list(split_assign(st)):
                for t in st.targets:
                    for n in au.assigned_names(t):
                        self.count[n] = self.count.get(n, 0) + 2
            if isinstance(st, ast.AugAssign):
                for n in au.assigned_names(st.target):
                    self.count[n] = self.count.get(n, 0) + 2
            if isinstance(st, (ast.For, ast.AsyncFor)):
                for n in au.assigned_names(st.target):
                    self.count[n] = self.count.get(n, 0) + 1
                    self.loops[n] = st
        for p in au.params(fn):
            self.count[p] = self.count.get(p, 0) + 1

    def single(self, name):
        return self.count.get(name, 0) == 1 and name in self.defs

    # -- flow-aware lookup: the definition of `name` that reaches statement `at`
    AMBIG = object()

    @staticmethod
    def _assigns(st, name, deep=True):
        """does statement st (incl. nested statements if deep) bind `name`?"""
        todo = [st]
        while todo:
            s = todo.pop()
            for t in au.assign_targets(s):
                if name in au.assigned_names(t):
                    return True
            if isinstance(s, (ast.For, ast.AsyncFor)) and name in au.assigned_names(s.target):
                return True
            if isinstance(s, (ast.With, ast.AsyncWith)):
                for it in s.items:
                    if it.optional_vars is not None and name in au.assigned_names(it.optional_vars):
                        return True
            for n in au.walk(s):
                if isinstance(n, ast.NamedExpr) and n.target.id == name:
                    return True
            if deep:
                for fld in ("body", "orelse", "finalbody"):
                    sub = getattr(s, fld, None)
                    if isinstance(sub, list):
                        todo.extend(x for x in sub if not isinstance(x, (ast.FunctionDef, ast.ClassDef)))
                for h in getattr(s, "handlers", []) or []:
                    todo.extend(h.body)
        return False

    def reaching(self, name, at):
        """Defining expression of `name` reaching node `at`, or None (parameter / loop variable /
        ambiguous / unknown)."""
        cur = au.enclosing_stmt(at)
        while cur is not None and not isinstance(cur, (ast.FunctionDef, ast.AsyncFunctionDef, ast.Module)):
            blk, owner = au.enclosing_block(cur)
            if blk is None:
                if isinstance(owner, ast.ExceptHandler):
                    blk = owner.body
                    idx = [id(x) for x in blk].index(id(cur)) if any(x is cur for x in blk) else 0
                else:
                    return None
            idx = [id(x) for x in blk].index(id(cur))
            for s in reversed(blk[:idx]):
                direct = [v for n, v in split_assign(s) if n == name]
                if direct:
                    self._last_def_stmt = s
                    return direct[-1]
                if self._assigns(s, name):
                    return None
            if isinstance(owner, (ast.For, ast.AsyncFor, ast.While)):
                if isinstance(owner, (ast.For, ast.AsyncFor)) and name in au.assigned_names(owner.target):
                    return None
                if any(self._assigns(s, name) for s in owner.body):
                    return None
            if isinstance(owner, ast.ExceptHandler):
                owner = au.parent(owner)
            cur = owner
        return None

    def resolve(self, expr, depth=8, keep=(), at=None):
        """Substitute local names by their definitions, repeatedly.  With `at` the definition
        reaching that program point is used; without it only names assigned exactly once."""
        if at is None:
            for _ in range(depth):
                ns = {n for n in au.names(expr) if self.single(n) and n not in keep}
                if not ns:
                    break
                expr = subst(expr, {n: self.defs[n] for n in ns})
            return expr
        return self._resolve_at(expr, at, depth, keep)

    def _resolve_at(self, expr, at, depth, keep):
        if depth <= 0:
            return expr
        mapping = {}
        for n in au.names(expr):
            if n in keep:
                continue
            d = self.reaching(n, at)
            if d is not None and n not in au.names(d):
                mapping[n] = self._resolve_at(d, self._last_def_stmt, depth - 1, keep)
        return subst(expr, mapping) if mapping else expr


# ------------------------------------------------------------------ polynomials
class Poly:
    """Polynomial with Fraction coefficients over named atoms: {monomial(tuple of sorted atom names): coeff}."""

    def __init__(self, terms=None):
        self.t = {k: Fraction(v) for k, v in (terms or {}).items() if v != 0}

    @staticmethod
    def const(c):
        return Poly({(): Fraction(c)})

    @staticmethod
    def atom(name):
        return Poly({(name,): 1})

    def __add__(self, o):
        o = _p(o)
        t = dict(self.t)
        for k, v in o.t.items():
            t[k] = t.get(k, 0) + v
        return Poly(t)

    __radd__ = __add__

    def __neg__(self):
        return Poly({k: -v for k, v in self.t.items()})

    def __sub__(self, o):
        return self + (-_p(o))

    def __rsub__(self, o):
        return _p(o) - self

    def __mul__(self, o):
        o = _p(o)
        t = {}
        for k1, v1 in self.t.items():
            for k2, v2 in o.t.items():
                k = tuple(sorted(k1 + k2))
                t[k] = t.get(k, 0) + v1 * v2
        return Poly(t)

    __rmul__ = __mul__

    def scale(self, c):
        return Poly({k: v * Fraction(c) for k, v in self.t.items()})

    def is_const(self):
        return all(k == () for k in self.t)

    def const_value(self):
        return self.t.get((), Fraction(0))

    def is_zero(self):
        return not self.t

    def __eq__(self, o):
        return self.t == _p(o).t

    def __hash__(self):
        return hash(tuple(sorted(self.t.items())))

    def coeff(self, atom):
        """Polynomial coefficient of `atom` (degree exactly 1 in atom)."""
        t = {}
        for k, v in self.t.items():
            if k.count(atom) == 1:
                kk = list(k)
                kk.remove(atom)
                t[tuple(kk)] = v
        return Poly(t)

    def without(self, atom):
        return Poly({k: v for k, v in self.t.items() if atom not in k})

    def atoms(self):
        return {a for k in self.t for a in k}

    def degree_in(self, atom):
        return max([k.count(atom) for k in self.t] or [0])

    def eval(self, env):
        tot = Fraction(0)
        for k, v in self.t.items():
            x = v
            for a in k:
                x *= Fraction(env[a])
            tot += x
        return tot

    def __repr__(self):
        if not self.t:
            return "0"
        parts = []
        for k, v in sorted(self.t.items(), key=lambda kv: (len(kv[0]), kv[0])):
            m = "*".join(k)
            if not k:
                parts.append(str(v))
            elif v == 1:
                parts.append(m)
            elif v == -1:
                parts.append("-" + m)
            else:
                parts.append(f"{v}*{m}")
        return " + ".join(parts).replace("+ -", "- ")


def _p(x):
    return x if isinstance(x, Poly) else Poly.const(x)


class NotPoly(Exception):
    pass


def to_poly(expr, atom_of=None, opaque=True):
    """AST -> Poly.  Names are atoms; +,-,* and integer ** are interpreted; anything else is an
    opaque atom named by its source text (if opaque=True) else NotPoly."""
    atom_of = atom_of or (lambda n: None)
    def rec(e):
        a = atom_of(e)
        if a is not None:
            return a if isinstance(a, Poly) else Poly.atom(a)
        if isinstance(e, ast.Constant) and isinstance(e.value, (int, float)) and not isinstance(e.value, bool):
            return Poly.const(Fraction(e.value).limit_denominator(10**9))
        if isinstance(e, ast.Name):
            return Poly.atom(e.id)
        if isinstance(e, ast.UnaryOp) and isinstance(e.op, ast.USub):
            return -rec(e.operand)
        if isinstance(e, ast.UnaryOp) and isinstance(e.op, ast.UAdd):
            return rec(e.operand)
        if isinstance(e, ast.BinOp):
            if isinstance(e.op, ast.Add):
                return rec(e.left) + rec(e.right)
            if isinstance(e.op, ast.Sub):
                return rec(e.left) - rec(e.right)
            if isinstance(e.op, ast.Mult):
                return rec(e.left) * rec(e.right)
            if isinstance(e.op, ast.Div):
                r = rec(e.right)
                if r.is_const() and r.const_value() != 0:
                    return rec(e.left).scale(1 / r.const_value())
            if isinstance(e.op, ast.Pow) and isinstance(e.right, ast.Constant) and isinstance(e.right.value, int) and 0 <= e.right.value <= 4:
                out = Poly.const(1)
                for _ in range(e.right.value):
                    out = out * rec(e.left)
                return out
        if opaque:
            return Poly.atom("⟨" + au.src(e) + "⟩")
        raise NotPoly(au.src(e))
    return rec(expr)


def mod_offset(expr, var, mod=None):
    """If expr is `var`, `(var + k) % n` or `(var - k) % n` return the integer k, else None."""
    if isinstance(expr, ast.Name) and expr.id == var:
        return 0
    if isinstance(expr, ast.BinOp) and isinstance(expr.op, ast.Mod):
        if mod is not None and not (isinstance(expr.right, ast.Name) and expr.right.id == mod) \
                and au.src(expr.right) != mod:
            return None
        try:
            p = to_poly(expr.left, opaque=False)
        except NotPoly:
            return None
        if p.coeff(var) == Poly.const(1) and p.without(var).is_const():
            c = p.without(var).const_value()
            if c.denominator == 1:
                return int(c)
    return None
