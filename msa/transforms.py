"""Mechanical, behaviour-preserving whole-package respellings used to validate the checker (thorough tier and tools/transform_check.py).

  rename    every local variable of every function (not parameters, not globals/nonlocals) is renamed  v -> v_r
  augassign `x += e`  ->  `x = x + e`   for plain integer counters
  compare   `a < b` -> `b > a`, `a <= b` -> `b >= a` (single comparisons of simple operands)
  notin     `not (a in b)` <-> `a not in b`;  `not a == b` -> `a != b`
  ifcont    a loop body [..., `if c: continue`, rest...] -> [..., `if not c: rest`]
  eqswap    `a == b` -> `b == a`
  ifswap    `if c: A else: B` -> `if not c: B else: A`
  lambda    lambda parameters renamed
  augback   `x = x + 1` -> `x += 1`
  earlyelse `if c: return X` + rest -> `if c: return X else: rest`

Every check must report exactly the same findings on each respelled package as on /repo."""
import ast, warnings

# ------------------------------------------------------------------ rename
def _scopes(fn):
    """all names that are parameters of fn or of anything nested in it, plus global/nonlocal names"""
    banned = set()
    for n in ast.walk(fn):
        if isinstance(n, (ast.FunctionDef, ast.AsyncFunctionDef, ast.Lambda)):
            a = n.args
            for x in a.posonlyargs + a.args + a.kwonlyargs:
                banned.add(x.arg)
            if a.vararg:
                banned.add(a.vararg.arg)
            if a.kwarg:
                banned.add(a.kwarg.arg)
            if not isinstance(n, ast.Lambda):
                banned.add(n.name)
        elif isinstance(n, (ast.Global, ast.Nonlocal)):
            banned.update(n.names)
        elif isinstance(n, ast.ClassDef):
            banned.add(n.name)
            for m in ast.walk(n):
                if isinstance(m, ast.Name):
                    banned.add(m.id)
        elif isinstance(n, (ast.Import, ast.ImportFrom)):
            for al in n.names:
                banned.add((al.asname or al.name).split(".")[0])
        elif isinstance(n, ast.ExceptHandler) and n.name:
            banned.add(n.name)
    return banned


class Rename(ast.NodeTransformer):
    def visit_FunctionDef(self, fn):
        banned = _scopes(fn)
        stored = {n.id for n in ast.walk(fn) if isinstance(n, ast.Name) and isinstance(n.ctx, (ast.Store, ast.Del))}
        ren = {v: v + "_r" for v in stored - banned if not v.startswith("__")}
        for n in ast.walk(fn):
            if isinstance(n, ast.Name) and n.id in ren:
                n.id = ren[n.id]
        return fn          # nested functions were handled by the walk of the outermost one

    visit_AsyncFunctionDef = visit_FunctionDef


# ------------------------------------------------------------------ augassign
class Aug(ast.NodeTransformer):
    def visit_AugAssign(self, n):
        if isinstance(n.target, ast.Name) and isinstance(n.op, (ast.Add, ast.Sub)) and \
                (isinstance(n.value, ast.Constant) and isinstance(n.value.value, int) or isinstance(n.value, ast.Name)) \
                and n.target.id in ("i", "k", "n", "kF", "vid", "ind_vertex", "ind_component", "vertex_offset", "count", "npt", "ic", "j", "offset"):
            return ast.copy_location(ast.Assign(targets=[ast.Name(id=n.target.id, ctx=ast.Store())],
                                                value=ast.BinOp(left=ast.Name(id=n.target.id, ctx=ast.Load()), op=n.op, right=n.value)), n)
        return n


# ------------------------------------------------------------------ compare
SIMPLE = (ast.Name, ast.Attribute, ast.Constant, ast.Subscript)
FLIP = {ast.Lt: ast.Gt, ast.LtE: ast.GtE, ast.Gt: ast.Lt, ast.GtE: ast.LtE}


class Cmp(ast.NodeTransformer):
    def visit_Compare(self, n):
        self.generic_visit(n)
        if len(n.ops) == 1 and type(n.ops[0]) in FLIP and isinstance(n.left, SIMPLE) and isinstance(n.comparators[0], SIMPLE):
            return ast.copy_location(ast.Compare(left=n.comparators[0], ops=[FLIP[type(n.ops[0])]()], comparators=[n.left]), n)
        return n


class NotIn(ast.NodeTransformer):
    def visit_UnaryOp(self, n):
        self.generic_visit(n)
        if isinstance(n.op, ast.Not) and isinstance(n.operand, ast.Compare) and len(n.operand.ops) == 1:
            op = n.operand.ops[0]
            new = {ast.In: ast.NotIn, ast.NotIn: ast.In, ast.Eq: ast.NotEq, ast.NotEq: ast.Eq, ast.Is: ast.IsNot, ast.IsNot: ast.Is}.get(type(op))
            if new:
                return ast.copy_location(ast.Compare(left=n.operand.left, ops=[new()], comparators=n.operand.comparators), n)
        return n

    def visit_Compare(self, n):
        self.generic_visit(n)
        if len(n.ops) == 1 and isinstance(n.ops[0], ast.NotIn):
            return ast.copy_location(ast.UnaryOp(op=ast.Not(), operand=ast.Compare(left=n.left, ops=[ast.In()], comparators=n.comparators)), n)
        return n


# ------------------------------------------------------------------ if/continue
class IfCont(ast.NodeTransformer):
    def _loop(self, n):
        self.generic_visit(n)
        body = n.body
        for i, st in enumerate(body):
            if isinstance(st, ast.If) and not st.orelse and len(st.body) == 1 and isinstance(st.body[0], ast.Continue) and i + 1 < len(body):
                rest = body[i + 1:]
                neg = ast.UnaryOp(op=ast.Not(), operand=st.test)
                n.body = body[:i] + [ast.copy_location(ast.If(test=neg, body=rest, orelse=[]), st)]
                break
        return n

    visit_For = _loop
    visit_While = _loop


# ------------------------------------------------------------------ more spellings
class EqSwap(ast.NodeTransformer):
    """`a == b` -> `b == a`, `a != b` -> `b != a`  (names / attributes / subscripts / constants only: no evaluation-order effects)"""
    def visit_Compare(self, n):
        self.generic_visit(n)
        if len(n.ops) == 1 and isinstance(n.ops[0], (ast.Eq, ast.NotEq)) and isinstance(n.left, SIMPLE) and isinstance(n.comparators[0], SIMPLE):
            return ast.copy_location(ast.Compare(left=n.comparators[0], ops=n.ops, comparators=[n.left]), n)
        return n


class IfSwap(ast.NodeTransformer):
    """`if c: A else: B` -> `if not c: B else: A`  (plain if/else only, no elif chains)"""
    def visit_If(self, n):
        self.generic_visit(n)
        if n.orelse and not (len(n.orelse) == 1 and isinstance(n.orelse[0], ast.If)):
            return ast.copy_location(ast.If(test=ast.UnaryOp(op=ast.Not(), operand=n.test), body=n.orelse, orelse=n.body), n)
        return n


class LambdaRename(ast.NodeTransformer):
    def visit_Lambda(self, n):
        self.generic_visit(n)
        ren = {a.arg: a.arg + "_l" for a in n.args.args}
        for a in n.args.args:
            a.arg = ren[a.arg]
        for x in ast.walk(n.body):
            if isinstance(x, ast.Name) and x.id in ren:
                x.id = ren[x.id]
        return n


class AugBack(ast.NodeTransformer):
    """`x = x + 1` -> `x += 1` for plain names and integer literals"""
    def visit_Assign(self, n):
        if len(n.targets) == 1 and isinstance(n.targets[0], ast.Name) and isinstance(n.value, ast.BinOp) and isinstance(n.value.op, (ast.Add, ast.Sub)) \
                and isinstance(n.value.left, ast.Name) and n.value.left.id == n.targets[0].id and isinstance(n.value.right, ast.Constant) \
                and isinstance(n.value.right.value, int):
            return ast.copy_location(ast.AugAssign(target=ast.Name(id=n.targets[0].id, ctx=ast.Store()), op=n.value.op, value=n.value.right), n)
        return n


class ElifNest(ast.NodeTransformer):
    """`if a: A elif b: B else: C` is already nested in the AST; here: `if a: return X` + rest  ->  `if a: return X else: rest`
    at function top level (early return turned into an else branch)"""
    def visit_FunctionDef(self, fn):
        self.generic_visit(fn)
        body = fn.body
        for i, st in enumerate(body):
            if isinstance(st, ast.If) and not st.orelse and st.body and isinstance(st.body[-1], (ast.Return, ast.Raise)) and i + 1 < len(body) \
                    and i > 0:
                fn.body = body[:i] + [ast.copy_location(ast.If(test=st.test, body=st.body, orelse=body[i + 1:]), st)]
                break
        return fn


TRANSFORMS = {"rename": Rename, "augassign": Aug, "compare": Cmp, "notin": NotIn, "ifcont": IfCont,
              "eqswap": EqSwap, "ifswap": IfSwap, "lambda": LambdaRename, "augback": AugBack, "earlyelse": ElifNest}




def build_overlay(base, T):
    overlay = {}
    with warnings.catch_warnings():
        warnings.simplefilter("ignore")
        for name, m in base.modules.items():
            tree = ast.parse(m.source)
            tree = T().visit(tree)
            ast.fix_missing_locations(tree)
            overlay[m.relpath] = ast.unparse(tree) + "\n"
    return overlay
