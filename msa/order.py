"""R-ORDER: comparison predicates evaluated under every ordering of their symbols.

A predicate that touches its inputs only through comparisons has finitely many
behaviours: one per weak ordering of the symbols (and the literal constants it mentions).
`truth_table` evaluates the *AST* of the predicate (never repository code) on a finite
domain that realises every such ordering and the result is compared with a frozen
specification predicate.
"""
from __future__ import annotations
import ast, itertools, math, operator
from . import au

CMP = {ast.Lt: operator.lt, ast.LtE: operator.le, ast.Gt: operator.gt, ast.GtE: operator.ge,
       ast.Eq: operator.eq, ast.NotEq: operator.ne}


class Unsupported(Exception):
    pass


def fold_const(node):
    """Constant-fold literal arithmetic incl. math.pi / np.pi / cos of constants; None if not constant."""
    if isinstance(node, ast.Constant) and isinstance(node.value, (int, float)) and not isinstance(node.value, bool):
        return node.value
    if isinstance(node, ast.UnaryOp) and isinstance(node.op, (ast.USub, ast.UAdd)):
        v = fold_const(node.operand)
        return None if v is None else (-v if isinstance(node.op, ast.USub) else v)
    if isinstance(node, ast.BinOp):
        a, b = fold_const(node.left), fold_const(node.right)
        if a is None or b is None:
            return None
        try:
            if isinstance(node.op, ast.Add): return a + b
            if isinstance(node.op, ast.Sub): return a - b
            if isinstance(node.op, ast.Mult): return a * b
            if isinstance(node.op, ast.Div): return a / b
            if isinstance(node.op, ast.Pow): return a ** b
        except Exception:
            return None
        return None
    c = au.chain(node)
    if c and c[-1] == "pi" and c[0] in ("math", "np", "numpy", "pi"):
        return math.pi
    if isinstance(node, ast.Name) and node.id == "pi":
        return math.pi
    if isinstance(node, ast.Call) and au.call_tail(node) in ("cos", "sin", "sqrt") and len(node.args) == 1:
        v = fold_const(node.args[0])
        if v is not None:
            return getattr(math, au.call_tail(node))(v)
    return None


class Pred:
    """Evaluates a boolean AST under an environment symbol -> number.
    `sym(node)` maps a leaf expression to a symbol name (or raises Unsupported)."""

    def __init__(self, sym):
        self.sym = sym
        self.symbols = set()
        self.consts = set()

    def collect(self, e):
        self.eval(e, None)
        return self

    def val(self, e, env):
        c = fold_const(e)
        if c is not None:
            self.consts.add(c)
            return c
        if isinstance(e, ast.UnaryOp) and isinstance(e.op, ast.USub):
            v = self.val(e.operand, env)
            return None if v is None else -v
        s = self.sym(e)
        self.symbols.add(s)
        return None if env is None else env[s]

    def eval(self, e, env):
        if isinstance(e, ast.BoolOp):
            vals = [self.eval(v, env) for v in e.values]
            if env is None:
                return None
            return all(vals) if isinstance(e.op, ast.And) else any(vals)
        if isinstance(e, ast.UnaryOp) and isinstance(e.op, ast.Not):
            v = self.eval(e.operand, env)
            return None if env is None else (not v)
        if isinstance(e, ast.Compare):
            left = self.val(e.left, env)
            res = True
            for op, c in zip(e.ops, e.comparators):
                right = self.val(c, env)
                if type(op) not in CMP:
                    raise Unsupported(f"comparison {type(op).__name__} in {au.src(e)}")
                if env is not None:
                    res = res and CMP[type(op)](left, right)
                left = right
            return None if env is None else res
        if isinstance(e, ast.Constant) and isinstance(e.value, bool):
            return e.value
        if isinstance(e, ast.Call) and au.call_tail(e) in ("all", "any") and len(e.args) == 1:
            # np.all(a <= b) on a vector: component-wise predicate, decided per component
            return self.eval(e.args[0], env)
        # a bare boolean atom
        s = self.sym(e)
        self.symbols.add("?" + s)
        return None if env is None else bool(env["?" + s])


def domain(consts, nsym):
    cs = sorted(set(consts))
    if not cs:
        return list(range(nsym + 1))
    pts = set()
    for c in cs:
        pts.update((c - 1, c, c + 1))
    for a, b in zip(cs, cs[1:]):
        pts.add((a + b) / 2)
    pts = sorted(pts)
    # extra room above/below so that symbols can be ordered among themselves away from constants
    lo, hi = pts[0], pts[-1]
    for i in range(1, nsym):
        pts += [lo - i, hi + i]
    return sorted(set(pts))


def envs(symbols, consts):
    num = sorted(s for s in symbols if not s.startswith("?"))
    boo = sorted(s for s in symbols if s.startswith("?"))
    dom = domain(consts, len(num))
    for vals in itertools.product(dom, repeat=len(num)):
        for bs in itertools.product((False, True), repeat=len(boo)):
            env = dict(zip(num, vals))
            env.update(zip(boo, bs))
            yield env


def compare(code_expr, spec_src, sym, negate_code=False, extra_symbols=()):
    """Return None if the code predicate agrees with the specification under every ordering,
    else a witness environment.  spec_src is python source over the symbol names."""
    spec = ast.parse(spec_src, mode="eval").body
    pc = Pred(sym).collect(code_expr)
    ps = Pred(lambda n: au.src(n)).collect(spec)
    symbols = pc.symbols | ps.symbols | set(extra_symbols)
    consts = pc.consts | ps.consts
    n = 0
    for env in envs(symbols, consts):
        n += 1
        a = pc.eval(code_expr, env)
        if negate_code:
            a = not a
        b = ps.eval(spec, env)
        if bool(a) != bool(b):
            return env, n
    return None, n


# ------------------------------------------------------------ return summaries
def return_formula(fn_body):
    """Summarise a function made of `if t: return e` chains and a final return into a nested
    ('ite', test, a, b) / ('ret', expr) / ('none',) tree.  Raises Unsupported for loops etc."""
    def block(body, rest):
        if not body:
            return rest
        st, tail = body[0], body[1:]
        if isinstance(st, ast.Return):
            return ("ret", st.value)
        if isinstance(st, ast.Raise):
            return ("raise", st.exc)
        if isinstance(st, ast.If):
            k = block(tail, rest)
            return ("ite", st.test, block(st.body, k), block(st.orelse, k))
        if isinstance(st, ast.Expr) and isinstance(st.value, ast.Constant):
            return block(tail, rest)  # docstring
        if isinstance(st, ast.Pass):
            return block(tail, rest)
        raise Unsupported(f"statement {type(st).__name__} at line {st.lineno}")
    return block(list(fn_body), ("none",))


def eval_formula(f, pred: Pred, env, leaf=None):
    k = f[0]
    if k == "ite":
        t = pred.eval(f[1], env)
        a = eval_formula(f[2], pred, env, leaf)
        b = eval_formula(f[3], pred, env, leaf)
        if env is None:
            return None
        return a if t else b
    if k == "ret":
        if leaf is not None:
            return leaf(f[1], env)
        if f[1] is None:
            return None
        return pred.eval(f[1], env)
    if k == "raise":
        return "raise"
    return None
