"""C10 - spanning trees and forests span, are acyclic and respect exclusions (structural clauses).

Static only: reads the `ast` of mouette/processing/trees/*.py (and the use of UnionFind by Kruskal).  Every rule works on the
flattened form of a method (msa/rules/hf_flat.py: closures, private (generator) methods and shared base-class helpers inlined,
`deque(<generator>)` / `extend(<generator>)` written as loops, attribute and bound-method aliases replaced by what they name), finds
its constructs by role and answers ok / fail (a recognised construct contradicts the obligation) / undecided (shape not understood).
"""
from __future__ import annotations
import ast, itertools
from .. import au, sym, order, flow
from ..core import AnalysisError
from ..rules import skel0910 as sk
from ..rules import hf_flat, hf_roles as hr
from ..rules.hf_roles import FlatFn

BASE = "processing.trees.base"
EDGE = "processing.trees.edge_sp"
FACE = "processing.trees.face_sp"
CELL = "processing.trees.cell_sp"

# BFS trees: (module, class, element kind, exclusion predicate)
#   ("call", m)  : `not self.m(parent, child)`            ("in", f) : `crossing element not in self.f`
BFS_TREES = [
    (EDGE, "EdgeSpanningTree", "vertices", ("call", "_avoid_edge")),
    (FACE, "FaceSpanningTree", "faces", ("in", "forbidden_edges")),
    (CELL, "CellSpanningTree", "cells", ("in", "forbidden_faces")),
]
FORESTS = [
    (EDGE, "EdgeSpanningForest", "vertices", "EdgeSpanningTree", None),
    (FACE, "FaceSpanningForest", "faces", "FaceSpanningTree", "forbidden_edges"),
    (CELL, "CellSpanningForest", "cells", "CellSpanningTree", None),
]
MAY_RETURN_NONE = ("opposite_face", "other_face_side")
# connectivity queries whose results are NOT aligned position by position (face_to_faces drops the missing neighbours of border edges)
NOT_ALIGNED = {("face_to_edges", "face_to_faces"), ("face_to_faces", "face_to_edges"), ("cell_to_face", "cell_to_cells"), ("cell_to_cells", "cell_to_face"),
               ("vertex_to_edges", "vertex_to_vertices"), ("vertex_to_vertices", "vertex_to_edges")}

EXPLANATION = (
    "Static conformance of the three breadth-first spanning trees (vertices / faces / cells), of Kruskal's minimal "
    "spanning tree and of the three forests to their algorithm skeletons, decided on the flattened form of each method and applied "
    "uniformly to the siblings: guarded enqueue (not seen, exclusion predicate, neighbour not None), FIFO discipline with seen-test / "
    "mark / parent assignment once per element, children/edges pairing built from the parent table, `_computed` on every normal exit "
    "(must-dataflow) and tested by traverse, Kruskal's sort / union / edge / adjacency block, root-per-unvisited-element "
    "in the forests, element-kind agreement of the tables. Decides structural necessary conditions, not spanning or "
    "acyclicity as such.")

RULES = {
    "C10-X1": "every enqueue of the BFS trees is guarded by `not seen[child]`, by the class's exclusion predicate on the element crossed, "
              "and by `child is not None` when the neighbour query may return None",
    "C10-B1": "BFS trees: deque used first-in first-out; popped pair in the order it was pushed; `if seen[child]: continue`, then mark, then "
              "parent[child] = parent-of-pair once; the child is expanded; the root is marked seen and expanded before the loop",
    "C10-P1": "children[p].append(v) and edges.append(keyify(p, v)) under the same conditions with p = parent[v], p is not None, over every element id",
    "C10-C1": "`_computed` is False after __init__, set on every normal exit of every tree `compute`, set by nothing but compute (and its private helpers), "
              "and tested by `traverse` before the tables are read",
    "C10-K1": "Kruskal: admissible edges sorted ascending by the weight callable before the loop; union, edge record and both adjacency "
              "inserts sit together under `not connected(a, b)`; union-find over all vertices; border exclusion is the "
              "predicate of the BFS tree; the orientation pass sets parent/children consistently and never walks back to the parent; the "
              "'length' weights measure the current geometry",
    "C10-F1": "forests: a root is recorded, a tree of the matching class is built from it (with the forest's exclusions) and computed, for exactly "
              "the elements found unvisited; visited is marked from that tree's traversal",
    "C10-T1": "traverse: starts from (root, None), yields the popped (node, parent) before enqueueing (child, node) for the children of node, "
              "BFS pops the oldest entry and DFS the newest",
    "C10-S1": "element-kind agreement: parent / children / seen tables, id loops and the random root of one class all range over the same "
              "element kind; the random root is in range; every element gets a children list of its own",
    "C10-N1": "a None-defaulted parameter that selects the root element is tested with `is None` / `is not None`, never by truthiness "
              "(`x or default`, `if x`, `if not x`): element index 0 is a valid root; the requested root reaches self.root unchanged",
    "C10-A1": "all callables bound to one local name on sibling branches (edge_length of Kruskal) accept the arity of every call of that name",
    "C10-U1": "UnionFind.connected(x, y) compares the roots returned by find(x) and find(y)",
    "C10-E1": "the edge list of a forest is a fresh list: the lists owned by the trees are never extended in place",
}


def run(ctx):
    ctx = hr.Gate(ctx)
    for modname, cname, kind, excl in BFS_TREES:
        ctx.repo.cls(modname, cname)
        fn = ctx.repo.func(modname, cname + ".compute")
        bfs_tree(ctx, modname, cname, fn, kind, excl)
    avoid_edge_predicate(ctx)
    c1_computed(ctx)
    k1_kruskal(ctx)
    f1_forests(ctx)
    t1_traverse(ctx)
    e1_forest_edges(ctx)
    u1_unionfind(ctx)
    s1_kinds(ctx)
    n1_none_defaults(ctx)
    fn = ctx.repo.func(EDGE, "EdgeMinimalSpanningTree.compute")
    F = _flat(ctx, EDGE, fn)
    nb, _ = sk.arity_agreement(ctx, "C10-A1", EDGE, F.fn)
    if nb == 0:
        ctx.ok("C10-A1", ctx.site(EDGE, fn), "no callable is bound to a local name on sibling branches")


def _absent(ctx, F, region, rule, site, construct, what):
    """report that something is missing: a violation only when the region is fully visible to the rules, undecided otherwise"""
    res = F.opaque(region)
    if res:
        ctx.undecided(rule, site, construct, "part of the code concerned is not visible to the rule (a helper that was not inlined, a staged list ..)")
    else:
        ctx.fail(rule, site, construct, what)


def _flat(ctx, modname, fn):
    cache = getattr(ctx.repo, "_hf_flatfn", None)
    if cache is None:
        cache = ctx.repo._hf_flatfn = {}
    k = (modname, id(fn), "c10")
    if k not in cache:
        cache[k] = FlatFn(ctx.repo, modname, fn, no_inline=("_avoid_edge",))
    return cache[k]


# ----------------------------------------------------------------------- helpers
def self_tab(e, name=None, idx=None):
    """e is `self.<name>[<Name idx>]`"""
    return (isinstance(e, ast.Subscript) and au.is_self_attr(e.value, name) and isinstance(e.slice, ast.Name)
            and (idx is None or e.slice.id == idx))


def deque_names(fn, lists=False):
    out = set()
    for st in au.stmts(fn.body):
        if isinstance(st, (ast.Assign, ast.AnnAssign)) and st.value is not None:
            v = st.value
            is_q = isinstance(v, ast.Call) and au.call_tail(v) == "deque"
            if lists:
                is_q = is_q or (isinstance(v, ast.List) and not v.elts) or (isinstance(v, ast.Call) and au.call_tail(v) == "list" and not v.args)
            if is_q:
                for t in au.assign_targets(st):
                    if isinstance(t, ast.Name):
                        out.add(t.id)
    return out


def _pop_end(pop):
    """'left' | 'right' end a pop call takes its element from: q.popleft() / q.pop(0) -> left ; q.pop() / q.pop(-1) -> right"""
    if pop.func.attr == "popleft":
        return "left"
    if pop.func.attr == "pop":
        if not pop.args or au.const(pop.args[0]) == -1:
            return "right"
        if au.const(pop.args[0]) == 0:
            return "left"
    return None


def q_method(c, Q, tails):
    return (isinstance(c, ast.Call) and isinstance(c.func, ast.Attribute) and isinstance(c.func.value, ast.Name)
            and c.func.value.id == Q and c.func.attr in tails)


def _is_none_cmp(e):
    """`x is None` / `x == None` -> x"""
    if isinstance(e, ast.Compare) and len(e.ops) == 1 and isinstance(e.ops[0], (ast.Is, ast.Eq)) and hr.is_none(e.comparators[0]):
        return e.left
    return None


def _worklist(F, top_only=False):
    """(Q, loop, pop call) of the work-list loop of a flattened function: the while loop that pops a deque; None when not unique"""
    qs = deque_names(F.fn, lists=True)
    found = []
    for st in au.stmts(F.fn.body):
        if not isinstance(st, ast.While):
            continue
        for Q in qs:
            pops = [c for c in au.calls(st) if q_method(c, Q, ("popleft", "pop"))]
            if pops:
                found.append((Q, st, pops))
    found = [f for f in found if not any(f[1] is not g[1] and F.inside(f[1], g[1]) for g in found)]
    return found


def _other_queue_uses(F, Q):
    """uses of the work-list `Q` that are not its creation, append / pop calls, len() or a truth test: something else may fill it"""
    out = []
    for n in au.walk(F.fn):
        if not (isinstance(n, ast.Name) and n.id == Q):
            continue
        p = au.parent(n)
        if isinstance(n.ctx, ast.Store):
            st = au.enclosing_stmt(n)
            v = getattr(st, "value", None)
            if isinstance(v, ast.Call) and au.call_tail(v) in ("deque", "list") and not v.args:
                continue
            if isinstance(v, ast.List) and not v.elts:
                continue
            out.append(n)
            continue
        if isinstance(p, ast.Attribute) and p.attr in ("append", "appendleft", "pop", "popleft") and isinstance(au.parent(p), ast.Call):
            continue
        if isinstance(p, ast.Call) and au.call_tail(p) in ("len", "bool"):
            continue
        if isinstance(p, (ast.While, ast.If, ast.UnaryOp, ast.BoolOp, ast.Compare)):
            continue
        out.append(n)
    return out


def _pair_of_pop(F, loop, pop):
    """names (first, second) the popped entry is unpacked into, or None"""
    pst = au.enclosing_stmt(pop)
    if isinstance(pst, ast.Assign) and pst.value is pop and len(pst.targets) == 1:
        t = pst.targets[0]
        if isinstance(t, ast.Tuple) and len(t.elts) == 2 and all(isinstance(x, ast.Name) for x in t.elts):
            return [x.id for x in t.elts], pst
        if isinstance(t, ast.Name):
            # entry = q.popleft(); a, b = entry   |   a = entry[0]; b = entry[1]
            ent = t.id
            for st in loop.body:
                if isinstance(st, ast.Assign) and len(st.targets) == 1 and isinstance(st.value, ast.Name) and st.value.id == ent \
                        and isinstance(st.targets[0], ast.Tuple) and len(st.targets[0].elts) == 2 and all(isinstance(x, ast.Name) for x in st.targets[0].elts):
                    return [x.id for x in st.targets[0].elts], st
            got = {}
            last = None
            for st in loop.body:
                if isinstance(st, ast.Assign) and len(st.targets) == 1 and isinstance(st.targets[0], ast.Name) and isinstance(st.value, ast.Subscript) \
                        and isinstance(st.value.value, ast.Name) and st.value.value.id == ent and au.const(st.value.slice) in (0, 1):
                    got[au.const(st.value.slice)] = st.targets[0].id
                    last = st
            if set(got) == {0, 1}:
                return [got[0], got[1]], last
    return None, pst


# ----------------------------------------------------------------------- BFS trees: X1, B1, P1
def bfs_tree(ctx, modname, cname, fn0, kind, excl):
    F = _flat(ctx, modname, fn0)
    fn = F.fn
    site = ctx.site(modname, fn0)
    b = F.b

    def S(node):
        return ctx.site(modname, fn0, node)
    wl = _worklist(F)
    if len(wl) != 1 or len(wl[0][2]) != 1:
        ctx.undecided("C10-B1", site, "work-list loop of the breadth-first search not recognised",
                      f"{len(wl)} loop(s) popping a collections.deque")
        return
    Q, loop, pops = wl[0]
    pop = pops[0]
    pushes = [c for c in au.calls(fn) if q_method(c, Q, ("append", "appendleft")) and len(c.args) == 1]
    if not pushes:
        if F.opaque(fn, {Q}) or _other_queue_uses(F, Q):
            ctx.undecided("C10-B1", site, "the enqueue operations of the search are not visible", "the work-list is handed to a helper")
        else:
            ctx.fail("C10-B1", site, "the breadth-first search never enqueues", "nothing is ever appended to the work-list: the tree stays empty")
        return
    pend = _pop_end(pop)
    kinds = {("right" if c.func.attr == "append" else "left", pend) for c in pushes}
    if pend is not None and kinds <= {("right", "left"), ("left", "right")}:
        ctx.ok("C10-B1", S(pop), "first-in first-out work-list")
    elif pend is not None and kinds <= {("right", "right"), ("left", "left")}:
        ctx.fail("C10-B1", S(pop), f"work-list is not first-in first-out (enqueue with {sorted({c.func.attr for c in pushes})}, dequeue with {pop.func.attr})",
                 "a last-in first-out work-list gives a depth-first tree: elements no longer get their minimum hop distance to the root")
    else:
        ctx.undecided("C10-B1", S(pop), "the work-list mixes both ends of the deque", "")
    pair, pst = _pair_of_pop(F, loop, pop)
    if pair is None:
        ctx.undecided("C10-B1", S(pop), "popped entry is not unpacked as a (parent, child) pair", "")
        return
    # ---- seen table and child: from a mark / a test of a flag on a member of the popped pair
    SEEN = child = None
    tested_tabs = set()
    for st in au.stmts(loop.body):
        for e, p in F.conds(st, stop=loop):
            ft = hr.flag_test(e, p)
            if ft and isinstance(ft[0], ast.Name) and isinstance(ft[1], ast.Name) and ft[1].id in pair:
                tested_tabs.add((ft[0].id, ft[1].id))
    mark_cands = []
    for st in au.stmts(loop.body):
        fm = hr.flag_mark(st)
        if fm and isinstance(fm[0], ast.Name) and isinstance(fm[1], ast.Name) and fm[1].id in pair and fm[2] is True:
            mark_cands.append((fm[0].id, fm[1].id))
    pref = [c_ for c_ in mark_cands if c_ in tested_tabs] or mark_cands
    if len(set(pref)) > 1:
        ctx.undecided("C10-B1", site, "several flag tables are marked on the popped pair: the seen table of the search is not identified", "")
        return
    if pref:
        SEEN, child = pref[0]
    if SEEN is None:
        for st in au.stmts(loop.body):
            for e, p in F.conds(st, stop=loop):
                ft = hr.flag_test(e, p)
                if ft and isinstance(ft[0], ast.Name) and isinstance(ft[1], ast.Name) and ft[1].id in pair:
                    SEEN, child = ft[0].id, ft[1].id
    if SEEN is None:
        # which tables are tested at the enqueue?  if a seen table exists there but the popped element is never marked: not closing
        push_flags = set()
        for c in pushes:
            for e, p in F.conds(c):
                ft = hr.flag_test(e, p)
                if ft and isinstance(ft[0], ast.Name):
                    push_flags.add(ft[0].id)
        any_mark = [st for st in au.stmts(fn.body) if (fm_ := hr.flag_mark(st)) and isinstance(fm_[0], ast.Name) and fm_[0].id in push_flags and F.inside(st, loop)]
        if push_flags and not any_mark and not F.opaque(loop, set(pair) | push_flags):
            ctx.fail("C10-B1", site, "`seen[child] = True` is missing or conditional after the seen test",
                     "popped elements are never marked: the enqueue guard `not seen[..]` never closes and the search does not terminate on a cycle")
        else:
            ctx.undecided("C10-B1", site, "the seen table of the search is not recognised", "")
        return
    par = [x for x in pair if x != child][0]
    ci, pi = pair.index(child), pair.index(par)
    # a flag table of the opposite polarity (`todo` / `unseen`: starts all True / holds every id, cleared when an element is reached) is not analysed
    sd0 = F.definition(SEEN, loop)
    iv0, fd0 = F.initial_values(SEEN, loop)
    all_true = fd0 and iv0 and all(isinstance(x_, ast.Constant) and x_.value is True for x_ in iv0)
    full_set = isinstance(sd0, ast.Call) and au.call_tail(sd0) in ("set", "frozenset") and sd0.args
    cleared = [st_ for st_ in au.stmts(loop.body) if (fm_ := hr.flag_mark(st_)) and isinstance(fm_[0], ast.Name) and F.root(fm_[0].id, st_) == F.root(SEEN, st_) and fm_[2] is False] + \
        [c_ for c_ in au.calls(loop) if isinstance(c_.func, ast.Attribute) and c_.func.attr in ("discard", "remove") and isinstance(c_.func.value, ast.Name)
         and F.root(c_.func.value.id, c_) == F.root(SEEN, c_)]
    if (all_true or full_set) and cleared:
        ctx.undecided("C10-B1", site, "the flags of the search are kept with the opposite polarity (a table that starts full and is cleared): this scheme is not analysed", "")
        return

    def is_seen(e, p, key_name, at):
        ft = hr.flag_test(e, p)
        return bool(ft and isinstance(ft[0], ast.Name) and F.root(ft[0].id, at) == F.root(SEEN, at) and isinstance(ft[1], ast.Name)
                    and F.root(ft[1].id, at) == F.root(key_name, at) and ft[2] is False)

    inloop = [c for c in pushes if F.inside(c, loop)]
    pre = [c for c in pushes if not F.inside(c, loop) and F.before(c, loop)]
    pop_tested = bool(inloop) and all(any(is_seen(e, p, child, c) for e, p in F.conds(c, stop=loop)) for c in inloop)
    # ---- X1: every enqueue
    for c in pushes:
        s = S(c)
        t = _pair_arg(F, c)
        if t is None:
            ctx.undecided("C10-X1", s, "enqueued entry is not a (parent, child) pair", "")
            continue
        pe, ce = t.elts[pi], t.elts[ci]
        if not isinstance(ce, ast.Name):
            ctx.undecided("C10-X1", s, "the neighbour slot of the enqueued pair is not a variable", "")
            continue
        cc = ce.id
        conds = F.conds(c, stop=None)
        expanded = child if F.inside(c, loop) else None     # None: the root
        def is_expanded(x):
            if expanded is None:
                return au.is_self_attr(F.resolve(x, c), "root") or au.is_self_attr(x, "root")
            return isinstance(x, ast.Name) and F.root(x.id, c) == F.root(expanded, c)
        if is_expanded(pe):
            ctx.ok("C10-X1", s, "(expanded element, neighbour) pushed in pop order")
        elif is_expanded(ce):
            ctx.fail("C10-X1", s, "pair pushed does not have the expanded element in the parent slot",
                     "the pair is popped as (parent, child): pushing (neighbour, expanded) makes the neighbour the parent of the element it was reached from")
            continue
        else:
            ctx.undecided("C10-X1", s, "the parent slot of the enqueued pair is not recognised", "")
            continue
        if any(is_seen(e, p, cc, c) for e, p in conds) or pop_tested:
            ctx.ok("C10-X1", s, "enqueue guarded by not seen")
        elif any((ft := hr.flag_test(e, p)) and isinstance(ft[0], ast.Name) and F.root(ft[0].id, c) == F.root(SEEN, c) and ft[2] is True
                 and isinstance(ft[1], ast.Name) and F.root(ft[1].id, c) == F.root(cc, c) for e, p in conds):
            ctx.fail("C10-X1", s, "enqueue of a neighbour is guarded by `seen[neighbour]` (inverted)", "only elements that were already reached are enqueued")
        else:
            _absent(ctx, F, fn if expanded is None else loop, "C10-X1", s, "enqueue of a neighbour is guarded by `not seen[neighbour]` neither when pushed nor when popped",
                    "every expansion re-enqueues the element it came from: the search never terminates")
        fors = [a for a in au.ancestors(c) if isinstance(a, ast.For) and (expanded is None or F.inside(a, loop))]
        lvars = set()
        for f_ in fors:
            lvars |= set(au.assigned_names(f_.target))
        opaque = F.opaque(fors[-1] if fors else fn, {cc} | lvars) if fors else []
        for f_ in fors:
            for cl_ in au.calls(f_.iter):
                fn_ = cl_.func
                own = isinstance(fn_, ast.Name) and au.call_tail(cl_) not in ("enumerate", "zip", "range", "list", "tuple", "set", "sorted", "reversed", "len", "iter")
                own = own or (isinstance(fn_, ast.Attribute) and isinstance(fn_.value, ast.Name) and fn_.value.id == "self")
                if own:
                    opaque = list(opaque) + [cl_]
        # conditions on the enqueue that are neither a flag test nor a None test: the exclusion may hide behind them (fast paths, flags)
        foreign_conds = [e_ for e_, p_ in conds if not hr.flag_test(e_, p_) and not (isinstance(e_, ast.Compare) and len(e_.ops) == 1
                         and isinstance(e_.ops[0], (ast.Is, ast.IsNot)) and hr.is_none(e_.comparators[0]))]
        # every mention of the exclusion in the function that is not one of the conditions of this enqueue: the exclusion may be applied
        # elsewhere (when the pair is popped, on a staged list ..)
        cond_nodes = {id(n_) for e_, p_ in conds for n_ in ast.walk(e_)}
        excl_elsewhere = [n_ for n_ in au.walk(fn) if au.is_self_attr(n_, excl[1]) and id(n_) not in cond_nodes
                          and not any(hr.same(n_, m_) for e_, p_ in conds for m_ in ast.walk(e_) if isinstance(m_, ast.Attribute))]
        cls_node = ctx.repo.cls(modname, cname)
        excl_elsewhere += [n_ for m_ in cls_node.body if isinstance(m_, ast.FunctionDef) and m_.name not in (fn0.name, "__init__", excl[1])
                           for n_ in ast.walk(m_) if au.is_self_attr(n_, excl[1])]
        if not any(au.is_self_attr(n_, excl[1]) for n_ in ast.walk(cls_node)) and not any(isinstance(m_, ast.FunctionDef) and m_.name == excl[1] for m_ in cls_node.body):
            excl_elsewhere.append(cls_node)          # the attribute is not used under this name at all (renamed): the anchor is gone
        if excl[0] == "call":
            hit = None
            popped_roots = sorted([F.root(par, loop), F.root(child, loop)])
            pop_side = False
            for e, p in conds:
                if isinstance(e, ast.Call) and au.is_self_attr(e.func, excl[1]):
                    args = [F.root(a.id, c) if isinstance(a, ast.Name) else au.src(F.resolve(a, c)) for a in e.args]
                    want = [F.root(cc, c), (F.root(pe.id, c) if isinstance(pe, ast.Name) else au.src(F.resolve(pe, c)))]
                    if expanded is not None and sorted(args) == popped_roots and sorted(args) != sorted(want):
                        pop_side = pop_side or not p        # the popped pair itself is tested before it is accepted
                        continue
                    known = set(want) | set(popped_roots)
                    hit = (p, sorted(args) == sorted(want), all(a_ in known for a_ in args))
            # exclusion applied to every pair when it is popped: `if seen[child] or self.avoid(parent, child): continue`
            mark_conds = [(e_, p_) for st_ in au.stmts(loop.body) if (fm_ := hr.flag_mark(st_)) and isinstance(fm_[1], ast.Name) and fm_[1].id == child
                          for e_, p_ in F.conds(st_, stop=loop)]
            pop_excl = any(isinstance(e_, ast.Call) and au.is_self_attr(e_.func, excl[1]) and not p_ and
                           sorted(F.root(a.id, loop) if isinstance(a, ast.Name) else au.src(a) for a in e_.args) == popped_roots for e_, p_ in mark_conds)
            if hit and hit[1] and not hit[0]:
                ctx.ok("C10-X1", s, f"enqueue guarded by not self.{excl[1]}")
            elif hit and hit[0] and hit[1]:
                ctx.fail("C10-X1", s, f"enqueue is guarded by `self.{excl[1]}(parent, neighbour)` (inverted)", "only excluded edges are crossed")
            elif hit and hit[2] and not hit[1]:
                ctx.fail("C10-X1", s, f"`self.{excl[1]}` is not applied to the edge (expanded element, neighbour)", "the exclusion is tested on another edge")
            elif hit:
                ctx.undecided("C10-X1", s, "the arguments of the exclusion test of the enqueue are not recognised", "")
            elif pop_excl:
                ctx.ok("C10-X1", s, f"every popped pair is tested with not self.{excl[1]} before it is accepted")
            elif opaque or foreign_conds or excl_elsewhere or pop_side:
                ctx.undecided("C10-X1", s, "the exclusion test of the enqueue is not visible", "")
            else:
                ctx.fail("C10-X1", s, f"enqueue is not guarded by `not self.{excl[1]}(parent, neighbour)`",
                         "the tree crosses an excluded edge (avoid_edges / avoid_boundary are ignored)")
        else:
            tests = []
            for e, p in conds:
                if isinstance(e, ast.Compare) and len(e.ops) == 1 and isinstance(e.ops[0], ast.In) and au.is_self_attr(e.comparators[0], excl[1]):
                    tests.append((e, p))
                elif isinstance(e, ast.Compare) and any(au.is_self_attr(n, excl[1]) for n in ast.walk(e)):
                    tests.append((e, None))
            if not tests:
                truthy = [e for e, p in conds if isinstance(e, ast.BoolOp) and any(au.is_self_attr(n, excl[1]) for n in ast.walk(e))]
                if truthy:
                    # `e and (e in forbidden)` : a truthiness test of the element id in front of the membership test (index 0 is falsy)
                    tested_ = {au.src(n_.left) for t_ in truthy for n_ in ast.walk(t_) if isinstance(n_, ast.Compare) and len(n_.ops) == 1
                               and isinstance(n_.ops[0], (ast.In, ast.NotIn))}
                    bad = [v for t_ in truthy for v in t_.values if isinstance(v, ast.Name) and v.id in tested_]
                    if bad:
                        ctx.fail("C10-X1", s, f"the membership test in self.{excl[1]} is short-circuited by the truthiness of the element id",
                                 "element index 0 is falsy: the exclusion is never applied to it")
                    else:
                        ctx.undecided("C10-X1", s, f"the test on self.{excl[1]} is part of a compound condition", "")
                elif opaque or foreign_conds or excl_elsewhere:
                    ctx.undecided("C10-X1", s, "the exclusion test of the enqueue is not visible", "")
                else:
                    ctx.fail("C10-X1", s, f"enqueue is not guarded by `<element crossed> not in self.{excl[1]}`",
                             "the tree crosses a forbidden element")
            else:
                e, p = tests[0]
                lhs = F.resolve(e.left, c) if p is not None else None
                def same_binding(nm_, other_):
                    """the name tested denotes the same value as `other_` at the enqueue (a name that is re-bound in between does not)"""
                    at_test = au.enclosing_stmt(e.left) if F._attached(e.left) else None
                    if at_test is None:
                        orig_ = [n_ for n_ in au.walk(fn) if isinstance(n_, ast.Compare) and hr.same(n_, e)]
                        at_test = au.enclosing_stmt(orig_[0]) if len(orig_) == 1 else None
                    if F.root(nm_, c) != F.root(other_, c):
                        return False
                    if at_test is None:
                        return True
                    d1, d2 = F.b.reaching(nm_, at_test), F.b.reaching(nm_, c)
                    return d1 is d2 or (isinstance(d1, tuple) and d1 == d2)
                on_self = p is not None and (au.is_self_attr(lhs, "root") or au.is_self_attr(e.left, "root") or
                                             (isinstance(e.left, ast.Name) and (same_binding(e.left.id, cc) or
                                                                              (expanded is not None and same_binding(e.left.id, expanded)))))
                if p is None:
                    ctx.undecided("C10-X1", s, f"the test on self.{excl[1]} is not a plain membership test", "")
                elif p is True:
                    ctx.fail("C10-X1", s, f"enqueue is guarded by `<element> in self.{excl[1]}` (inverted)", "only forbidden elements are crossed")
                elif on_self:
                    ctx.fail("C10-X1", s, f"the exclusion set self.{excl[1]} is tested on the element itself, not on the element crossed",
                             "the test must be on the loop variable the neighbour is derived from")
                elif not isinstance(e.left, ast.Name):
                    ctx.undecided("C10-X1", s, f"the element tested against self.{excl[1]} is not a variable", "")
                else:
                    crossed = F.root(e.left.id, c)
                    clo = hr.closure(F.deps(), {cc})
                    derived = crossed in clo or e.left.id in clo
                    zp = _zip_pair(fors, e.left.id, cc, clo)
                    if zp == "not-aligned":
                        ctx.fail("C10-X1", s, f"the element tested against self.{excl[1]} is paired with the neighbour by position in two "
                                 "connectivity queries that are not aligned",
                                 "the query of the neighbours drops the missing neighbours of border elements: the i-th crossing element and the "
                                 "i-th neighbour do not correspond, so the exclusion is applied to the wrong element")
                    elif zp == "zip":
                        ctx.undecided("C10-X1", s, "crossing element and neighbour are paired by zip", "")
                    elif derived and (crossed in lvars or e.left.id in lvars or
                                      any(crossed in au.assigned_names(x.target) for x in au.walk(fn) if isinstance(x, ast.For))):
                        ctx.ok("C10-X1", s, f"enqueue guarded by not in self.{excl[1]}")
                    else:
                        ctx.undecided("C10-X1", s, f"the neighbour is not derived from the element tested against self.{excl[1]}", "")
        d = b.reaching(cc, c)
        for _ in range(3):
            if isinstance(d, ast.Name):
                d = b.reaching(d.id, b._last_def_stmt)
        if isinstance(d, ast.Call) and au.call_tail(d) in MAY_RETURN_NONE:
            nn = False
            for e, p in conds:
                x = _is_none_cmp(e)
                if x is not None and isinstance(x, ast.Name) and F.root(x.id, c) == F.root(cc, c) and not p:
                    nn = True
            other_none = [n_ for n_ in au.walk(fors[0] if fors else fn) if (isinstance(n_, ast.Constant) and n_.value is None) or
                          (isinstance(n_, ast.Name) and n_.id == "NoneType")] if not nn else []
            odd_conds = [e_ for e_, p_ in conds if cc in au.names(e_) and not hr.flag_test(e_, p_) and _is_none_cmp(e_) is None] if not nn else []
            pred_conds = [e_ for e_, p_ in conds if any(isinstance(n_, ast.Call) and au.call_tail(n_) not in (excl[1],) for n_ in ast.walk(e_))
                          or any(isinstance(n_, ast.Attribute) and ("bound" in n_.attr or "border" in n_.attr) for n_ in ast.walk(e_))
                          or any(isinstance(n_, ast.Name) and isinstance(F.definition(n_.id, c), (ast.Call, ast.SetComp, ast.Set)) for n_ in ast.walk(e_)
                                 if isinstance(e_, ast.Compare) and isinstance(e_.ops[0], (ast.In, ast.NotIn)))] if not nn else []
            if not nn:
                other_none = other_none + [n_ for n_ in au.walk(loop) if isinstance(n_, ast.Constant) and n_.value is None and isinstance(au.parent(n_), ast.Compare)]
                pred_conds = pred_conds + [e_ for e_, p_ in conds if any(isinstance(n_, ast.Subscript) and isinstance(n_.value, ast.Name)
                                                                        and F.root(n_.value.id, c) != F.root(SEEN, c) for n_ in ast.walk(e_))
                                           or any(isinstance(n_, ast.Attribute) and "interior" in n_.attr for n_ in ast.walk(e_))]
            if not nn and (other_none or odd_conds or pred_conds or F.opaque(fors[0] if fors else fn, {cc})):
                ctx.undecided("C10-X1", s, f"how the neighbour returned by {au.call_tail(d)} is tested for None is not recognised", "")
            else:
                ctx.check(nn, "C10-X1", s, f"neighbour returned by {au.call_tail(d)} is used without `is not None` test",
                          f"{au.call_tail(d)} returns None on the border: seen[None] raises TypeError", note="neighbour is not None")
    # ---- B1: mark, parent, expansion, root
    marks = [(st, fm) for st in au.stmts(loop.body) if (fm := hr.flag_mark(st)) and isinstance(fm[0], ast.Name) and fm[0].id == SEEN
             and isinstance(fm[1], ast.Name) and fm[1].id == child]
    gm = [st for st, fm in marks if fm[2] is True and all(is_seen(e, p, child, st) for e, p in F.conds(st, stop=loop))]
    def discards_pair(st_):
        """the conditions of the mark other than the seen test also guard every expansion: the pair is either processed entirely or dropped"""
        extra_ = {(hr.key(e), p) for e, p in F.conds(st_, stop=loop) if not is_seen(e, p, child, st_)}
        return bool(inloop) and all(extra_ <= {(hr.key(e), p) for e, p in F.conds(c_, stop=loop)} for c_ in inloop)
    if len(gm) >= 1 and len(gm) == len(marks):
        ctx.ok("C10-B1", site, "child marked seen")
    elif marks and all(fm[2] is True for st, fm in marks) and all(discards_pair(st) for st, fm in marks):
        ctx.ok("C10-B1", site, "child marked seen whenever the pair is not dropped")
    elif marks and all(fm[2] is True for st, fm in marks):
        ctx.undecided("C10-B1", site, "the popped element is marked under a condition the rule does not recognise", "")
    elif not marks and ([n_ for n_ in au.walk(loop) if isinstance(n_, ast.Name) and n_.id == SEEN and isinstance(n_.ctx, ast.Store)] or
                        [c_ for c_ in au.calls(loop) if isinstance(c_.func, ast.Attribute) and isinstance(c_.func.value, ast.Name)
                         and F.root(c_.func.value.id, c_) == F.root(SEEN, c_) and c_.func.attr not in ("get", "keys", "values", "items", "copy", "index", "count")]):
        ctx.undecided("C10-B1", site, "the seen table is changed in the loop in a way the rule does not follow (re-binding, list append ..)", "")
    elif not marks and (F.opaque(loop, {SEEN, child}) or [st for st, tg_, v_ in hr.item_stores(loop) if isinstance(tg_.value, ast.Name)
                                                        and F.root(tg_.value.id, st) == F.root(SEEN, st)]
                        or [c_ for c_ in au.calls(loop) if isinstance(c_.func, ast.Attribute) and isinstance(c_.func.value, ast.Name)
                            and F.root(c_.func.value.id, c_) == F.root(SEEN, c_) and c_.func.attr in ("add", "update")]):
        ctx.undecided("C10-B1", site, "the mark of the popped element is not visible (the elements are marked elsewhere)", "")
    else:
        ctx.fail("C10-B1", site, "`seen[child] = True` is missing or conditional after the seen test",
                 "without the mark the guards `not seen[..]` never close: the search does not terminate on a mesh with a cycle")
    pas = [(st, tg, val) for st, tg, val in hr.item_stores(loop) if au.is_self_attr(tg.value, "parent")]
    DIST = None
    prop_tabs = {m_.name for cn_ in [ctx.repo.cls(modname, cname)] + [ctx.repo.cls(BASE, "SpanningTree")] for m_ in cn_.body
                 if isinstance(m_, ast.FunctionDef) and any(au.src(d_) == "property" for d_ in m_.decorator_list)}
    if not pas and "parent" in prop_tabs:
        ctx.undecided("C10-B1", site, "self.parent is a property of the class: how the search fills it is not followed", "")
        pas = []
    elif not pas:
        published = [st_ for st_ in au.stmts(fn.body) if isinstance(st_, (ast.Assign, ast.AnnAssign, ast.AugAssign))
                     and any(au.is_self_attr(t_, "parent") or (isinstance(t_, ast.Subscript) and au.is_self_attr(_tab_base(t_), "parent")) for t_ in au.assign_targets(st_))]
        if F.opaque(loop, {child, par}) or published:
            ctx.undecided("C10-B1", site, "the parent assignment of the search is not visible", "")
        else:
            ctx.fail("C10-B1", site, "parent table is not written exactly once per popped pair as parent[child] = expanded element",
                     "no store to self.parent in the search loop")
    for st, tg, val in pas:
        ok_store = isinstance(tg.slice, ast.Name) and tg.slice.id == child and isinstance(val, ast.Name) and F.root(val.id, st) == par
        if not ok_store:
            if isinstance(tg.slice, ast.Name) and tg.slice.id == par and isinstance(val, ast.Name) and val.id == child:
                ctx.fail("C10-B1", S(st), "parent table is not written exactly once per popped pair as parent[child] = expanded element",
                         "the store is parent[expanded element] = child (the wrong way round)")
            else:
                ctx.undecided("C10-B1", S(st), "the store to self.parent in the search loop is not recognised", "")
            continue
        ctx.ok("C10-B1", S(st), "parent[child] = parent of the pair")
        conds = F.conds(st, stop=loop)
        has_test = any(is_seen(e, p, child, st) for e, p in conds)
        extra = [(e, p) for e, p in conds if not is_seen(e, p, child, st)]
        # conditions under which the whole pair is dropped (they also guard every expansion) are not guards of the parent store itself
        if inloop:
            common_ = set.intersection(*[{(hr.key(e), p) for e, p in F.conds(c_, stop=loop)} for c_ in inloop])
            extra = [(e, p) for e, p in extra if (hr.key(e), p) not in common_]
        has_dist = False
        if extra:
            okd = None
            if len(extra) == 1 and extra[0][1] and isinstance(extra[0][0], ast.Compare):
                g2s = _GetToSub(F)
                guard = g2s.visit(F.resolve(extra[0][0], st, keep=(par, child)))
                tabs = {n.value.id for n in au.walk(guard) if sk.is_sub(n)}
                if len(tabs) == 1:
                    DIST = tabs.pop()
                    try:
                        w = _cmp_dist(guard, DIST, par, child)
                    except order.Unsupported:
                        w = None
                    upd = [(s2, t2, v2) for s2, t2, v2 in hr.item_stores(loop) if isinstance(t2.value, ast.Name) and t2.value.id == DIST]
                    same_conds = [u for u in upd if {(hr.key(e), p) for e, p in F.conds(u[0], stop=loop)} == {(hr.key(e), p) for e, p in conds}]
                    mentions_both = any(sk.is_sub(n_, DIST, par) for n_ in au.walk(guard)) and any(sk.is_sub(n_, DIST, child) for n_ in au.walk(guard))
                    if w is None or not mentions_both:
                        okd = None              # a test on one distance only (a sentinel value ..) is another scheme
                    elif not w and _holds_for_unreached(guard, DIST, par, child):
                        okd = None              # another comparison that is true for an unreached child
                    elif not w:
                        okd = False
                    else:
                        okd = len(upd) == 1 and len(same_conds) == 1 and sk.is_sub(upd[0][1], DIST, child) and upd[0][2] is not None \
                            and _is_plus_one(F.resolve(upd[0][2], upd[0][0], keep=(par, child)), DIST, par)
                        if not okd and upd:
                            okd = None          # the table is updated, but not in the form / at the place the rule reads
                        ivals, found = F.initial_values(DIST, loop)
                        inf_init = any(F.is_inf(x) or (isinstance(order.fold_const(x), (int, float)) and order.fold_const(x) >= 1e9) for x in ivals) or DIST in g2s.tables
                        if okd and not inf_init:
                            # contradicted only by a table whose whole initial content is a recognised finite constant
                            okd = False if found and ivals and all(isinstance(x, ast.Constant) and isinstance(x.value, (int, float))
                                                                   and not isinstance(x.value, bool) for x in ivals) else None
                        elif not okd and not upd and F.opaque(loop, {DIST, child, par}):
                            okd = None
                    has_dist = bool(okd)
            if okd is True:
                ctx.ok("C10-B1", S(st), "hop-distance guard is vacuous on first visit")
            elif okd is False:
                ctx.fail("C10-B1", S(st), "parent assignment is guarded by something other than `dist[parent] + 1 < dist[child]` on a +inf-initialised table "
                         "updated under the same test", "on first visit the child must always receive its parent")
            else:
                ctx.undecided("C10-B1", S(st), "the parent assignment has a guard the rule does not recognise", "")
                continue
        push_marks = [s_ for s_ in au.stmts(fn.body) if (fm_ := hr.flag_mark(s_)) and isinstance(fm_[1], ast.Name) and fm_[1].id not in pair
                      and not au.is_self_attr(F.resolve(fm_[1], s_), "root") and F.inside(s_, loop)]
        if has_test or has_dist:
            ctx.ok("C10-B1", S(st), "parent assigned once: seen test / distance guard")
        elif push_marks:
            ctx.undecided("C10-B1", S(st), "elements are marked when they are enqueued: the protection of the parent assignment is not analysed", "")
        elif conds:
            ctx.undecided("C10-B1", S(st), "the parent assignment is under a condition the rule does not recognise", "")
        else:
            _absent(ctx, F, loop, "C10-B1", S(st), "parent assignment is protected neither by `if seen[child]: continue` nor by a hop-distance comparison",
                    "an element reachable along two routes is queued twice: the later (never shorter) route overwrites its parent - the tree "
                    "no longer gives minimum hop distances and parent may contain a cycle")
    # expansion of the child
    exp = [c for c in inloop if (t_ := _pair_arg(F, c)) is not None and isinstance(t_.elts[pi], ast.Name) and F.root(t_.elts[pi].id, c) == child]
    if exp:
        ctx.ok("C10-B1", site, "child expanded after marking")
    elif F.opaque(loop, {child, Q}) or any(_pair_arg(F, c) is None for c in inloop) or _other_queue_uses(F, Q):
        ctx.undecided("C10-B1", site, "the expansion of the popped element is not visible", "")
    else:
        ctx.fail("C10-B1", site, "newly reached child is not expanded (its neighbours are not enqueued)", "the tree stops at depth 1")
    # root: marked seen + expanded before the loop
    def _is_root(e_, at_):
        r_ = F.resolve(e_, at_)
        while isinstance(r_, ast.Call) and au.call_tail(r_) in ("int", "index") and len(r_.args) == 1:
            r_ = r_.args[0]
        return au.is_self_attr(r_, "root")
    root_seen = [st for st in au.stmts(fn.body) if F.before(st, loop) and (fm := hr.flag_mark(st)) and isinstance(fm[0], ast.Name)
                 and F.root(fm[0].id, st) == F.root(SEEN, loop) and _is_root(fm[1], st) and fm[2] is True]
    sd = F.definition(SEEN, loop)
    plain_false = (isinstance(sd, ast.ListComp) and isinstance(sd.elt, ast.Constant) and sd.elt.value is False) or \
        (isinstance(sd, ast.BinOp) and isinstance(sd.op, ast.Mult) and any(isinstance(x, ast.List) and len(x.elts) == 1 and au.const(x.elts[0]) is False for x in (sd.left, sd.right))) or \
        (isinstance(sd, ast.Call) and au.call_tail(sd) == "set" and not sd.args)
    root_queued = [c_ for c_ in pre if (t_ := _pair_arg(F, c_)) is not None and (au.is_self_attr(F.resolve(t_.elts[ci], c_), "root") or au.is_self_attr(t_.elts[ci], "root"))]
    if root_seen:
        ctx.ok("C10-B1", site, "seen[root] = True")
    elif root_queued:
        ctx.undecided("C10-B1", site, "the root itself is queued as a child (sentinel pair): it is marked when it is popped", "")
    elif sd is not None and any(au.is_self_attr(n, "root") for n in ast.walk(sd)):
        ctx.ok("C10-B1", site, "the seen table is created with the root marked")
    elif F.opaque(fn, {SEEN}) or not plain_false or \
            [st_ for st_ in au.stmts(fn.body) if F.before(st_, loop) and not isinstance(st_, (ast.For, ast.While, ast.If)) and
             any(isinstance(n_, ast.Name) and F.root(n_.id, st_) == F.root(SEEN, loop) for n_ in ast.walk(st_)) and
             any(au.is_self_attr(n_, "root") or (isinstance(n_, ast.Name) and au.is_self_attr(F.resolve(n_, st_), "root")) for n_ in ast.walk(st_))]:
        ctx.undecided("C10-B1", site, "the mark of the root is not visible", "")
    else:
        ctx.fail("C10-B1", site, "root is not marked seen before the loop",
                 "a neighbour of the root enqueues (neighbour, root): the root gets a parent, parent/children contain a cycle and traverse never ends")
    root_exp = [c for c in pre if (t_ := _pair_arg(F, c)) is not None and au.is_self_attr(F.resolve(t_.elts[pi], c), "root")]
    if root_exp:
        ctx.ok("C10-B1", site, "root expanded")
    elif pre or F.opaque(fn, {Q}) or _other_queue_uses(F, Q) or \
            [c_ for c_ in inloop if (t_ := _pair_arg(F, c_)) is not None and (au.is_self_attr(F.resolve(t_.elts[pi], c_), "root") or au.is_self_attr(t_.elts[pi], "root"))]:
        ctx.undecided("C10-B1", site, "the seeding of the work-list is not recognised", "")
    else:
        ctx.fail("C10-B1", site, "neighbours of the root are not enqueued before the loop", "the tree stays empty")
    ivals, found = F.initial_values(SEEN, loop)
    if isinstance(sd, ast.Dict):
        ivals = [v_ for k_, v_ in zip(sd.keys, sd.values) if not (k_ is not None and (au.is_self_attr(k_, "root") or au.is_self_attr(F.resolve(k_, loop), "root")))]
    if any(isinstance(x, ast.Constant) and x.value is True for x in ivals):
        ctx.fail("C10-B1", site, "seen table does not start all-False", "")
    elif any(isinstance(n, ast.Constant) and n.value is True for x in ivals for n in ast.walk(x)):
        ctx.undecided("C10-B1", site, "the initial content of the seen table is not recognised", "")
    else:
        ctx.ok("C10-B1", site, "seen starts False")
    if DIST is not None:
        rd = [st for st, tg, val in hr.item_stores(fn) if F.before(st, loop) and isinstance(tg.value, ast.Name) and tg.value.id == DIST
              and au.is_self_attr(F.resolve(tg.slice, st), "root") and val is not None and au.const(val) == 0]
        dd = F.definition(DIST, loop)
        in_literal = isinstance(dd, ast.Dict) and any(k is not None and au.is_self_attr(k, "root") and au.const(v_) == 0 for k, v_ in zip(dd.keys, dd.values))
        # `[0 if v == self.root else inf for v in ids]` : the root entry is part of the constructor
        in_ctor = dd is not None and any(isinstance(n_, ast.IfExp) and any(au.is_self_attr(F.resolve(m_, loop), "root") or au.is_self_attr(m_, "root") for m_ in ast.walk(n_.test))
                                         and any(au.const(x_) == 0 and not isinstance(au.const(x_), bool) for x_ in (n_.body, n_.orelse)) for n_ in ast.walk(dd))
        root_elsewhere = [n_ for n_ in au.walk(fn) if isinstance(n_, ast.Subscript) and isinstance(n_.value, ast.Name) and F.root(n_.value.id, n_) == F.root(DIST, loop)
                          and isinstance(n_.ctx, ast.Store) and not isinstance(n_.slice, ast.Slice) and not F.inside(n_, loop)] + \
            [n_ for n_ in (ast.walk(dd) if dd is not None else []) if au.is_self_attr(n_, "root")] + \
            [c_ for c_ in au.calls(fn) if isinstance(c_.func, ast.Attribute) and isinstance(c_.func.value, ast.Name) and F.root(c_.func.value.id, c_) == F.root(DIST, loop)
             and c_.func.attr in ("update", "setdefault", "__setitem__", "insert")]
        if rd or in_literal or in_ctor:
            ctx.ok("C10-B1", site, "dist[root] = 0")
        elif isinstance(dd, (ast.ListComp, ast.BinOp)) and not F.opaque(fn, {DIST}) and not root_elsewhere:
            ctx.fail("C10-B1", site, "hop distance of the root is not set to 0 before the loop", "inf + 1 < inf is False: no element ever receives a parent")
        else:
            ctx.undecided("C10-B1", site, "the hop distance given to the root is not recognised", "")
    # ---- P1
    p1_children(ctx, modname, cname, fn0, F, kind, loop, DIST, par, child, SEEN)
    _s1_compute_tables(ctx, modname, cname, fn0, F, kind, loop, [SEEN] + ([DIST] if DIST else []))


class _GetToSub(ast.NodeTransformer):
    """`D.get(k, <+inf>)` written `D[k]` (a missing key behaves as an infinite entry)"""

    def __init__(self, F):
        self.F = F
        self.tables = set()

    def visit_Call(self, n):
        self.generic_visit(n)
        if isinstance(n.func, ast.Attribute) and n.func.attr == "get" and isinstance(n.func.value, ast.Name) and len(n.args) == 2 and self.F.is_inf(n.args[1]):
            self.tables.add(n.func.value.id)
            return ast.copy_location(ast.Subscript(value=n.func.value, slice=n.args[0], ctx=ast.Load()), n)
        return n


def _pair_arg(F, c):
    """the (a, b) tuple enqueued by call c (directly, or through a local name bound to it just before)"""
    t = c.args[0]
    if isinstance(t, ast.Name):
        d = F.b.reaching(t.id, c)
        if isinstance(d, ast.Tuple):
            t = d
    if isinstance(t, ast.Tuple) and len(t.elts) == 2:
        return t
    return None


def _zip_pair(fors, a, b_, clo):
    """are names a and b_ co-targets of one `for .. in zip(q1(..), q2(..))`?  'not-aligned' | 'zip' | None"""
    for f_ in fors:
        if isinstance(f_.iter, ast.Call) and au.call_tail(f_.iter) == "zip" and len(f_.iter.args) == 2 and isinstance(f_.target, ast.Tuple) \
                and len(f_.target.elts) == 2:
            ta, tb = (set(au.assigned_names(x)) for x in f_.target.elts)
            if (a in ta and (b_ in tb or clo & tb)) or (a in tb and (b_ in ta or clo & ta)):
                def tail(x):
                    if isinstance(x, ast.Call):
                        return au.call_tail(x)
                    return None
                qa, qb = f_.iter.args
                # resolve names bound to a query just before
                b = None
                ts = []
                for q in (qa, qb):
                    t = tail(q)
                    if t is None and isinstance(q, ast.Name):
                        for st in au.stmts(au.enclosing_func(f_).body if au.enclosing_func(f_) else []):
                            for nm, v in sym.split_assign(st):
                                if nm == q.id and isinstance(v, ast.Call):
                                    t = au.call_tail(v)
                    ts.append(t)
                if tuple(ts) in NOT_ALIGNED:
                    return "not-aligned"
                return "zip"
    return None


def _cmp_dist(e, DIST, par, child):
    """is `e` equivalent to dist[par] + 1 < dist[child] (or <=)?  decided on the integer points p, c in 0..3"""
    def val(x, p, c):
        if sk.is_sub(x, DIST, par):
            return p
        if sk.is_sub(x, DIST, child):
            return c
        k = order.fold_const(x)
        if k is not None:
            return k
        if isinstance(x, ast.BinOp) and isinstance(x.op, (ast.Add, ast.Sub)):
            l, r = val(x.left, p, c), val(x.right, p, c)
            return l + r if isinstance(x.op, ast.Add) else l - r
        raise order.Unsupported(au.src(x))
    if not (isinstance(e, ast.Compare) and len(e.ops) == 1 and type(e.ops[0]) in order.CMP):
        raise order.Unsupported(au.src(e))
    strict = nonstrict = True
    for p in range(4):
        for c in range(6):
            got = order.CMP[type(e.ops[0])](val(e.left, p, c), val(e.comparators[0], p, c))
            strict = strict and got == (p + 1 < c)
            nonstrict = nonstrict and got == (p + 1 <= c)
    return strict or nonstrict


def _holds_for_unreached(e, DIST, par, child):
    """the comparison is true when dist[child] is +inf and dist[par] is finite"""
    def val(x, c):
        if sk.is_sub(x, DIST, par):
            return 3
        if sk.is_sub(x, DIST, child):
            return c
        k = order.fold_const(x)
        if k is not None:
            return k
        if isinstance(x, ast.BinOp) and isinstance(x.op, (ast.Add, ast.Sub)):
            l, r = val(x.left, c), val(x.right, c)
            return l + r if isinstance(x.op, ast.Add) else l - r
        raise order.Unsupported(au.src(x))
    try:
        return bool(order.CMP[type(e.ops[0])](val(e.left, float("inf")), val(e.comparators[0], float("inf"))))
    except Exception:
        return False


def _is_plus_one(e, DIST, par):
    if e is None:
        return False
    terms = hr.add_terms(e)
    return len(terms) == 2 and any(sk.is_sub(t, DIST, par) for t in terms) and any(au.const(t) == 1 for t in terms)


# ----------------------------------------------------------------------- element loops
def _element_loop(F, lp, kind):
    """(element variable, name holding parent[element] or None, kind found) when `lp` ranges over every element id of some kind:
    for v in self.mesh.id_K | range(len(self.mesh.K)) | range(len(self.parent)) | range(n) with n = len(..) ; for v, p in enumerate(self.parent)"""
    it, tg = lp.iter, lp.target
    if isinstance(it, ast.Call) and au.call_tail(it) == "enumerate" and len(it.args) == 1 and au.is_self_attr(it.args[0], "parent") \
            and isinstance(tg, ast.Tuple) and len(tg.elts) == 2 and all(isinstance(x, ast.Name) for x in tg.elts):
        return tg.elts[0].id, tg.elts[1].id, "parent"
    if isinstance(it, ast.Call) and au.call_tail(it) == "zip" and len(it.args) == 2 and au.is_self_attr(it.args[1], "parent") \
            and isinstance(tg, ast.Tuple) and len(tg.elts) == 2 and all(isinstance(x, ast.Name) for x in tg.elts):
        k = _kind_of_range(F, it.args[0], lp)
        if k is not None:
            return tg.elts[0].id, tg.elts[1].id, k
    if not isinstance(tg, ast.Name):
        return None
    k = _kind_of_range(F, it, lp)
    if k is None:
        return None
    return tg.id, None, k


def _filtered_ids(F, lp):
    """`for v in L` where L = [x for x in <all ids> if c1 if c2 ..] : (comprehension, its variable) or None"""
    it = lp.iter
    if isinstance(it, ast.Name) and isinstance(lp.target, ast.Name):
        d = F.definition(it.id, lp)
        if isinstance(d, ast.ListComp) and len(d.generators) == 1 and isinstance(d.generators[0].target, ast.Name) \
                and au.src(d.elt) == d.generators[0].target.id:
            return d, d.generators[0].target.id
    return None


def _dist_tracks_parent(F, loop, D):
    """the table D gets `D[child] = D[parent] + 1` exactly where `parent[child] = parent` is stored, and D[root] = 0 before the loop
    (D is then finite / defined exactly for the root and the elements that have a parent): True | False | None"""
    pst = [(s2, t2, v2) for s2, t2, v2 in hr.item_stores(loop) if au.is_self_attr(t2.value, "parent")]
    if len(pst) != 1 or not isinstance(pst[0][2], ast.Name) or not isinstance(pst[0][1].slice, ast.Name):
        return None
    ch_, pa_ = pst[0][1].slice.id, pst[0][2].id
    pc = {(hr.key(x), q) for x, q in F.conds(pst[0][0], stop=loop)}
    upd = [(s2, t2, v2) for s2, t2, v2 in hr.item_stores(loop) if isinstance(t2.value, ast.Name) and t2.value.id == D]
    good = [u for u in upd if sk.is_sub(u[1], D, ch_) and u[2] is not None and _is_plus_one(F.resolve(u[2], u[0], keep=(ch_, pa_)), D, pa_)
            and {(hr.key(x), q) for x, q in F.conds(u[0], stop=loop)} == pc]
    rd = [s2 for s2, t2, v2 in hr.item_stores(F.fn) if F.before(s2, loop) and isinstance(t2.value, ast.Name) and t2.value.id == D
          and au.is_self_attr(F.resolve(t2.slice, s2), "root") and v2 is not None and au.const(v2) == 0]
    dd = F.definition(D, loop)
    in_literal = isinstance(dd, ast.Dict) and any(k is not None and au.is_self_attr(k, "root") and au.const(v_) == 0 for k, v_ in zip(dd.keys, dd.values))
    if good and (rd or in_literal) and len(upd) == len(good):
        return True
    if not upd and not F.opaque(loop, {D, ch_, pa_}):
        return False
    return None


def _kind_of_range(F, it, at):
    """element kind of an iterable over all ids: self.mesh.id_K -> K ; range(len(self.mesh.K)) -> K ; range(len(self.parent)) -> 'parent'"""
    if isinstance(it, ast.Attribute) and it.attr.startswith("id_") and au.src(it.value) == "self.mesh":
        return it.attr[3:]
    if isinstance(it, ast.Call) and au.call_tail(it) == "range" and len(it.args) == 1:
        n = F.b.resolve(it.args[0], at=at, keep=("self",))
        return _kind_of_len(n)
    return None


def _kind_of_len(n):
    if isinstance(n, ast.Call) and au.call_tail(n) == "len" and len(n.args) == 1:
        a = n.args[0]
        if isinstance(a, ast.Attribute) and au.src(a.value) == "self.mesh":
            return a.attr[3:] if a.attr.startswith("id_") else a.attr
        if au.is_self_attr(a, "parent") or au.is_self_attr(a, "children"):
            return "parent"
    return None


def p1_children(ctx, modname, cname, fn0, F, kind, loop, DIST, par_, child_, SEEN=None):
    fn = F.fn
    site = ctx.site(modname, fn0)
    b = F.b

    def S(node):
        return ctx.site(modname, fn0, node)
    ch = [c for c in au.calls(fn) if au.call_tail(c) == "append" and isinstance(c.func.value, ast.Subscript)
          and au.is_self_attr(c.func.value.value, "children") and len(c.args) == 1]
    ed = [c for c in au.calls(fn) if au.call_tail(c) == "append" and au.is_self_attr(c.func.value, "edges") and len(c.args) == 1]
    opaque = list(F.impure_self_calls(fn)) + list(F.opaque(fn))
    opaque = list(opaque) + [st for st in au.stmts(fn.body) if isinstance(st, (ast.Assign, ast.AugAssign, ast.AnnAssign))
                             and any(au.is_self_attr(t, "children") or au.is_self_attr(t, "edges") for t in au.assign_targets(st))]
    opaque += [c for c in au.calls(fn) if isinstance(c.func, ast.Attribute) and c.func.attr in ("extend", "insert", "update")
               and (au.is_self_attr(c.func.value, "edges") or au.is_self_attr(c.func.value, "children"))]
    props_ = {m_.name for cn_ in [ctx.repo.cls(modname, cname), ctx.repo.cls(BASE, "SpanningTree")] for m_ in cn_.body
              if isinstance(m_, ast.FunctionDef) and any(au.src(d_) == "property" for d_ in m_.decorator_list)}
    if {"edges", "children"} & props_:
        opaque = list(opaque) + [fn]
    known_nodes = {id(n_) for c_ in ch + ed for n_ in ast.walk(c_)}
    opaque += [n_ for n_ in au.walk(fn) if (au.is_self_attr(n_, "children") or au.is_self_attr(n_, "edges")) and id(n_) not in known_nodes]
    if len(ch) != 1 or len(ed) != 1:
        if (len(ch) == 0) != (len(ed) == 0) and len(ch) <= 1 and len(ed) <= 1 and not opaque:
            ctx.fail("C10-P1", site, "children / edges are not each filled by exactly one append",
                     f"{len(ch)} children[..].append, {len(ed)} edges.append: the two tables must be built together from the parent table")
        else:
            ctx.undecided("C10-P1", site, "the construction of children / edges from the parent table is not recognised",
                          f"{len(ch)} children[..].append, {len(ed)} edges.append")
        return
    c1, c2 = ch[0], ed[0]
    info = []
    for c in (c1, c2):
        fors = [a for a in au.ancestors(c) if isinstance(a, ast.For)]
        el = _element_loop(F, fors[0], kind) if fors else None
        if el is None and fors:
            fl = _filtered_ids(F, fors[0])
            if fl is not None:
                k_ = _kind_of_range(F, fl[0].generators[0].iter, fors[0])
                if k_ is not None:
                    el = (fors[0].target.id, None, k_)
        if el is None:
            ctx.undecided("C10-P1", S(c), "children / edges are not built in a loop over the element ids", "")
            return
        lp = fors[0]
        v, pname, k = el
        if k not in (kind, "parent"):
            ctx.fail("C10-P1", S(lp), f"children are not built over every id of self.mesh.id_{kind} after the search", f"the loop ranges over {k}")
            return
        if not F.before(loop, lp):
            ctx.undecided("C10-P1", S(lp), "children / edges are built before the search loop", "")
            return
        info.append((c, lp, v, pname))

    def norm_parent(e, v, pname, at):
        """expression with the parent of v written `self.parent[<v>]` and v written `_v`"""
        r = F.resolve(e, at, keep=(v,) + ((pname,) if pname else ()))
        m = {v: ast.Name(id="_v", ctx=ast.Load())}
        if pname:
            m[pname] = ast.parse("self.parent[_v]", mode="eval").body
        return sym.subst(r, m)
    (c1, lp1, v1, p1), (c2, lp2, v2, p2) = info
    pe = norm_parent(c1.func.value.slice, v1, p1, c1)
    okc = au.src(pe) == "self.parent[_v]" and au.src(norm_parent(c1.args[0], v1, p1, c1)) == "_v"
    if okc:
        ctx.ok("C10-P1", S(c1), "children[parent[v]].append(v)")
    elif au.src(pe) == "_v" and au.src(norm_parent(c1.args[0], v1, p1, c1)) == "self.parent[_v]":
        ctx.fail("C10-P1", S(c1), "children table is not filled as children[parent[v]].append(v)", "children[v].append(parent[v]): children must be the inverse of parent")
    else:
        ctx.undecided("C10-P1", S(c1), "the index / element of the children append is not recognised", "")
    k = c2.args[0]
    if isinstance(k, ast.Call) and au.call_tail(k) == "keyify" and len(k.args) == 2:
        got = sorted(au.src(norm_parent(a, v2, p2, c2)) for a in k.args)
        if got == sorted(["_v", "self.parent[_v]"]):
            ctx.ok("C10-P1", S(c2), "edges.append(keyify(parent[v], v))")
        elif got[0] == got[1]:
            ctx.fail("C10-P1", S(c2), "tree edge is not recorded as keyify(parent[v], v)", "both ends of the recorded edge are the same element")
        else:
            ctx.undecided("C10-P1", S(c2), "the recorded tree edge is not recognised as keyify(parent[v], v)", "")
    elif isinstance(k, (ast.Tuple, ast.List)) and len(k.elts) == 2:
        ctx.undecided("C10-P1", S(c2), "tree edge is recorded without keyify", "")
    else:
        ctx.undecided("C10-P1", S(c2), "the recorded tree edge is not recognised", "")
    # guards (those of a filtered id list `[v for v in ids if ..]` included)
    csets = []
    for c, lp, v, pname in info:
        atoms = []
        for e, p in sk.atoms(sk.path_conds(c, stop=lp)):
            atoms.append((norm_parent(e, v, pname, c), p))
        fl = _filtered_ids(F, lp)
        if fl is not None:
            comp, cv = fl
            for t_ in comp.generators[0].ifs:
                for e, p in sk.atoms([(t_, True)]):
                    atoms.append((sym.subst(e, {cv: ast.Name(id="_v", ctx=ast.Load())}), p))
        csets.append(atoms)

    def is_nn(e, p):
        x = _is_none_cmp(e)
        return x is not None and au.src(x) == "self.parent[_v]" and not p
    for (c, lp, v, pname), atoms in zip(info, csets):
        if any(is_nn(e, p) for e, p in atoms):
            ctx.ok("C10-P1", S(c), "guarded by parent[v] is not None")
        elif any(_is_none_cmp(e) is not None and au.src(_is_none_cmp(e)) == "self.parent[_v]" and p for e, p in atoms):
            ctx.fail("C10-P1", S(c), "children / edges block is guarded by `parent[v] is None` (inverted)", "")
        elif [1 for e, p in atoms if not (isinstance(e, ast.Call) and au.call_tail(e) == "isinf")
              and not (isinstance(e, ast.Compare) and len(e.ops) == 1 and isinstance(e.ops[0], (ast.Eq, ast.NotEq, ast.Lt))
                       and any(F.is_inf(x_) for x_ in [e.left] + list(e.comparators)))]:
            ctx.undecided("C10-P1", S(c), "the children / edges block is guarded by conditions the rule does not recognise", "")
        else:
            _absent(ctx, F, lp, "C10-P1", S(c), "children / edges block is not guarded by `parent[v] is not None`",
                    "the root and unreached elements have no parent: children[None] raises TypeError")
    k1 = {(au.src(e), p) for e, p in csets[0]}
    k2 = {(au.src(e), p) for e, p in csets[1]}
    if k1 == k2:
        ctx.ok("C10-P1", S(c1), "children and edges filled under the same conditions")
    elif lp1 is not lp2:
        ctx.undecided("C10-P1", S(c1), "children and edges are filled by two loops whose conditions are written differently", "")
    else:
        _absent(ctx, F, [lp1, lp2], "C10-P1", S(c1), "children[p].append(v) and edges.append(keyify(p, v)) are not executed under the same conditions",
                "an element listed as a child without its tree edge (or the reverse): len(edges) != number of reached elements - 1")
    for (c, lp, v, pname), atoms in zip(info[:1], csets[:1]):
        others = [(e, p) for e, p in atoms if not is_nn(e, p)]
        for e, p in others:
            # `flags is None or flags[v]` with flags bound to a table: the first disjunct is never true
            if isinstance(e, ast.BoolOp) and isinstance(e.op, ast.Or) and p:
                keep_ = [x for x in e.values if not (_is_none_cmp(x) is not None and isinstance(_is_none_cmp(x), ast.Name)
                                                     and isinstance(F.definition(_is_none_cmp(x).id, lp), (ast.List, ast.ListComp, ast.BinOp, ast.Dict, ast.DictComp, ast.Call)))]
                if len(keep_) == 1:
                    e = keep_[0]
            # accepted: the flag table of the search itself (an element with a parent was popped, hence marked)
            ft_ = hr.flag_test(e, p)
            if SEEN is not None and ft_ and isinstance(ft_[0], ast.Name) and F.root(ft_[0].id, lp) == F.root(SEEN, lp) and au.src(ft_[1]) == "_v" and ft_[2] is True:
                marks_ok = [st for st in au.stmts(loop.body) if (fm_ := hr.flag_mark(st)) and isinstance(fm_[0], ast.Name) and F.root(fm_[0].id, st) == F.root(SEEN, st)
                            and isinstance(fm_[1], ast.Name) and fm_[1].id == child_ and fm_[2] is True]
                if marks_ok:
                    ctx.ok("C10-P1", S(c), "unreached elements skipped on the flag table of the search")
                    continue
            # accepted: `if isinf(dist[v]): continue` / `v in dist` (a dictionary of the reached elements)
            D = None
            if isinstance(e, ast.Call) and au.call_tail(e) == "isinf" and len(e.args) == 1 and isinstance(e.args[0], ast.Subscript) \
                    and isinstance(e.args[0].value, ast.Name) and au.src(e.args[0].slice) == "_v" and not p:
                D = e.args[0].value.id
            elif isinstance(e, ast.Compare) and len(e.ops) == 1 and isinstance(e.ops[0], ast.Eq) and not p and isinstance(e.left, ast.Subscript) \
                    and isinstance(e.left.value, ast.Name) and au.src(e.left.slice) == "_v" and F.is_inf(e.comparators[0]):
                D = e.left.value.id               # dist[v] != inf
            elif isinstance(e, ast.Compare) and len(e.ops) == 1 and isinstance(e.ops[0], ast.Lt) and p and isinstance(e.left, ast.Subscript) \
                    and isinstance(e.left.value, ast.Name) and au.src(e.left.slice) == "_v" and F.is_inf(e.comparators[0]):
                D = e.left.value.id               # dist[v] < inf
            elif isinstance(e, ast.Subscript) and isinstance(e.value, ast.Name) and au.src(e.slice) == "_v" and not p \
                    and isinstance(F.definition(e.value.id, lp), ast.Call) and au.call_tail(F.definition(e.value.id, lp)) == "isinf" \
                    and isinstance(F.definition(e.value.id, lp).args[0], ast.Name):
                D = F.definition(e.value.id, lp).args[0].id        # unreached = isinf(dist) ; if unreached[v]: continue
            elif isinstance(e, ast.Compare) and len(e.ops) == 1 and isinstance(e.ops[0], ast.In) and au.src(e.left) == "_v" and isinstance(e.comparators[0], ast.Name) and p:
                D = e.comparators[0].id
                if not isinstance(F.definition(D, lp), (ast.Dict, ast.DictComp)):
                    D = None
            if D is not None:
                okd = _dist_tracks_parent(F, loop, D)
                if okd is True:
                    ctx.ok("C10-P1", S(c), "dist finite exactly for reached elements")
                elif okd is False:
                    ctx.fail("C10-P1", S(c), "elements are skipped on `isinf(dist[v])` but dist is not updated together with the parent table",
                             "`dist[child] = dist[parent] + 1` must sit next to `parent[child] = parent` (and dist[root] = 0): otherwise reached elements keep "
                             "an infinite distance and are left out of children / edges")
                else:
                    ctx.undecided("C10-P1", S(c), "elements are skipped on a distance test and how the distance follows the parent table is not recognised", "")
                continue
            ctx.undecided("C10-P1", S(c), "children / edges block has a guard the rule does not recognise", au.src(e)[:50])


def _s1_compute_tables(ctx, modname, cname, fn0, F, kind, loop, tables):
    """C10-S1 for the work tables of compute: seen / dist range over the element kind of the class"""
    for T in tables:
        d = F.definition(T, loop)
        if d is None:
            continue
        k = _table_kind(F, d, loop)
        if k is None:
            continue
        if k not in ("vertices", "edges", "faces", "cells", "parent"):
            ctx.undecided("C10-S1", ctx.site(modname, fn0, loop), f"{cname}.compute sizes a work table over something that is not an element kind", "")
            continue
        ctx.check(k in (kind, "parent"), "C10-S1", ctx.site(modname, fn0, loop), f"{cname}.compute sizes a work table over {k} instead of {kind}",
                  f"tables of one tree are all indexed by {kind} ids", note=f"work tables over {kind}")


def _table_kind(F, d, at):
    """element kind a list constructor ranges over: [x for _ in self.mesh.id_K], [x] * len(self.mesh.K), [.. for _ in range(n)]"""
    if isinstance(d, ast.ListComp) and len(d.generators) == 1:
        return _kind_of_range(F, d.generators[0].iter, at)
    if isinstance(d, ast.BinOp) and isinstance(d.op, ast.Mult):
        for side in (d.left, d.right):
            if not isinstance(side, ast.List):
                n = F.b.resolve(side, at=at, keep=("self",))
                return _kind_of_len(n)
    return None


# ----------------------------------------------------------------------- exclusion predicate of the vertex tree
def _avoid_atoms(e, a, b_):
    """atom name of a sub-expression of _avoid_edge / Kruskal's filter, or None"""
    x = _is_none_cmp(e)
    if x is not None and au.is_self_attr(x, "_avoidedges"):
        return "AE_none"
    if au.is_self_attr(e, "_avoidedges"):
        return ("AE_none", False)          # truthiness of the set itself: treated as `is not None` (an empty set excludes nothing either way)
    if isinstance(e, ast.Compare) and len(e.ops) == 1 and isinstance(e.ops[0], ast.In) and au.is_self_attr(e.comparators[0], "_avoidedges") \
            and isinstance(e.left, ast.Call) and au.call_tail(e.left) == "edge_id" \
            and sorted(au.src(x) for x in e.left.args) == sorted([a, b_]):
        return "IN"
    if au.is_self_attr(e, "_avoidbound"):
        return "AB"
    if isinstance(e, ast.Call) and au.call_tail(e) == "isinstance" and len(e.args) == 2 and au.src(e.args[0]) == "self.mesh" \
            and au.src(e.args[1]) == "PolyLine":
        return "PL"
    if isinstance(e, ast.Call) and au.call_tail(e) == "is_edge_on_border" and sorted(au.src(x) for x in e.args) == sorted([a, b_]):
        return "BORDER"
    return None


class _Unknown(Exception):
    pass


def _eval_bool(e, env, a, b_):
    if isinstance(e, ast.Compare) and len(e.ops) == 1 and isinstance(e.ops[0], (ast.IsNot, ast.NotIn, ast.NotEq)):
        pos = {ast.IsNot: ast.Is, ast.NotIn: ast.In, ast.NotEq: ast.Eq}[type(e.ops[0])]()
        return not _eval_bool(ast.Compare(left=e.left, ops=[pos], comparators=e.comparators), env, a, b_)
    if isinstance(e, ast.Compare) and len(e.ops) == 1 and isinstance(e.ops[0], (ast.Is, ast.Eq)) and isinstance(e.comparators[0], ast.Constant) \
            and isinstance(e.comparators[0].value, bool):
        v = _eval_bool(e.left, env, a, b_)
        return v == e.comparators[0].value
    if isinstance(e, ast.BoolOp):
        vals = [_eval_bool(v, env, a, b_) for v in e.values]
        return all(vals) if isinstance(e.op, ast.And) else any(vals)
    if isinstance(e, ast.UnaryOp) and isinstance(e.op, ast.Not):
        return not _eval_bool(e.operand, env, a, b_)
    if isinstance(e, ast.Constant) and isinstance(e.value, bool):
        return e.value
    if isinstance(e, ast.IfExp):
        return _eval_bool(e.body, env, a, b_) if _eval_bool(e.test, env, a, b_) else _eval_bool(e.orelse, env, a, b_)
    if isinstance(e, ast.Call) and au.call_tail(e) == "bool" and len(e.args) == 1 and not e.keywords:
        return _eval_bool(e.args[0], env, a, b_)
    k = _avoid_atoms(e, a, b_)
    if k is None:
        raise _Unknown(au.src(e)[:60])
    if isinstance(k, tuple):
        return env[k[0]] == k[1]
    return env[k]


def _switches_are_plain(ctx):
    """EdgeSpanningTree.__init__ stores its arguments avoid_boundary / avoid_edges unchanged in self._avoidbound / self._avoidedges (a constructor that
    folds another condition into them - `avoid_boundary and not polyline` - changes what the later tests mean)"""
    try:
        init = ctx.repo.func(EDGE, "EdgeSpanningTree.__init__")
    except Exception:
        return False
    ps = set(au.params(init, skip_self=True))
    seen_ = 0
    for st in au.stmts(init.body):
        if isinstance(st, (ast.Assign, ast.AnnAssign)) and st.value is not None:
            for t in au.assign_targets(st):
                if au.is_self_attr(t) and t.attr in ("_avoidbound", "_avoidedges"):
                    seen_ += 1
                    if not (isinstance(st.value, ast.Name) and st.value.id in ps):
                        return False
    return seen_ >= 2


def _vertex_flag_tables(ctx):
    """names of the attributes `self.T` of the edge-tree classes filled with one `is_vertex_on_border(v)` per vertex (a cached per-vertex border flag)"""
    out = set()
    try:
        mod = ctx.repo.module(EDGE)
    except Exception:
        return out
    for q, f in mod.funcs.items():
        for st in au.stmts(f.body):
            if isinstance(st, (ast.Assign, ast.AnnAssign)) and st.value is not None:
                v = st.value
                per_vertex = (isinstance(v, (ast.ListComp, ast.DictComp)) and
                              any(isinstance(c_, ast.Call) and au.call_tail(c_) == "is_vertex_on_border"
                                  for c_ in ast.walk(v.elt if isinstance(v, ast.ListComp) else v.value)))
                if per_vertex:
                    for t in au.assign_targets(st):
                        if au.is_self_attr(t):
                            out.add(t.attr)
    return out


def _vertex_border_test(fn, ctx=None, _depth=0):
    """`is_vertex_on_border(x) and is_vertex_on_border(y)` used where the border status of the edge (x, y) is meant: the conjunction node, or None.
    With ctx: cached per-vertex flags `self.T[x] and self.T[y]` count as well, private helpers `self._h(..)` called by fn are followed, and the
    conjunction only counts when neither fn nor the helper consults is_edge_on_border (a per-vertex pre-filter in front of the edge test is exact)."""
    tables = _vertex_flag_tables(ctx) if ctx is not None else set()

    def vflag(v):
        if isinstance(v, ast.Call) and au.call_tail(v) == "is_vertex_on_border" and len(v.args) == 1:
            return au.src(v.args[0])
        if isinstance(v, ast.Subscript) and au.is_self_attr(v.value) and v.value.attr in tables:
            return au.src(v.slice)
        return None
    for n in au.walk(fn):
        if isinstance(n, ast.BoolOp) and isinstance(n.op, ast.And):
            vs = [vflag(v) for v in n.values if vflag(v) is not None]
            if len(vs) >= 2 and len(set(vs)) >= 2:
                if ctx is not None and any(au.call_tail(c_) == "is_edge_on_border" for c_ in au.calls(fn)):
                    return None
                return n
    if ctx is not None and _depth < 2:
        for c_ in au.calls(fn):
            if isinstance(c_.func, ast.Attribute) and isinstance(c_.func.value, ast.Name) and c_.func.value.id == "self" and c_.func.attr.startswith("_"):
                for cn in ("EdgeMinimalSpanningTree", "EdgeSpanningTree"):
                    if ctx.repo.has_func(EDGE, cn + "." + c_.func.attr):
                        if any(au.call_tail(x_) == "is_edge_on_border" for x_ in au.calls(fn)):
                            return None
                        r = _vertex_border_test(ctx.repo.func(EDGE, cn + "." + c_.func.attr), ctx, _depth + 1)
                        if r is not None:
                            return r
                        break
    return None


def avoid_edge_predicate(ctx):
    """avoid(a, b) == (avoid_edges given and edge in it) or (avoid_boundary and not a polyline and edge on border)"""
    fn0 = ctx.repo.func(EDGE, "EdgeSpanningTree._avoid_edge")
    F = _flat(ctx, EDGE, fn0)
    site = ctx.site(EDGE, fn0)
    ps = au.params(fn0, skip_self=True)
    if len(ps) != 2:
        ctx.undecided("C10-X1", site, "_avoid_edge does not take the two endpoints", "")
        return
    a, b_ = ps
    try:
        f = order.return_formula(hf_flat.strip_doc(F.fn.body))
    except order.Unsupported as ex:
        ctx.undecided("C10-X1", site, "_avoid_edge is not an if/return chain the rule can tabulate", "")
        return

    def evf(f, env):
        if f[0] == "ite":
            return evf(f[2], env) if _eval_bool(f[1], env, a, b_) else evf(f[3], env)
        if f[0] == "ret":
            return _eval_bool(f[1], env, a, b_) if f[1] is not None else False
        if f[0] == "raise":
            raise _Unknown("raise")
        return False
    bad = None
    n = 0
    try:
        for vals in itertools.product((False, True), repeat=5):
            env = dict(zip(("AE_none", "IN", "AB", "PL", "BORDER"), vals))
            if env["AE_none"] and env["IN"]:
                continue          # `edge in None` cannot be evaluated
            n += 1
            want = ((not env["AE_none"]) and env["IN"]) or (env["AB"] and not env["PL"] and env["BORDER"])
            if bool(evf(f, env)) != want:
                bad = bad or env
    except _Unknown as ex:
        vb = _vertex_border_test(F.fn)
        if vb is None:
            vb = _vertex_border_test(fn0, ctx)
        if vb is not None:
            ctx.fail("C10-X1", ctx.site(EDGE, fn0, vb), "the border status of an edge is decided from the border status of its two end points",
                     "an interior edge whose end points both lie on the border (a chord of a thin strip, an ear) is taken for a border edge: with avoid_boundary "
                     "the tree refuses an admissible edge and no longer reaches every vertex it should")
            return
        ctx.undecided("C10-X1", site, "_avoid_edge contains a condition the rule does not know", str(ex))
        return
    if bad is not None and not _switches_are_plain(ctx):
        ctx.undecided("C10-X1", site, "the switches tested by _avoid_edge are not the plain constructor arguments", "")
        return
    ctx.check(bad is None, "C10-X1", site,
              "_avoid_edge is not `(avoid_edges given and edge in avoid_edges) or (avoid_boundary and not polyline and edge on border)`",
              f"differs from the specification for {bad}", note=f"{n} truth assignments")


# ----------------------------------------------------------------------- C10-C1
TREE_COMPUTES = [
    (EDGE, "EdgeSpanningTree"), (EDGE, "EdgeMinimalSpanningTree"), (FACE, "FaceSpanningTree"), (CELL, "CellSpanningTree"),
]


def _sets_flag_on_all_exits(ctx, modname, cname, fn, depth=0):
    """(ok, offending exits) : `self._computed = True` (directly, or through super().compute() that does) on every normal exit"""
    repo = ctx.repo
    mod = repo.module(modname)
    cls = repo.cls(modname, cname)
    F = _flat(ctx, modname, fn)

    def super_sets():
        if depth > 4:
            return False
        for bm, bc in repo.class_bases(mod, cls):
            ms = repo.methods(bm, bc)
            if "compute" in ms:
                m2, f2, owner = ms["compute"]
                return _sets_flag_on_all_exits(ctx, m2.name, owner._qualname, f2, depth + 1)[0]
        return False

    def t_stmt(state, st):
        for n in au.walk(st):
            if isinstance(n, ast.Call) and isinstance(n.func, ast.Attribute) and n.func.attr == "compute" \
                    and isinstance(n.func.value, ast.Call) and au.call_tail(n.func.value) == "super":
                if super_sets():
                    state = state | {"computed"}
            # Base.compute(self): an explicit call of the method of a named class of the tree modules
            if isinstance(n, ast.Call) and isinstance(n.func, ast.Attribute) and n.func.attr == "compute" and isinstance(n.func.value, ast.Name) \
                    and n.args and isinstance(n.args[0], ast.Name) and n.args[0].id == "self" and depth <= 4:
                for mn_ in (BASE, EDGE, FACE, CELL):
                    m_ = repo.module(mn_)
                    if n.func.value.id in m_.classes and (n.func.value.id + ".compute") in m_.funcs:
                        if _sets_flag_on_all_exits(ctx, mn_, n.func.value.id, m_.funcs[n.func.value.id + ".compute"], depth + 1)[0]:
                            state = state | {"computed"}
        if isinstance(st, (ast.Assign, ast.AnnAssign)):
            for t in au.assign_targets(st):
                if au.is_self_attr(t, "_computed"):
                    state = (state | {"computed"}) if au.const(st.value) is True else (state - {"computed"})
        return state

    def refine(state, e, branch):
        # on the branch where the flag tests true it is set
        for x, p in sk.atoms([(e, branch)]):
            if au.is_self_attr(x, "_computed") and p:
                return state | {"computed"}
        return state
    fl = flow.Flow(t_stmt, None, refine)
    fl.run(F.fn.body, frozenset())
    bad = [(k, n) for k, n, s in fl.exits if k in ("return", "fall") and "computed" not in s]
    return (not bad and bool([e for e in fl.exits if e[0] in ("return", "fall")])), bad


def F_before_(fn, a, b):
    """node a comes before statement b in the text of fn"""
    order_ = {id(x): i for i, x in enumerate(au.stmts(fn.body))}
    sa = au.enclosing_stmt(a) if not isinstance(a, ast.stmt) else a
    return sa is not None and id(sa) in order_ and id(b) in order_ and order_[id(sa)] < order_[id(b)]


def c1_computed(ctx):
    repo = ctx.repo
    if not any(isinstance(n_, ast.Attribute) and n_.attr == "_computed" for mn_ in (BASE, EDGE, FACE, CELL) for n_ in ast.walk(repo.module(mn_).tree)):
        ctx.undecided("C10-C1", ctx.site(BASE, "SpanningTree"), "the flag `_computed` of the spanning trees is not found (renamed?)", "")
        return
    for modname, cname in TREE_COMPUTES:
        fn = repo.func(modname, cname + ".compute")
        ok, bad = _sets_flag_on_all_exits(ctx, modname, cname, fn)
        Fc = _flat(ctx, modname, fn)
        unseen = list(Fc.impure_self_calls(Fc.fn)) + [c_ for c_ in au.calls(Fc.fn) if isinstance(c_.func, ast.Attribute) and isinstance(c_.func.value, ast.Name)
                                                      and c_.func.value.id == "self" and not hf_flat.is_private(c_.func.attr)
                                                      and c_.func.attr not in Fc.KNOWN_METHODS and repo.has_func(modname, cname + "." + c_.func.attr)]
        unseen += [c_ for c_ in au.calls(Fc.fn) if isinstance(c_.func, ast.Attribute) and c_.func.attr in ("setattr", "__setattr__")]
        unseen += [c_ for c_ in au.calls(Fc.fn) if isinstance(c_.func, ast.Attribute) and isinstance(c_.func.value, ast.Name) and c_.func.value.id == "self"
                   and c_.func.attr not in ("compute",) and Fc._own_method(c_.func.attr) and not hf_flat.is_private(c_.func.attr)]
        # the chain of super().compute() ends in a base method that does not assign the flag itself but calls a method / sets a property
        base_fn = repo.func(BASE, "SpanningTree.compute") if repo.has_func(BASE, "SpanningTree.compute") else None
        if base_fn is not None and not any(isinstance(st_, (ast.Assign, ast.AnnAssign)) and any(au.is_self_attr(t_, "_computed") for t_ in au.assign_targets(st_))
                                           for st_ in au.stmts(base_fn.body)) and \
                ([c_ for c_ in au.calls(base_fn) if isinstance(c_.func, ast.Attribute) and isinstance(c_.func.value, ast.Name) and c_.func.value.id == "self"] or
                 [st_ for st_ in au.stmts(base_fn.body) if isinstance(st_, (ast.Assign, ast.AnnAssign)) and any(au.is_self_attr(t_) for t_ in au.assign_targets(st_))]):
            unseen.append(base_fn)
        unseen += [st_ for st_ in au.stmts(Fc.fn.body) if isinstance(st_, (ast.Assign, ast.AnnAssign)) and any(au.is_self_attr(t_) and "computed" in t_.attr and t_.attr != "_computed"
                                                                                                                 for t_ in au.assign_targets(st_))]
        unseen += [c_ for c_ in au.calls(Fc.fn) if isinstance(c_.func, ast.Name) and c_.func.id == "setattr"]
        unseen += [c_ for c_ in au.calls(Fc.fn) if any(isinstance(a_, ast.Name) and a_.id == "self" for a_ in list(c_.args) + [k_.value for k_ in c_.keywords])
                   and not (isinstance(c_.func, ast.Attribute) and c_.func.attr == "compute")]
        unseen += [d_ for d_ in fn.decorator_list if au.src(d_).rsplit(".", 1)[-1] not in ("abstractmethod", "override", "final")]
        if ok:
            ctx.ok("C10-C1", ctx.site(modname, fn), "_computed set on all normal exits")
        elif unseen:
            ctx.undecided("C10-C1", ctx.site(modname, fn), f"how {cname}.compute sets `_computed` is not visible", "")
        else:
            ctx.fail("C10-C1", ctx.site(modname, fn), f"{cname}.compute leaves `_computed` unset on a normal exit",
                     "traverse() then raises 'Tree was not computed' although compute() was called (forests call traverse right after compute)")
    # initial value and writers
    init0_ = repo.func(BASE, "SpanningTree.__init__")
    Fi_ = _flat(ctx, BASE, init0_)
    init = Fi_.fn
    w = [st for st in au.stmts(init.body) if isinstance(st, (ast.Assign, ast.AnnAssign)) and any(au.is_self_attr(t, "_computed") for t in au.assign_targets(st))]
    if len(w) == 1 and au.const(w[0].value) is False and not au.guards(w[0]):
        ctx.ok("C10-C1", ctx.site(BASE, init0_), "_computed = False in __init__")
    elif not w:
        # a class-level default also creates the flag
        cls = repo.cls(BASE, "SpanningTree")
        cl = [st for st in cls.body if isinstance(st, (ast.Assign, ast.AnnAssign)) and any(isinstance(t, ast.Name) and t.id == "_computed" for t in au.assign_targets(st))
              and st.value is not None and au.const(st.value) is False]
        if cl:
            ctx.ok("C10-C1", ctx.site(BASE, init0_), "_computed = False as class default")
        elif [b_ for b_ in cls.bases if au.src(b_).rsplit(".", 1)[-1] not in ("ABC", "object", "Generic")] or \
                [c_ for c_ in au.calls(init) if isinstance(c_.func, ast.Attribute) and isinstance(c_.func.value, ast.Call) and au.call_tail(c_.func.value) == "super"]:
            ctx.undecided("C10-C1", ctx.site(BASE, init0_), "`_computed` may be created by a base class of SpanningTree", "")
        elif Fi_.impure_self_calls(init) or [c_ for c_ in au.calls(init) if isinstance(c_.func, ast.Attribute) and isinstance(c_.func.value, ast.Name)
                                              and c_.func.value.id == "self" and repo.has_func(BASE, "SpanningTree." + c_.func.attr)] \
                or [c_ for c_ in au.calls(init) if au.call_tail(c_) in ("setattr", "__setattr__", "update")]:
            ctx.undecided("C10-C1", ctx.site(BASE, init0_), "how `_computed` is created by SpanningTree.__init__ is not visible", "")
        else:
            ctx.fail("C10-C1", ctx.site(BASE, init0_), "`_computed` is not initialised to False in SpanningTree.__init__",
                     "a fresh tree must refuse traversal (or: AttributeError in traverse when the flag is never created)")
    elif any(au.const(x.value) is True for x in w):
        ctx.fail("C10-C1", ctx.site(BASE, init0_), "`_computed` is not initialised to False in SpanningTree.__init__", "a fresh tree must refuse traversal")
    else:
        ctx.undecided("C10-C1", ctx.site(BASE, init0_), "the initialisation of `_computed` is not recognised", "")
    for modname in (BASE, EDGE, FACE, CELL):
        m = repo.module(modname)
        for q, f in m.funcs.items():
            for st in au.stmts(f.body):
                if isinstance(st, (ast.Assign, ast.AnnAssign)) and any(isinstance(t, ast.Attribute) and t.attr == "_computed" for t in au.assign_targets(st)):
                    if au.const(st.value) is True:
                        outer_ = q.split(".<locals>.")[0].rsplit(".", 1)[-1]
                        after_compute = any(isinstance(c_.func, ast.Attribute) and c_.func.attr == "compute" and F_before_(f, c_, st) for c_ in au.calls(f))
                        known_cls_ = {c_[1] for c_ in BFS_TREES} | {c_[1] for c_ in FORESTS} | {"SpanningTree", "SpanningForest", "EdgeMinimalSpanningTree"}
                        if q.split(".")[0] not in known_cls_:
                            ctx.undecided("C10-C1", ctx.site(modname, f, st), "`_computed = True` in a class the rule does not know", "")
                            continue
                        if f.name not in ("__init__", "traverse", "__call__", "edges", "compute", "build_tree_as_polyline") and not hf_flat.is_private(f.name) \
                                and outer_ not in ("compute",) and not after_compute:
                            ctx.undecided("C10-C1", ctx.site(modname, f, st), "`_computed = True` in a method the rule does not know", "")
                            continue
                        ctx.check(f.name == "compute" or hf_flat.is_private(f.name) or outer_ == "compute" or hf_flat.is_private(outer_) or after_compute,
                                  "C10-C1", ctx.site(modname, f, st),
                                  "`_computed = True` outside a compute method",
                                  "the flag would claim tables that were never built", note="flag set by compute only")
    # traverse tests the flag before touching the tables
    tr0 = repo.func(BASE, "SpanningTree.traverse")
    tr = _flat(ctx, BASE, tr0).fn
    site = ctx.site(BASE, tr0)
    uses = {}

    def scan(state, node):
        for x in au.walk(node):
            if isinstance(x, (ast.Yield, ast.YieldFrom)):
                uses[id(x)] = (x, "tested" in state)

    def t_stmt(state, st):
        if isinstance(st, flow._ForHead):
            scan(state, st.iter)
        else:
            scan(state, st)
        return state

    def t_test(state, e):
        scan(state, e)
        return state

    def refine(state, e, branch):
        for x, p in sk.atoms([(e, branch)]):
            if au.is_self_attr(x, "_computed") and p:
                return state | {"tested"}
            # getattr(self, "_computed", False)
            if isinstance(x, ast.Call) and au.call_tail(x) == "getattr" and len(x.args) >= 2 and isinstance(x.args[0], ast.Name) and x.args[0].id == "self" \
                    and au.const(x.args[1]) == "_computed" and p and (len(x.args) == 2 or au.const(x.args[2]) in (False, None, 0)):
                return state | {"tested"}
        return state
    flow.Flow(t_stmt, t_test, refine).run(tr.body, frozenset())
    if not uses:
        ctx.undecided("C10-C1", site, "traverse does not yield anything directly", "")
    badu = [x for x, okk in uses.values() if not okk]
    own_calls_ = [c_ for c_ in au.calls(tr) if isinstance(c_.func, ast.Attribute) and isinstance(c_.func.value, ast.Name) and c_.func.value.id == "self"
                  and ctx.repo.has_func(BASE, "SpanningTree." + c_.func.attr)]
    if uses and badu and (tr0.decorator_list or own_calls_ or _flat(ctx, BASE, tr0).impure_self_calls(tr) or
                          any(isinstance(c_, ast.Call) and any(au.is_self_attr(a_, "_computed") or (isinstance(a_, ast.Constant) and a_.value == "_computed")
                                                               for a_ in list(c_.args) + [k_.value for k_ in c_.keywords]) for c_ in au.calls(tr)
                              if au.call_tail(c_) != "getattr") or
                          any(isinstance(n_, ast.Try) for n_ in au.walk(tr)) or
                          any(isinstance(c_, ast.Call) and any(isinstance(a_, ast.Name) and a_.id == "self" for a_ in list(c_.args) + [k_.value for k_ in c_.keywords])
                              for c_ in au.calls(tr)) or
                          any(au.is_self_attr(n_) and ctx.repo.has_func(BASE, "SpanningTree." + n_.attr) and
                              any(au.src(d_) == "property" for d_ in ctx.repo.func(BASE, "SpanningTree." + n_.attr).decorator_list) for n_ in au.walk(tr))):
        # the flag is consulted in a way the rule does not follow (a decorator, a helper, a try block ..)
        ctx.undecided("C10-C1", site, "how traverse tests `self._computed` before reading the tree tables is not recognised", "")
    elif uses:
        ctx.check(not badu, "C10-C1", site, "traverse reads the tree tables without having tested `self._computed`",
                  "on a tree that was not computed traverse silently yields the bare root instead of raising",
                  note="`if not self._computed: raise` dominates every yield")


# ----------------------------------------------------------------------- C10-K1
def _weight_key(F, key, at):
    """what a sort key reads for edge id e: ('table', table expr) | ('callable', name) | ('const',) | None"""
    if isinstance(key, ast.Attribute) and key.attr == "__getitem__":
        return ("table", key.value)
    if isinstance(key, ast.Lambda) and len(key.args.args) == 1:
        p = key.args.args[0].arg
        bd = key.body
        if isinstance(bd, ast.Call) and isinstance(bd.func, ast.Name) and len(bd.args) == 1 and isinstance(bd.args[0], ast.Name) and bd.args[0].id == p:
            return ("callable", bd.func.id)
        if isinstance(bd, ast.Subscript) and isinstance(bd.slice, ast.Name) and bd.slice.id == p:
            return ("table", bd.value)
        if order.fold_const(bd) is not None:
            return ("const",)
        return None
    if isinstance(key, ast.Name):
        return ("callable", key.id)
    return None


def _stale_table(F, e, at):
    """the table expression is (bound to) a stored attribute of the mesh: text or None"""
    def bad_call(v):
        if isinstance(v, ast.Call):
            t = au.call_tail(v)
            if t in ("get_attribute", "attribute"):
                return f"`{au.src(v)[:60]}` (an attribute stored on the mesh by an earlier call)"
            if any(k.arg == "persistent" and au.const(k.value) is True for k in v.keywords):
                return f"`{au.src(v)[:70]}` (persistent: computed once, then re-used)"
        return None
    r = bad_call(e)
    if r:
        return r
    if isinstance(e, ast.Name):
        for st in au.stmts(F.fn.body):
            for nm, v in sym.split_assign(st):
                if nm == e.id:
                    r = bad_call(v)
                    if r:
                        return r
    return None


def k1_kruskal(ctx):
    repo = ctx.repo
    fn0 = repo.func(EDGE, "EdgeMinimalSpanningTree.compute")
    F = _flat(ctx, EDGE, fn0)
    fn = F.fn
    site = ctx.site(EDGE, fn0)
    b = F.b
    R = "C10-K1"

    def S(node):
        return ctx.site(EDGE, fn0, node)
    ufs = {t.id: st for st in au.stmts(fn.body) if isinstance(st, (ast.Assign, ast.AnnAssign)) and isinstance(st.value, ast.Call)
           and au.call_tail(st.value) == "UnionFind" for t in au.assign_targets(st) if isinstance(t, ast.Name)}
    if len(ufs) != 1:
        ctx.undecided(R, site, "Kruskal's union-find not recognised", f"{len(ufs)} UnionFind object(s)")
        return
    UF, ufst = next(iter(ufs.items()))
    ufdef = ufst.value
    dom = b.resolve(ufdef.args[0], at=ufst, keep=("self",)) if len(ufdef.args) == 1 else None
    dk = _kind_of_range(F, dom, ufst) if dom is not None else None
    if dk in ("vertices", "parent"):
        ctx.ok(R, S(ufst), "UnionFind over the vertex ids")        # len(self.parent) is the number of vertices (C10-S1)
    elif dk is not None:
        ctx.fail(R, S(ufst), "union-find is not created over every vertex id", f"it ranges over {dk}: find() raises ValueError for a missing element")
    elif dom is None and not ufdef.args:
        ctx.ok(R, S(ufst), "UnionFind() - elements are added by union")
    else:
        ctx.undecided(R, S(ufst), "the domain of Kruskal's union-find is not recognised", "")
    unions = [c for c in au.calls(fn) if isinstance(c.func, ast.Attribute) and isinstance(c.func.value, ast.Name)
              and c.func.value.id == UF and c.func.attr == "union"]
    if len(unions) != 1 or len(unions[0].args) != 2 or not all(isinstance(x, ast.Name) for x in unions[0].args):
        ctx.undecided(R, site, "Kruskal's union(a, b) call is not recognised", f"{len(unions)} union call(s)")
        return
    un = unions[0]
    A, B = (x.id for x in un.args)
    fors = [a for a in au.ancestors(un) if isinstance(a, ast.For)]
    if not fors:
        ctx.undecided(R, site, "Kruskal's loop over the sorted edge list not recognised", "")
        return
    lp = fors[0]
    s = S(un)
    # endpoints come from the loop edge: `a, b = self.mesh.edges[e]` or `for e, (a, b) in ...` / `for a, b in ...`
    E = None
    it = lp.iter
    if isinstance(lp.target, ast.Name):
        E = lp.target.id
    tnames = set(au.assigned_names(lp.target))
    ends_ok = None
    for st in lp.body:
        if isinstance(st, ast.Assign) and isinstance(st.targets[0], ast.Tuple) and [getattr(x, "id", None) for x in st.targets[0].elts] in ([A, B], [B, A]):
            v_ = st.value
            if isinstance(v_, ast.Subscript) and au.src(v_.value) == "self.mesh.edges" and isinstance(v_.slice, ast.Name) and not au.guards(st, stop=lp):
                if v_.slice.id in tnames:
                    ends_ok = True
                    E = E or v_.slice.id
                elif F.root(v_.slice.id, st) in tnames:
                    ends_ok = True
                elif hr.closure(F.deps(), {v_.slice.id}) & (tnames | ({it.id} if isinstance(it, ast.Name) else set())) or \
                        not isinstance(lp.target, ast.Name) or (isinstance(it, ast.Call) and au.call_tail(it) == "range"):
                    ends_ok = None                       # derived from the loop variable in a way the rule does not follow (positions ..)
                else:
                    ends_ok = False
    if ends_ok is True:
        ctx.ok(R, s, "a, b = self.mesh.edges[e]")
    elif ends_ok is False:
        ctx.fail(R, s, "endpoints tested / united are not those of the edge being scanned", "expected `a, b = self.mesh.edges[e]`")
    else:
        ctx.undecided(R, s, "the endpoints of the scanned edge are not recognised", "")
    conds = F.conds(un, stop=lp)

    def conn_atom(e):
        """the atom tests whether the two endpoints are connected: uf.connected(a,b) / uf.find(a) == uf.find(b)"""
        if isinstance(e, ast.Call) and isinstance(e.func, ast.Attribute) and e.func.attr == "connected" and isinstance(e.func.value, ast.Name) \
                and e.func.value.id == UF:
            return sorted(au.src(x) for x in e.args) == sorted([A, B])
        if isinstance(e, ast.Compare) and len(e.ops) == 1 and isinstance(e.ops[0], ast.Eq):
            sides = [e.left, e.comparators[0]]
            if all(isinstance(x, ast.Call) and isinstance(x.func, ast.Attribute) and x.func.attr == "find" and isinstance(x.func.value, ast.Name)
                   and x.func.value.id == UF and len(x.args) == 1 for x in sides):
                return sorted(au.src(x.args[0]) for x in sides) == sorted([A, B])
        return None
    guard = [(e, p, conn_atom(e)) for e, p in conds if conn_atom(e) is not None]
    rest = [(e, p) for e, p in conds if conn_atom(e) is None]
    if len(guard) == 1 and guard[0][2] and not guard[0][1] and not rest:
        ctx.ok(R, s, "if not uf.connected(a, b)")
    elif len(guard) == 1 and guard[0][1]:
        ctx.fail(R, s, "union is guarded by `uf.connected(a, b)` (inverted)", "an edge closing a cycle must be rejected, every other admissible edge accepted")
    elif len(guard) == 1 and not guard[0][2] and ({A, B} & (hr.closure(F.deps(), set().union(*[au.names(a_) for a_ in guard[0][0].args]) if isinstance(guard[0][0], ast.Call) else set()))
                                                   or any(isinstance(a_, ast.Name) and {A, B} & hr.closure(F.deps(), {a_.id}) for a_ in un.args) or
                                                   any(not isinstance(a_, ast.Name) for a_ in (guard[0][0].args if isinstance(guard[0][0], ast.Call) else []))):
        ctx.undecided(R, s, "the pair tested for connectivity and the pair united are related in a way the rule does not follow", "")
    elif len(guard) == 1 and not guard[0][2]:
        ctx.fail(R, s, "the connectivity test is not on the pair that is united", "")
    elif not guard and not rest and not isinstance(au.parent(un), ast.Expr):
        ctx.undecided(R, s, "the result of union(a, b) is used: the guard of Kruskal's selection is not recognised", "")
    elif not guard and not rest and [n_ for n_ in au.walk(lp) if isinstance(n_, ast.Name) and n_.id == UF and not any(n_ is m_ for m_ in ast.walk(un))]:
        ctx.undecided(R, s, "the union is unconditional and the union-find is consulted elsewhere in the loop", "")
    elif not guard and not rest:
        _absent(ctx, F, lp, R, s, "union is not guarded by `not uf.connected(a, b)`", "an edge closing a cycle must be rejected")
    else:
        ctx.undecided(R, s, "the guard of Kruskal's union is not recognised", "")
    ukey = {(hr.key(e), p) for e, p in conds}

    def same_conds(c):
        return {(hr.key(e), p) for e, p in F.conds(c, stop=lp)} == ukey
    edge_rec = [c for c in au.calls(lp) if au.call_tail(c) == "append" and au.is_self_attr(c.func.value, "edges") and len(c.args) == 1]
    if len(edge_rec) == 1:
        k = edge_rec[0].args[0]
        okk = isinstance(k, ast.Call) and au.call_tail(k) == "keyify" and sorted(au.src(x) for x in k.args) == sorted([A, B])
        if okk and same_conds(edge_rec[0]):
            ctx.ok(R, s, "edges.append(keyify(a, b)) with the union")
        elif okk and all(conn_atom(e_) is not None for e_, p_ in list(F.conds(edge_rec[0], stop=lp)) + list(conds)) \
                and not any(p_ for e_, p_ in F.conds(edge_rec[0], stop=lp)):
            ctx.fail(R, s, "accepted edge is not recorded as edges.append(keyify(a, b)) under the test of the union", "the record and the union must go together")
        elif okk:
            ctx.undecided(R, s, "the record of the accepted edge is under a condition the rule does not recognise", "")
        else:
            ctx.undecided(R, s, "the edge recorded by Kruskal's loop is not keyify(a, b)", "")
    elif not edge_rec and not F.opaque(lp, {A, B}) and not [st for st in au.stmts(fn.body) if isinstance(st, (ast.Assign, ast.AugAssign, ast.AnnAssign))
                                                                 and any(au.is_self_attr(t, "edges") for t in au.assign_targets(st))] \
            and not [c for c in au.calls(fn) if isinstance(c.func, ast.Attribute) and au.is_self_attr(c.func.value, "edges") and c.func.attr != "append"] \
            and not [n_ for n_ in au.walk(fn) if au.is_self_attr(n_, "edges") and not F.inside(n_, lp)]:
        ctx.fail(R, s, "accepted edge is not recorded as edges.append(keyify(a, b)) under the test of the union", "no edges.append in the loop")
    else:
        ctx.undecided(R, s, "the record of the accepted edge is not recognised", "")
    adds = [c for c in au.calls(lp) if au.call_tail(c) in ("add", "append") and isinstance(c.func.value, ast.Subscript)
            and isinstance(c.func.value.value, ast.Name) and len(c.args) == 1]
    tabs = {c.func.value.value.id for c in adds}
    NB = next(iter(tabs)) if len(tabs) == 1 else None
    pairs = sorted((au.src(c.func.value.slice), au.src(c.args[0])) for c in adds)
    if NB and pairs == sorted([(A, B), (B, A)]) and all(same_conds(c) for c in adds):
        ctx.ok(R, s, "nb[a].add(b), nb[b].add(a) with the union")
    elif NB and set(pairs) < {(A, B), (B, A)} and len(adds) == 1:
        _absent(ctx, F, lp, R, s, "adjacency of the accepted edge is not inserted in both directions under the test of the union",
                "one direction only: the orientation pass walks this adjacency from the root")
    elif NB and pairs == sorted([(A, B), (B, A)]) and all(conn_atom(e_) is not None for c_ in adds for e_, p_ in list(F.conds(c_, stop=lp)) + list(conds)):
        ctx.fail(R, s, "adjacency of the accepted edge is not inserted in both directions under the test of the union", "the inserts are not under the same test")
    elif NB and pairs == sorted([(A, B), (B, A)]):
        ctx.undecided(R, s, "the adjacency of the accepted edge is filled under a condition the rule does not recognise", "")
    else:
        ctx.undecided(R, s, "the adjacency filled by Kruskal's loop is not recognised", "")
        NB = None
    # ---- sort before the loop, by the weight callable, ascending
    LIST = it.id if isinstance(it, ast.Name) else None
    keyinfo = None
    sort_node = None
    if isinstance(it, ast.Call) and au.call_tail(it) == "argsort" and ends_ok is True and not _ranks_filtered_list(F, fn, it, lp):
        ctx.undecided(R, site, "Kruskal's loop scans positions given by argsort over a list that is not filtered", "")
    elif isinstance(it, ast.Call) and au.call_tail(it) == "argsort" and ends_ok is True:
        ctx.fail(R, site, "the edge list scanned by Kruskal's loop is the result of argsort",
                 "argsort returns positions in the candidate list, not edge ids: with a filtered candidate list the loop scans other edges")
    elif isinstance(it, ast.Call) and au.call_tail(it) == "argsort":
        ctx.undecided(R, site, "Kruskal's loop scans positions given by argsort: how they are turned into edge ids is not recognised", "")
    elif isinstance(it, ast.Call) and au.call_tail(it) == "sorted" and it.args:
        sort_node = it
    elif LIST:
        d = b.reaching(LIST, lp)
        if isinstance(d, ast.Call) and au.call_tail(d) == "sorted" and d.args:
            sort_node = d
        elif isinstance(d, ast.Call) and au.call_tail(d) == "argsort" and ends_ok is not True:
            ctx.undecided(R, site, "Kruskal's loop scans positions given by argsort: how they are turned into edge ids is not recognised", "")
            LIST = None
        elif isinstance(d, ast.Call) and au.call_tail(d) == "argsort" and not _ranks_filtered_list(F, fn, d, lp):
            ctx.undecided(R, site, "Kruskal's loop scans positions given by argsort over a list that is not filtered", "")
            LIST = None
        elif isinstance(d, ast.Call) and au.call_tail(d) == "argsort":
            ctx.fail(R, site, "the edge list scanned by Kruskal's loop is the result of argsort",
                     "argsort returns positions in the candidate list, not edge ids: with a filtered candidate list the loop scans other edges")
            LIST = None
        else:
            sorts = [c for c in au.calls(fn) if isinstance(c.func, ast.Attribute) and c.func.attr == "sort" and isinstance(c.func.value, ast.Name)
                     and c.func.value.id == LIST and F.before(c, lp)]
            if len(sorts) == 1:
                sort_node = sorts[0]
                later = [x for x in au.stmts(fn.body) if LIST in [nm for t in au.assign_targets(x) for nm in au.assigned_names(t)]
                         and F.before(sort_node, x) and F.before(x, lp)]
                if later and all(isinstance(getattr(x_, "value", None), ast.Call) and au.call_tail(x_.value) in ("tuple", "list") and len(x_.value.args) == 1
                                 and isinstance(x_.value.args[0], ast.Name) and x_.value.args[0].id == LIST for x_ in later):
                    later = []          # a copy of the sorted list under the same name
                if later and any(LIST in au.names(getattr(x_, "value", None) or ast.Constant(value=0)) or
                                 any(isinstance(n_, ast.Name) and F.root(n_.id, x_) in (LIST, F.root(LIST, sort_node if isinstance(sort_node, ast.stmt) else au.enclosing_stmt(sort_node)))
                                     for n_ in ast.walk(getattr(x_, "value", None) or ast.Constant(value=0))) for x_ in later):
                    ctx.undecided(R, S(later[0]), "the edge list is rebuilt from itself after it was sorted", "")
                    sort_node = None
                    LIST = None
                elif later:
                    ctx.fail(R, S(later[0]), "the edge list is rebuilt after it was sorted", "")
                    sort_node = None
                    LIST = None
            elif not sorts:
                sortish = [c for c in au.calls(fn) if "sort" in (au.call_tail(c) or "") or (au.call_tail(c) or "").startswith("heap") or (au.call_tail(c) or "") in ("min", "nsmallest")]
                if not F.opaque(fn, {LIST}) and not sortish:
                    ctx.fail(R, site, "edge list is not sorted ascending by the weight callable between its construction and Kruskal's loop",
                             "Kruskal on unsorted edges returns a spanning tree that is not of minimum weight")
                else:
                    ctx.undecided(R, site, "the sort of Kruskal's edge list is not visible", "")
                LIST = None
            else:
                ctx.undecided(R, site, "Kruskal's edge list is sorted several times", "")
                LIST = None
    if sort_node is not None and isinstance(sort_node, ast.Call) and au.call_tail(sort_node) == "sorted" and sort_node.args \
            and isinstance(sort_node.args[0], ast.Call) and au.call_tail(sort_node.args[0]) == "range" and ends_ok is True:
        ctx.fail(R, S(sort_node), "the list scanned by Kruskal's loop holds positions in the candidate list, but the loop uses them as edge ids",
                 "sorting range(len(candidates)) gives positions: with a filtered candidate list (avoid_boundary) the loop scans other edges")
        sort_node = None
        LIST = None
    if sort_node is not None:
        key = [kw.value for kw in sort_node.keywords if kw.arg == "key"]
        rev = [kw.value for kw in sort_node.keywords if kw.arg == "reverse"]
        asc = not rev or au.const(rev[0]) is False
        neg_key = any(isinstance(n_, ast.UnaryOp) and isinstance(n_.op, ast.USub) for k_ in key for n_ in ast.walk(k_))
        if not asc and (neg_key or (isinstance(lp.iter, ast.Call) and au.call_tail(lp.iter) == "reversed") or
                        any(isinstance(n_, ast.Slice) and n_.step is not None for n_ in ast.walk(lp.iter))):
            ctx.undecided(R, S(sort_node), "the edge list is sorted in descending order of a quantity the rule does not follow", "")
            asc = None
        elif not asc:
            ctx.fail(R, S(sort_node), "edge list is not sorted ascending by the weight callable between its construction and Kruskal's loop", "descending sort")
        sconds = F.conds(sort_node)
        own = [(e, p) for e, p in sconds if not any(hr.key(e) == hr.key(e2) and p == p2 for e2, p2 in F.conds(lp))]
        keyinfo = _weight_key(F, key[0], sort_node) if key else None
        sarg = sort_node.args[0] if au.call_tail(sort_node) == "sorted" and sort_node.args else None
        if not key and sarg is not None and not (isinstance(sarg, ast.Name) or (isinstance(sarg, ast.Call) and au.call_tail(sarg) in ("range", "list", "set"))
                                                 or isinstance(sarg, ast.Attribute)):
            ctx.undecided(R, S(sort_node), "Kruskal's loop scans a sorted sequence the rule does not recognise (decorated entries ..)", "")
        elif not key and (not isinstance(lp.target, ast.Name) or
                          (LIST and isinstance(F.definition(LIST, sort_node if isinstance(sort_node, ast.stmt) else au.enclosing_stmt(sort_node)), (ast.ListComp, ast.GeneratorExp))
                           and isinstance(F.definition(LIST, sort_node if isinstance(sort_node, ast.stmt) else au.enclosing_stmt(sort_node)).elt, (ast.Tuple, ast.List)))):
            ctx.undecided(R, S(sort_node), "Kruskal's loop scans a sorted sequence of compound entries", "")
        elif not key:
            ctx.fail(R, S(sort_node), "edge list is sorted without the weight callable", "the edges are ordered by their ids, not by weight")
        elif keyinfo is None:
            ctx.undecided(R, S(sort_node), "the sort key of Kruskal's edge list is not recognised", "")
        else:
            okcond = True
            for e, p in own:
                x = _is_none_cmp(e)
                # `if key is not None: sort` : no weight function, nothing to sort by
                if x is not None and not p and isinstance(x, ast.Name) and keyinfo[0] == "callable" and x.id == keyinfo[1]:
                    continue
                okcond = False
            if okcond and asc:
                ctx.ok(R, S(sort_node), "edges sorted ascending by weight before the loop")
            elif asc:
                ctx.undecided(R, S(sort_node), "the sort of Kruskal's edge list is conditional", "")
    # ---- weight callables: each reads the per-edge table at the edge id it is given
    if keyinfo and keyinfo[0] == "callable":
        wname = keyinfo[1]
        binds = []
        for st in au.stmts(fn.body):
            for nm, v in sym.split_assign(st):
                if nm == wname:
                    binds.append((st, v))
            if isinstance(st, ast.FunctionDef) and st.name == wname:
                body = hf_flat.strip_doc(st.body)
                if len(body) == 1 and isinstance(body[0], ast.Return) and body[0].value is not None and len(st.args.args) == 1:
                    binds.append((st, ast.Lambda(args=st.args, body=body[0].value)))
                else:
                    binds.append((st, None))
        for st, v in binds:
            if v is None:
                ctx.undecided(R, S(st), "a weight callable of Kruskal is not a single expression", "")
                continue
            if isinstance(v, ast.Constant) and v.value is None:
                continue
            wk = _weight_key(F, v, st) if not isinstance(v, ast.Lambda) else None
            if isinstance(v, ast.Lambda):
                ps = [x.arg for x in v.args.args]
                if order.fold_const(v.body) is not None:
                    ctx.ok(R, S(st), "constant weight")
                    continue
                if len(ps) == 1 and isinstance(v.body, ast.Subscript) and isinstance(v.body.slice, ast.Name) and v.body.slice.id == ps[0]:
                    wk = ("table", v.body.value)
                elif len(ps) == 1 and any(isinstance(x, ast.Subscript) for x in ast.walk(v.body)) and ps[0] not in au.names(v.body):
                    ctx.fail(R, S(st), "weight callable does not read the per-edge table at the edge id it receives", "the edge id is ignored")
                    continue
                elif len(ps) != 1:
                    continue         # arity: C10-A1
                else:
                    ctx.undecided(R, S(st), "a weight callable of Kruskal is not of the form table[e]", "")
                    continue
            if wk and wk[0] == "table":
                tb = wk[1]
                stale = _stale_table(F, tb, st)
                if stale:
                    ctx.fail(R, S(st), "edge lengths are read from an attribute stored on the mesh instead of the current geometry",
                             f"the weights come from {stale}: after the vertices move, Kruskal sorts the edges with stale lengths")
                else:
                    ctx.ok(R, S(st), "weight(e) = table[e]")
            elif wk is None:
                ctx.undecided(R, S(st), "a weight callable of Kruskal is not recognised", "")
    elif keyinfo and keyinfo[0] == "table":
        stale = _stale_table(F, keyinfo[1], sort_node)
        if stale:
            ctx.fail(R, S(sort_node), "edge lengths are read from an attribute stored on the mesh instead of the current geometry", f"the weights come from {stale}")
    # ---- admissible edges: same border predicate as the BFS tree
    if LIST:
        _k1_admissible(ctx, F, fn0, LIST, lp, sort_node)
    # ---- orientation pass
    k2_orientation(ctx, F, fn0, NB, lp)


def _k1_admissible(ctx, F, fn0, LIST, lp, sort_node):
    R = "C10-K1"
    fn = F.fn
    site = ctx.site(EDGE, fn0)
    # the list the candidates come from: LIST itself, or the argument of sorted(..)
    src_name = LIST
    d = F.b.reaching(LIST, lp)
    if isinstance(d, ast.Call) and au.call_tail(d) == "sorted" and d.args and isinstance(d.args[0], ast.Name):
        src_name = d.args[0].id
    elif isinstance(sort_node, ast.Call) and au.call_tail(sort_node) == "sorted" and sort_node.args and isinstance(sort_node.args[0], ast.Name):
        src_name = sort_node.args[0].id
    binds = [(st, v) for st in au.stmts(fn.body) for nm, v in sym.split_assign(st) if nm == src_name and F.before(st, lp)]
    binds = [(st, v) for st, v in binds if not (isinstance(v, ast.Call) and au.call_tail(v) == "sorted" and v.args and isinstance(v.args[0], ast.Name)
                                                and v.args[0].id == src_name)]
    # a later refinement `L = [e for e in L if e not in <exclusion set>]` (an optional extra exclusion) does not change the border policy
    def is_refinement(v):
        if isinstance(v, ast.ListComp) and len(v.generators) == 1 and isinstance(v.generators[0].iter, ast.Name) and v.generators[0].iter.id == src_name \
                and isinstance(v.generators[0].target, ast.Name) and au.src(v.elt) == v.generators[0].target.id and len(v.generators[0].ifs) == 1:
            t = v.generators[0].ifs[0]
            return au.canon_test(t).startswith(v.generators[0].target.id + " not in ")
        return False
    binds = [(st, v) for st, v in binds if not is_refinement(v)]
    # a list filled by an append loop: `cands = []; for e, (A, B) in enumerate(edges): if border: continue; cands.append(e)`
    def resolve_built(st, v):
        if isinstance(v, ast.Name):
            dd = F.definition(v.id, st)
            nm = F.root(v.id, st)
        elif (isinstance(v, ast.List) and not v.elts) or (isinstance(v, ast.Call) and au.call_tail(v) == "list" and not v.args):
            dd, nm = v, src_name
        else:
            return v
        if (isinstance(dd, ast.List) and not dd.elts) or (isinstance(dd, ast.Call) and au.call_tail(dd) == "list" and not dd.args):
            apps = [c for c in au.calls(fn) if au.call_tail(c) == "append" and isinstance(c.func.value, ast.Name) and F.root(c.func.value.id, c) == nm
                    and len(c.args) == 1 and F.before(c, lp)]
            if len(apps) == 1:
                fr = [a for a in au.ancestors(apps[0]) if isinstance(a, ast.For)]
                if len(fr) == 1:
                    tests = [t if p else ast.UnaryOp(op=ast.Not(), operand=t) for t, p in sk.path_conds(apps[0], stop=fr[0])]
                    comp = ast.ListComp(elt=apps[0].args[0], generators=[ast.comprehension(target=fr[0].target, iter=fr[0].iter, ifs=tests, is_async=0)])
                    return ("built", comp, apps[0])
        return v
    if not binds:
        ctx.undecided(R, site, "selection of the admissible edges (all / interior only) not recognised", "")
        return
    res = {}
    try:
        for ab, pl in itertools.product((False, True), repeat=2):
            env = {"AB": ab, "PL": pl, "AE_none": True, "IN": False, "BORDER": False}
            taken = []
            for st, v in binds:
                rv = resolve_built(st, v)
                where = st
                if isinstance(rv, tuple):
                    where, v2 = rv[2], rv[1]
                else:
                    v2 = rv
                holds = True
                for e, p in sk.atoms(sk.path_conds(where)):
                    if not any(au.is_self_attr(n, "_avoidbound") or (isinstance(n, ast.Name) and n.id == "PolyLine") for n in ast.walk(e)):
                        continue
                    if _eval_bool(e, env, "?", "?") != p:
                        holds = False
                if holds:
                    taken.append(v2)
            if len(taken) != 1:
                raise _Unknown(f"{len(taken)} bindings of the edge list apply")
            res[(ab, pl)] = _edge_selection(taken[0], env)
    except _Unknown as ex:
        ctx.undecided(R, site, "selection of the admissible edges (all / interior only) not recognised", str(ex))
        return
    want = {(ab, pl): ("filtered" if (ab and not pl) else "all") for ab, pl in res}
    if res == want:
        ctx.ok(R, site, "border exclusion agrees with _avoid_edge on the 4 switch combinations")
    elif all(v in ("all", "filtered", "inverted") for v in res.values()) and \
            [c_ for c_ in au.calls(fn) if au.call_tail(c_) in ("_avoid_edge", "is_edge_on_border") and any(isinstance(a_, (ast.For, ast.While)) and
                                                                                                     any(au.call_tail(u_) == "union" for u_ in au.calls(a_))
                                                                                                     for a_ in au.ancestors(c_))]:
        ctx.undecided(R, site, "border edges are excluded while Kruskal's loop scans the edges", "")
    elif all(v in ("all", "filtered", "inverted") for v in res.values()) and not _switches_are_plain(ctx):
        ctx.undecided(R, site, "the switches tested by the selection of the admissible edges are not the plain constructor arguments", "")
    elif all(v in ("all", "filtered", "inverted") for v in res.values()):
        ctx.fail(R, site, "admissible edges are not `all edges, or the non-border edges exactly when avoid_boundary is set on a non-polyline`",
                 f"selection per (avoid_boundary, polyline): {res} - the BFS tree excludes an edge iff avoid_boundary and not polyline and is_edge_on_border")
    elif (_vertex_border_test(fn) or _vertex_border_test(fn0, ctx)) is not None:
        ctx.fail(R, ctx.site(EDGE, fn0, _vertex_border_test(fn) or _vertex_border_test(fn0, ctx)), "the border status of an edge is decided from the border status of its two end points",
                 "an interior edge whose end points both lie on the border is dropped from Kruskal's candidates: the result is not a minimum spanning "
                 "forest of the admissible edges")
    else:
        ctx.undecided(R, site, "the expression building the admissible edge list is not recognised", "")


def _edge_selection(val, env):
    """'all' | 'filtered' | 'inverted' | 'other' for the expression building the admissible edge list (under the switches of env)"""
    if isinstance(val, ast.ListComp) and len(val.generators) == 1:
        g = val.generators[0]
        if not g.ifs and isinstance(g.target, ast.Name) and au.src(g.iter) in ("self.mesh.id_edges", "range(len(self.mesh.edges))") and au.src(val.elt) == g.target.id:
            return "all"
        if isinstance(g.iter, ast.Call) and au.call_tail(g.iter) == "enumerate" and au.src(g.iter.args[0]) == "self.mesh.edges" \
                and isinstance(g.target, ast.Tuple) and len(g.target.elts) == 2 and isinstance(g.target.elts[0], ast.Name) \
                and isinstance(g.target.elts[1], ast.Tuple) and len(g.target.elts[1].elts) == 2 and au.src(val.elt) == g.target.elts[0].id:
            a, b_ = (au.src(x) for x in g.target.elts[1].elts)
            if not g.ifs:
                return "all"
            if len(g.ifs) >= 1:
                try:
                    keep_border = all(_eval_bool(t_, dict(env, BORDER=True), a, b_) for t_ in g.ifs)
                    keep_inner = all(_eval_bool(t_, dict(env, BORDER=False), a, b_) for t_ in g.ifs)
                except _Unknown:
                    return "other"
                if keep_inner and not keep_border:
                    return "filtered"
                if keep_inner and keep_border:
                    return "all"
                if keep_border and not keep_inner:
                    return "inverted"
    if isinstance(val, ast.Call) and au.call_tail(val) in ("list", "sorted") and len(val.args) == 1 and au.src(val.args[0]) in ("self.mesh.id_edges", "range(len(self.mesh.edges))"):
        return "all"
    return "other"


def _is_none_like(F, e, at):
    """None, or a name bound to None (a local / a module constant such as NO_PARENT = None)"""
    if hr.is_none(e):
        return True
    if isinstance(e, ast.Name):
        try:
            r = F.resolve(e, at)
        except Exception:
            r = e
        if hr.is_none(r):
            return True
        mc = F.module_constants().get(e.id)
        return mc is not None and hr.is_none(mc)
    return False


def _ranks_filtered_list(F, fn, call, at):
    """the array ranked by argsort is built from a local list that may be filtered (a comprehension with a condition, or bound on several branches)"""
    try:
        r = F.resolve(call, at)
    except Exception:
        r = call
    for n_ in list(ast.walk(r)) + list(ast.walk(call)):
        if isinstance(n_, ast.Name):
            vals = [v_ for st_ in au.stmts(fn.body) for nm_, v_ in sym.split_assign(st_) if nm_ == n_.id]
            if any(isinstance(v_, ast.ListComp) and any(g_.ifs for g_ in v_.generators) for v_ in vals) or len([v_ for v_ in vals if isinstance(v_, (ast.ListComp, ast.List))]) > 1:
                return True
        if isinstance(n_, (ast.ListComp, ast.GeneratorExp)) and any(g_.ifs for g_ in n_.generators):
            return True
    return False


def _tab_base(e):
    while isinstance(e, ast.Subscript):
        e = e.value
    return e


def k2_orientation(ctx, F, fn0, NB, kruskal_loop):
    R = "C10-K1"
    fn = F.fn
    site = ctx.site(EDGE, fn0)
    wl = [w for w in _worklist(F) if F.before(kruskal_loop, w[1])]
    if len(wl) != 1 or len(wl[0][2]) != 1 or NB is None:
        ctx.undecided(R, site, "orientation pass (walk of the Kruskal adjacency from the root) not recognised", "")
        return
    Q, loop, pops = wl[0]
    s = ctx.site(EDGE, fn0, loop)
    pair, pst = _pair_of_pop(F, loop, pops[0])
    if pair is None:
        ctx.undecided(R, s, "orientation pass does not pop a (node, previous) pair", "")
        return
    v, prev = pair
    # which slot of the popped pair is the previous node: the slot that holds None / self.root in the entries queued before the loop
    slots = set()
    for c_ in au.calls(fn):
        if q_method(c_, Q, ("append", "appendleft")) and F.before(c_, loop) and not F.inside(c_, loop) and len(c_.args) == 1 \
                and isinstance(c_.args[0], ast.Tuple) and len(c_.args[0].elts) == 2:
            e0, e1 = c_.args[0].elts
            n0_, n1_ = _is_none_like(F, e0, c_), _is_none_like(F, e1, c_)
            if n1_ and not n0_:
                slots.add(1)
            elif n0_ and not n1_:
                slots.add(0)
            elif au.is_self_attr(e1, "root") and not au.is_self_attr(e0, "root"):
                slots.add(1)
            elif au.is_self_attr(e0, "root") and not au.is_self_attr(e1, "root"):
                slots.add(0)
    vi = 0
    if slots == {0}:
        v, prev = pair[1], pair[0]
        vi = 1
    par = [(st, tg, val) for st, tg, val in hr.item_stores(loop) if au.is_self_attr(tg.value, "parent")]
    def only_prev_not_none(st_):
        cs_ = F.conds(st_, stop=loop)
        return all(_is_none_cmp(e_) is not None and isinstance(_is_none_cmp(e_), ast.Name) and _is_none_cmp(e_).id == prev and not p_ for e_, p_ in cs_)
    if len(par) == 1 and isinstance(par[0][1].slice, ast.Name) and par[0][1].slice.id == v and isinstance(par[0][2], ast.Name) and par[0][2].id == prev \
            and only_prev_not_none(par[0][0]):
        ctx.ok(R, s, "parent[v] = prev")
    elif len(par) == 1 and isinstance(par[0][2], ast.Name) and slots and not F.conds(par[0][0], stop=loop) \
            and isinstance(par[0][1].slice, ast.Name) and {par[0][1].slice.id, par[0][2].id} <= set(pair):
        ctx.fail(R, s, "orientation pass does not set parent[node] = previous", "")
    else:
        ctx.undecided(R, s, "the parent store of the orientation pass is not recognised", "")
    chs = [(st, tg, val) for st, tg, val in hr.item_stores(loop) if au.is_self_attr(tg.value, "children")]
    CH = None           # the children list of v as an expression key
    if len(chs) == 1 and isinstance(chs[0][1].slice, ast.Name) and chs[0][1].slice.id == v and chs[0][2] is not None:
        val = F.b.resolve(chs[0][2], at=chs[0][0], keep=(v, prev, NB, "self"))
        if isinstance(val, ast.ListComp) and len(val.generators) == 1 and isinstance(val.generators[0].target, ast.Name):
            g = val.generators[0]
            x = g.target.id
            from_nb = sk.is_sub(g.iter, NB, v)
            filt = len(g.ifs) == 1 and any(isinstance(e_, ast.Compare) and isinstance(e_.ops[0], ast.Eq) and not p_
                                           and sorted([au.src(e_.left), au.src(e_.comparators[0])]) == sorted([x, prev])
                                           for e_, p_ in sk.atoms([(g.ifs[0], True)]))
            edited_nb = [c_ for c_ in au.calls(loop) if isinstance(c_.func, ast.Attribute) and c_.func.attr in ("discard", "remove", "pop", "difference_update", "clear")
                         and isinstance(_tab_base(c_.func.value), ast.Name) and F.root(_tab_base(c_.func.value).id, c_) == F.root(NB, c_)]
            if from_nb and au.src(val.elt) == x and filt:
                ctx.ok(R, s, "children[v] = [x for x in nb[v] if x != prev]")
                CH = True
            elif from_nb and au.src(val.elt) == x and not g.ifs and edited_nb:
                ctx.undecided(R, s, "the Kruskal adjacency is edited during the orientation pass", "")
            elif from_nb and au.src(val.elt) == x and not g.ifs:
                ctx.fail(R, s, "children[node] is not `the Kruskal neighbours of node except the previous node`",
                         "keeping the previous node walks every tree edge back and forth for ever")
            else:
                ctx.undecided(R, s, "children[node] of the orientation pass is not recognised", "")
        elif isinstance(val, ast.Call) and au.call_tail(val) in ("list", "sorted") and len(val.args) == 1 and sk.is_sub(val.args[0], NB, v) \
                and [c_ for c_ in au.calls(loop) if isinstance(c_.func, ast.Attribute) and c_.func.attr in ("discard", "remove", "pop", "difference_update", "clear")
                     and isinstance(_tab_base(c_.func.value), ast.Name) and F.root(_tab_base(c_.func.value).id, c_) == F.root(NB, c_)] + \
                [st_ for st_ in au.stmts(loop.body) if isinstance(st_, (ast.AugAssign, ast.Delete))]:
            ctx.undecided(R, s, "the Kruskal adjacency is edited during the orientation pass", "")
        elif isinstance(val, ast.Call) and au.call_tail(val) in ("list", "sorted") and len(val.args) == 1 and sk.is_sub(val.args[0], NB, v) \
                and [c_ for c_ in au.calls(loop) if isinstance(c_.func, ast.Attribute) and c_.func.attr in ("remove", "discard", "pop") and
                     isinstance(c_.func.value, ast.Subscript) and au.is_self_attr(c_.func.value.value, "children")]:
            ctx.undecided(R, s, "children[node] is edited after it was copied from the Kruskal adjacency", "")
        elif isinstance(val, ast.Call) and au.call_tail(val) in ("list", "sorted") and len(val.args) == 1 and sk.is_sub(val.args[0], NB, v):
            ctx.fail(R, s, "children[node] is not `the Kruskal neighbours of node except the previous node`",
                     "keeping the previous node walks every tree edge back and forth for ever")
        else:
            ctx.undecided(R, s, "children[node] of the orientation pass is not recognised", "")
    else:
        ctx.undecided(R, s, "children[node] of the orientation pass is not recognised", "")
    enq = [c for c in au.calls(loop) if q_method(c, Q, ("append", "appendleft")) and len(c.args) == 1]
    if len(enq) == 1 and isinstance(enq[0].args[0], ast.Tuple) and len(enq[0].args[0].elts) == 2:
        fr = [a for a in au.ancestors(enq[0]) if isinstance(a, ast.For) and F.inside(a, loop)]
        t = enq[0].args[0].elts
        if fr and isinstance(fr[0].target, ast.Name):
            itr = F.b.resolve(fr[0].iter, at=fr[0], keep=(v, prev, NB, "self"))
            over_children = self_tab(fr[0].iter, "children", v) or (chs and chs[0][2] is not None and hr.same(itr, F.b.resolve(chs[0][2], at=chs[0][0], keep=(v, prev, NB, "self"))))
            if over_children and au.src(t[vi]) == fr[0].target.id and au.src(t[1 - vi]) == v and not F.conds(enq[0], stop=fr[0]) and chs and F.before(chs[0][0], fr[0]):
                ctx.ok(R, s, "queue.append((child, v)) for child in children[v]")
            elif over_children and au.src(t[1 - vi]) == fr[0].target.id and au.src(t[vi]) == v:
                ctx.fail(R, s, "orientation pass does not enqueue (child, node) for every child of node", "the pair is enqueued as (node, child)")
            else:
                ctx.undecided(R, s, "the enqueue of the orientation pass is not recognised", "")
        else:
            ctx.undecided(R, s, "the enqueue of the orientation pass is not recognised", "")
    else:
        ctx.undecided(R, s, "the enqueue of the orientation pass is not recognised", "")
    # root initialisation: either the generic seed (root, None), or the root handled by hand
    seeds = [c for c in au.calls(fn) if q_method(c, Q, ("append", "appendleft")) and F.before(c, loop) and not F.inside(c, loop) and len(c.args) == 1]
    generic = [c for c in seeds if isinstance(c.args[0], ast.Tuple) and len(c.args[0].elts) == 2 and au.is_self_attr(c.args[0].elts[vi], "root")
               and hr.is_none(c.args[0].elts[1 - vi]) and F.unconditional(c, loop)]
    if generic and len(seeds) == 1:
        ctx.ok(R, site, "orientation seeded with (root, None)")
        return
    pre = [st for st in au.stmts(fn.body) if F.before(st, loop) and F.before(kruskal_loop, st)]
    rp = [st for st in pre if isinstance(st, ast.Assign) and au.src(st.targets[0]) == "self.parent[self.root]" and hr.is_none(st.value)]
    def nb_root(e, at):
        return isinstance(e, ast.Subscript) and isinstance(e.value, ast.Name) and F.root(e.value.id, at) == F.root(NB, at) and au.is_self_attr(e.slice, "root")
    rc = [st for st in pre if isinstance(st, ast.Assign) and au.src(st.targets[0]) == "self.children[self.root]"
          and isinstance(st.value, ast.Call) and au.call_tail(st.value) in ("list", "sorted") and st.value.args and nb_root(st.value.args[0], st)]
    rq = [c for c in seeds if isinstance(c.args[0], ast.Tuple) and len(c.args[0].elts) == 2 and au.is_self_attr(c.args[0].elts[1 - vi], "root")
          and [a for a in au.ancestors(c) if isinstance(a, ast.For) and (nb_root(a.iter, a) or au.src(a.iter) == "self.children[self.root]")
               and au.src(c.args[0].elts[vi]) == au.src(a.target)]]
    if len(rc) == 1 and len(rq) == 1:
        ctx.ok(R, site, "root seeds")
    else:
        ctx.undecided(R, site, "the seeding of the orientation pass is not recognised", "")


# ----------------------------------------------------------------------- C10-F1
def f1_forests(ctx):
    repo = ctx.repo
    R = "C10-F1"
    for modname, cname, kind, tree, excl_field in FORESTS:
        fn0 = repo.func(modname, cname + ".compute")
        F = _flat(ctx, modname, fn0)
        fn = F.fn
        site = ctx.site(modname, fn0)
        b = F.b

        def S(node):
            return ctx.site(modname, fn0, node)
        roots = [c for c in au.calls(fn) if au.call_tail(c) == "append" and au.is_self_attr(c.func.value, "roots") and len(c.args) == 1]
        if len(roots) != 1:
            ctx.undecided(R, site, "the loop that roots a tree at every unvisited element is not recognised", f"{len(roots)} roots.append")
            continue
        r = roots[0]
        fors = [a for a in au.ancestors(r) if isinstance(a, ast.For)]
        el = _element_loop(F, fors[0], kind) if fors else None
        if el is None:
            ctx.undecided(R, site, "forest loop over the element ids not recognised", "")
            continue
        lp = fors[0]
        x, _, k = el
        if k == kind:
            ctx.ok(R, S(lp), f"for x in ids of {kind}")
        else:
            ctx.fail(R, S(lp), f"forest iterates over {k} instead of {kind}", "every element of the kind spanned by the trees must be covered once")
            continue
        conds = F.conds(r, stop=lp)
        VIS = None
        inverted = False
        for e, p in conds:
            ft = hr.flag_test(e, p)
            if ft and isinstance(ft[0], ast.Name) and isinstance(ft[1], ast.Name) and F.root(ft[1].id, r) == x:
                VIS = ft[0].id
                inverted = ft[2] is True
        rec_ok = isinstance(r.args[0], ast.Name) and F.root(r.args[0].id, r) == x
        if VIS is not None and len(conds) == 1 and not inverted and rec_ok:
            ctx.ok(R, S(r), "roots.append(x) under not visited[x]")
        elif VIS is not None and inverted and (lambda iv_, d_: (iv_[1] and iv_[0] and all(isinstance(x_, ast.Constant) and x_.value in (True, 1) for x_ in iv_[0]))
                                               or (isinstance(d_, ast.Call) and au.call_tail(d_) in ("set", "frozenset") and d_.args)
                                               or isinstance(d_, (ast.SetComp,)))(F.initial_values(VIS, lp), F.definition(VIS, lp)):
            ctx.undecided(R, S(r), "the flags of the forest are kept with the opposite polarity (a table that starts full and is cleared): not analysed", "")
            continue
        elif VIS is not None and inverted:
            ctx.fail(R, S(r), "a root is not recorded for exactly the elements found unvisited (`if not visited[x]: roots.append(x)`)",
                     "the test is inverted: trees are started from visited elements only")
            continue
        elif VIS is None and not conds and not F.opaque(lp, {x}) and not F.opaque(fn):
            ctx.fail(R, S(r), "a root is not recorded for exactly the elements found unvisited (`if not visited[x]: roots.append(x)`)",
                     "every element starts a tree of its own: one tree per connected component is required")
            continue
        else:
            ctx.undecided(R, S(r), "the condition under which a new root is recorded is not recognised", "")
            continue
        rkey = {(hr.key(e), p) for e, p in conds}

        def same_conds(n):
            return {(hr.key(e), p) for e, p in F.conds(n, stop=lp)} == rkey
        # tree built from x, computed, recorded
        made = [st for st in au.stmts(lp.body) if isinstance(st, ast.Assign) and len(st.targets) == 1 and isinstance(st.targets[0], ast.Name)
                and any(isinstance(c.func, ast.Name) and c.func.id == tree for c in au.calls(st)) and same_conds(st)]
        T = None
        if len(made) == 1:
            T = made[0].targets[0].id
            val = made[0].value
            ctor = [c for c in au.calls(made[0]) if isinstance(c.func, ast.Name) and c.func.id == tree][0]
            computed = (isinstance(val, ast.Call) and val.func is ctor and not val.args) or \
                any(isinstance(c.func, ast.Attribute) and c.func.attr in ("compute", "__call__") and isinstance(c.func.value, ast.Name)
                    and F.root(c.func.value.id, c) == T and same_conds(c) for c in au.calls(lp))
            init = repo.func(modname, tree + ".__init__")
            amap = sk.resolve_positional(ctor, init, skip_self=True)
            ps = au.params(init, skip_self=True)
            if amap is None or not ps:
                ctx.undecided(R, S(made[0]), "the constructor call of the tree of a new root is not recognised", "")
            else:
                # the tree object is run: T() / T.compute() / T.__call__() under the root test; a run the rule cannot place makes the verdict undecided
                runs = [c for c in au.calls(fn) if (isinstance(c.func, ast.Name) and F.root(c.func.id, c) == T) or
                        (isinstance(c.func, ast.Attribute) and c.func.attr in ("compute", "__call__") and isinstance(c.func.value, ast.Name)
                         and F.root(c.func.value.id, c) == T)]
                computed = computed or any(same_conds(c) and F.inside(c, lp) for c in runs)
                runs = runs + [c for c in au.calls(lp) if isinstance(c.func, ast.Attribute) and c.func.attr in ("compute", "__call__") and c not in runs]
                handed = [c for c in au.calls(lp) if any(isinstance(a, ast.Name) and F.root(a.id, c) == T for a in list(c.args) + [k.value for k in c.keywords])
                          and not (au.call_tail(c) == "append" and au.is_self_attr(c.func.value, "trees"))]
                unknown = []
                why = []
                if not computed:
                    (unknown if runs or handed or F.opaque(lp, {T}) else why).append("the tree is not computed before it is traversed")
                marg = amap.get(ps[0])
                if marg is None or F.table_key(marg, made[0]) != "self.mesh":
                    (why if marg is not None and isinstance(marg, ast.Attribute) and au.is_self_attr(marg) and marg.attr != "mesh" else unknown).append("it is not built on self.mesh")
                rarg = amap.get(ps[1]) if len(ps) > 1 else None
                if isinstance(rarg, ast.Name):
                    d__ = F.definition(rarg.id, made[0])
                    while isinstance(d__, ast.Call) and au.call_tail(d__) in ("int", "index") and len(d__.args) == 1:
                        d__ = d__.args[0]
                    if isinstance(d__, ast.Name):
                        rarg = d__
                while isinstance(rarg, ast.Call) and au.call_tail(rarg) in ("int", "index") and len(rarg.args) == 1:
                    rarg = rarg.args[0]
                if not (isinstance(rarg, ast.Name) and F.root(rarg.id, made[0]) == x):
                    if rarg is None:
                        why.append("its root is not the unvisited element (a random root is used)")
                    elif isinstance(rarg, ast.Name) and any(au.is_self_attr(n_, "roots") for n_ in ast.walk(F.definition(rarg.id, made[0]) or ast.Constant(value=0))):
                        unknown.append("its root is not the unvisited element")
                    elif isinstance(rarg, ast.Name) or isinstance(rarg, ast.Constant):
                        why.append("its root is not the unvisited element")
                    else:
                        unknown.append("its root is not the unvisited element")
                if excl_field:
                    earg = amap.get(excl_field)
                    if earg is None:
                        later = [n_ for n_ in au.walk(lp) if isinstance(n_, ast.Attribute) and n_.attr == excl_field and not any(n_ is m_ for m_ in ast.walk(ctor))]
                        (unknown if later else why).append(f"the forest's {excl_field} are not forwarded")
                    elif not (au.is_self_attr(earg, excl_field) or F.table_key(earg, made[0]) == "self." + excl_field):
                        (why if isinstance(earg, ast.Constant) or (isinstance(earg, ast.Call) and au.call_tail(earg) in ("set", "list") and not earg.args) else unknown).append(
                            f"the forest's {excl_field} are not forwarded")
                if not why and not unknown:
                    ctx.ok(R, S(made[0]), f"{tree}(self.mesh, x, ...)() under the root test")
                elif why:
                    ctx.fail(R, S(made[0]), f"the tree of a new root is not `{tree}(self.mesh, x{', self.' + excl_field if excl_field else ''})` computed before use",
                             "; ".join(why))
                else:
                    ctx.undecided(R, S(made[0]), "how the tree of a new root is built and run is not recognised", "; ".join(unknown))
        else:
            ctx.undecided(R, S(r), "the construction of the tree of a new root is not recognised", f"{len(made)} candidate statement(s)")
        if T is None:
            continue
        rec = [c for c in au.calls(lp) if au.call_tail(c) == "append" and au.is_self_attr(c.func.value, "trees") and len(c.args) == 1
               and ((isinstance(c.args[0], ast.Name) and F.root(c.args[0].id, c) == T) or
                    (isinstance(c.args[0], ast.Call) and not c.args[0].args and isinstance(c.args[0].func, ast.Name) and F.root(c.args[0].func.id, c) == T))]
        if len(rec) == 1 and same_conds(rec[0]):
            ctx.ok(R, S(r), "trees.append(tree) with roots.append(x)")
        elif not rec and not F.opaque(lp, {T}) and not [st for st in au.stmts(fn.body) if isinstance(st, (ast.Assign, ast.AugAssign, ast.AnnAssign))
                                                          and any(au.is_self_attr(t, "trees") for t in au.assign_targets(st))] \
                and not [c for c in au.calls(fn) if isinstance(c.func, ast.Attribute) and au.is_self_attr(c.func.value, "trees") and c.func.attr != "append"]:
            ctx.fail(R, S(r), "the new tree is not appended to self.trees with its root", "roots and trees must stay parallel lists")
        else:
            ctx.undecided(R, S(r), "the record of the new tree is not recognised", "")
        marks = [(st, fm) for st in au.stmts(lp.body) if (fm := hr.flag_mark(st)) and isinstance(fm[0], ast.Name) and F.root(fm[0].id, st) == F.root(VIS, lp)]
        okm = None
        if len(marks) == 1 and marks[0][1][2] is True:
            mst, fm = marks[0]
            fr = [a for a in au.ancestors(mst) if isinstance(a, ast.For) and a is not lp and F.inside(a, lp)]
            if fr:
                itn = fr[0].iter
                tg = fr[0].target
                first = tg.elts[0] if isinstance(tg, ast.Tuple) and len(tg.elts) == 2 else None
                trav = isinstance(itn, ast.Call) and isinstance(itn.func, ast.Attribute) and itn.func.attr == "traverse" and isinstance(itn.func.value, ast.Name) \
                    and F.root(itn.func.value.id, fr[0]) == T
                if trav and first is not None and hr.same(fm[1], first) and not F.conds(mst, stop=fr[0]) and same_conds(fr[0]):
                    okm = True
                elif trav and first is not None and isinstance(tg.elts[1], ast.Name) and hr.same(fm[1], tg.elts[1]):
                    okm = False
        if okm is True:
            ctx.ok(R, S(marks[0][0]), "visited marked from tree.traverse()")
        elif okm is not False and not marks and [st_ for st_ in au.stmts(lp.body) if isinstance(st_, ast.AugAssign) and isinstance(_tab_base(st_.target), ast.Name)
                                                  and F.root(_tab_base(st_.target).id, st_) == F.root(VIS, lp)] + \
                [c_ for c_ in au.calls(lp) if isinstance(c_.func, ast.Attribute) and isinstance(c_.func.value, ast.Name) and F.root(c_.func.value.id, c_) == F.root(VIS, lp)
                 and c_.func.attr not in ("get", "keys", "values", "items", "copy", "index", "count")]:
            ctx.undecided(R, S(r), "the visited table of the forest is updated in a way the rule does not follow", "")
        elif okm is False or (not marks and not F.opaque(lp, {VIS, T}) and not [n for n in au.walk(lp) if isinstance(n, ast.Name) and n.id == VIS
                                                                               and not isinstance(au.parent(n), ast.Subscript)]):
            ctx.fail(R, S(marks[0][0] if marks else r),
                     "visited is not marked for every node of the new tree's traversal (`for node, _ in tree.traverse(): visited[node] = True`)",
                     "elements of the component would start trees of their own / elements of other components would be skipped")
        else:
            ctx.undecided(R, S(r), "the marking of the elements reached by the new tree is not recognised", "")
        ivals, found = F.initial_values(VIS, lp)
        if any(isinstance(n_, ast.Constant) and n_.value is True for v_ in ivals for n_ in ast.walk(v_)):
            ctx.fail(R, site, "visited table of the forest does not start all-False", "")
        dv = F.definition(VIS, lp)
        if dv is not None:
            tk = _table_kind(F, dv, lp)
            if tk is not None:
                ctx.check(tk in (kind, "parent"), "C10-S1", site, f"{cname}.compute sizes a work table over {tk} instead of {kind}",
                          f"tables of one forest are all indexed by {kind} ids", note=f"visited over {kind}")


# ----------------------------------------------------------------------- C10-T1
def t1_traverse(ctx):
    R = "C10-T1"
    fn0 = ctx.repo.func(BASE, "SpanningTree.traverse")
    F = _flat(ctx, BASE, fn0)
    fn = F.fn
    site = ctx.site(BASE, fn0)
    b = F.b
    qs = deque_names(fn)
    loops = [st for st in au.stmts(fn.body) if isinstance(st, ast.While) and qs & au.names(st)]
    # a traversal order kept on the tree and replayed by later calls must be complete when it becomes visible: a list stored on `self` before the
    # traversal loop and filled while the generator is consumed is replayed truncated after a traversal that was abandoned (or is still running)
    yloops = [st for st in au.stmts(fn.body) if isinstance(st, (ast.While, ast.For)) and any(isinstance(n_, ast.Yield) for n_ in au.walk(st))]
    for st in au.stmts(fn.body):
        if not isinstance(st, (ast.Assign, ast.AnnAssign)) or st.value is None or not isinstance(st.value, ast.Name):
            continue
        tgs = [t for t in au.assign_targets(st) if isinstance(_tab_base(t), ast.Attribute) and au.is_self_attr(_tab_base(t))]
        if not tgs:
            continue
        L = st.value.id
        field = _tab_base(tgs[0]).attr
        filled_later = [c for lp_ in yloops for c in au.calls(lp_) if isinstance(c.func, ast.Attribute) and c.func.attr in ("append", "extend", "insert", "add")
                        and isinstance(c.func.value, ast.Name) and F.root(c.func.value.id, c) == F.root(L, st) and F.before(st, lp_)]
        replayed = [lp_ for lp_ in yloops if isinstance(lp_, ast.For) and any(au.is_self_attr(n_, field) for n_ in ast.walk(lp_.iter))]
        if filled_later and replayed:
            ctx.fail(R, ctx.site(BASE, fn0, st), "traverse replays a visiting order cached on the tree that is registered before the traversal has completed",
                     "the list is stored on the tree first and filled while the generator is consumed: after a traversal that is abandoned early (or while "
                     "one is still running) every later traversal replays only the prefix visited so far and skips reached elements")
            return
    if len(yloops) > 1:
        ctx.undecided(R, site, "traverse has several loops that yield", "")
        return
    if len(qs) != 1 or len(loops) != 1:
        ctx.undecided(R, site, "work-list loop of traverse not recognised", "")
        return
    Q = next(iter(qs))
    loop = loops[0]
    seeds = [c for c in au.calls(fn) if q_method(c, Q, ("append", "appendleft")) and F.before(c, loop) and not F.inside(c, loop)]
    # an optional parameter that defaults to None (a start node, a filter ..) selects among several seedings: the rule is about the default call,
    # i.e. the branch taken when that parameter is None
    a_ = fn0.args
    none_defaults = {x_.arg for x_, d_ in zip((a_.posonlyargs + a_.args)[len(a_.posonlyargs + a_.args) - len(a_.defaults):], a_.defaults) if hr.is_none(d_)} | \
        {x_.arg for x_, d_ in zip(a_.kwonlyargs, a_.kw_defaults) if d_ is not None and hr.is_none(d_)}
    dropped_cond = set()

    def on_default_path(c_):
        for e_, p_ in F.conds(c_):
            x_ = _is_none_cmp(e_)
            if x_ is not None and isinstance(x_, ast.Name) and x_.id in none_defaults and x_.id != order_param0:
                dropped_cond.add((hr.key(e_), p_))
                if not p_:
                    return False            # reached only when the optional parameter is given
        return True
    order_param0 = au.params(fn0, skip_self=True)[0] if au.params(fn0, skip_self=True) else "order"
    if len(seeds) > 1:
        seeds = [c_ for c_ in seeds if on_default_path(c_)]
    ni = 0          # slot of the node in the queued pairs (the other slot holds its parent)
    seed_t = seeds[0].args[0] if len(seeds) == 1 and len(seeds[0].args) == 1 and isinstance(seeds[0].args[0], ast.Tuple) and len(seeds[0].args[0].elts) == 2 else None
    if seed_t is not None and au.is_self_attr(seed_t.elts[1], "root") and _is_none_like(F, seed_t.elts[0], seeds[0]):
        ni = 1
    def uncond_(c_):
        kr_ = {(hr.key(e_), p_) for e_, p_ in F.conds(loop)}
        return all((hr.key(e_), p_) in kr_ or (hr.key(e_), p_) in dropped_cond for e_, p_ in F.conds(c_))
    if seed_t is not None and au.is_self_attr(seed_t.elts[ni], "root") and _is_none_like(F, seed_t.elts[1 - ni], seeds[0]) and uncond_(seeds[0]):
        ctx.ok(R, site, "queue seeded with (self.root, None)")
    elif seed_t is not None and all(au.is_self_attr(x_, "root") or isinstance(x_, ast.Constant) for x_ in seed_t.elts) and F.unconditional(seeds[0], loop):
        ctx.fail(R, site, "traverse is not seeded with (self.root, None)", "")
    elif seed_t is not None:
        ctx.undecided(R, site, "the seeding of traverse is not recognised", "")
        return
    else:
        ctx.undecided(R, site, "the seeding of traverse is not recognised", "")
    # which end is popped for BFS / DFS: every `q.pop()` / `q.popleft()` reachable in the loop with the conditions on `order`
    order_param = au.params(fn0, skip_self=True)[0] if au.params(fn0, skip_self=True) else "order"

    def order_value(e, pol, at):
        """truth of atom (e, pol) as a function of is-BFS: returns {True: bool, False: bool} or None"""
        r = b.resolve(e, at=at, keep=(order_param, Q, "self"))
        if isinstance(r, ast.Compare) and len(r.ops) == 1 and isinstance(r.ops[0], ast.Eq) and au.src(r.left) == order_param:
            lit = au.const(r.comparators[0])
            if lit in ("BFS", "DFS"):
                return {isb: ((lit == "BFS") == isb) == pol for isb in (True, False)}
        if isinstance(r, ast.Compare) and len(r.ops) == 1 and isinstance(r.ops[0], ast.Eq) and au.src(r.comparators[0]) == order_param:
            lit = au.const(r.left)
            if lit in ("BFS", "DFS"):
                return {isb: ((lit == "BFS") == isb) == pol for isb in (True, False)}
        if isinstance(r, ast.Compare) and len(r.ops) == 1 and isinstance(r.ops[0], ast.In) and au.src(r.left) == order_param \
                and isinstance(r.comparators[0], (ast.Tuple, ast.List, ast.Set)):
            lits = [au.const(x) for x in r.comparators[0].elts]
            return {isb: (("BFS" if isb else "DFS") in lits) == pol for isb in (True, False)}
        return None
    alts = []   # (conditions dict list, method)
    unknown = False
    for c in au.calls(loop):
        if q_method(c, Q, ("pop", "popleft")):
            cs = []
            for e, p in sk.atoms(sk.path_conds(c, stop=loop)) + [x_ for x_ in sk.atoms(sk.path_conds(loop)) if order_param in au.names(b.resolve(x_[0], at=loop, keep=(order_param,)))]:
                ov = order_value(e, p, c)
                if ov is None:
                    unknown = True
                else:
                    cs.append(ov)
            alts.append((cs, c.func.attr, c))
        elif isinstance(c.func, ast.Name) and (not c.args or (len(c.args) == 1 and isinstance(c.args[0], ast.Name) and c.args[0].id == Q)):
            # a local name bound (possibly on sibling branches) to q.pop / q.popleft / deque.pop / deque.popleft
            def meth(x):
                if isinstance(x, ast.Attribute) and isinstance(x.value, ast.Name) and x.attr in ("pop", "popleft") \
                        and ((x.value.id == Q and not c.args) or (x.value.id == "deque" and c.args)):
                    return x.attr
                return None
            for st in au.stmts(fn.body):
                for nm, v in sym.split_assign(st):
                    if nm != c.func.id:
                        continue
                    base = []
                    for e_, p_ in sk.atoms(sk.path_conds(st)):
                        ov = order_value(e_, p_, st)
                        if ov is not None:
                            base.append(ov)
                        elif order_param in au.names(b.resolve(e_, at=st, keep=(order_param,))):
                            unknown = True
                    if meth(v):
                        alts.append((base, meth(v), c))
                    elif isinstance(v, ast.IfExp) and meth(v.body) and meth(v.orelse):
                        for t_, p_ in sk.atoms([(v.test, True)]):
                            ov = order_value(t_, p_, st)
                            if ov is None:
                                unknown = True
                            else:
                                alts.append((base + [ov], meth(v.body), c))
                                alts.append((base + [{k: not v_ for k, v_ in ov.items()}], meth(v.orelse), c))
                    else:
                        unknown = True
    if not alts or unknown:
        ctx.undecided(R, site, "the dequeue operation of traverse is not recognised", "")
        return
    res = {}
    for isb, nm in ((True, "BFS"), (False, "DFS")):
        taken = [m for cs, m, c in alts if all(cv[isb] for cv in cs)]
        res[nm] = taken[0] if len(taken) == 1 else None
    pushes = [c for c in au.calls(loop) if q_method(c, Q, ("append", "appendleft"))]
    right = bool(pushes) and all(c.func.attr == "append" for c in pushes) and all(c.func.attr == "append" for c in seeds)
    if res == {"BFS": "popleft", "DFS": "pop"} and right:
        ctx.ok(R, site, "BFS -> popleft, DFS -> pop")
    elif res == {"BFS": "pop", "DFS": "popleft"} and right:
        ctx.fail(R, site, "traverse does not pop the oldest entry in BFS order and the newest in DFS order",
                 "breadth-first must be first-in first-out, depth-first last-in first-out (entries are appended on the right)")
    elif None not in res.values() and right and res["BFS"] == res["DFS"]:
        ctx.fail(R, site, "traverse does not pop the oldest entry in BFS order and the newest in DFS order", "both orders pop the same end")
    else:
        ctx.undecided(R, site, "the dequeue operation of traverse is not recognised", "")
    pop_call = alts[0][2]
    pst = au.enclosing_stmt(pop_call)
    names = None
    tg = pst.targets[0] if isinstance(pst, ast.Assign) else None
    if isinstance(tg, ast.Tuple) and len(tg.elts) == 2 and all(isinstance(x, ast.Name) for x in tg.elts):
        names = [x.id for x in tg.elts]
    if names is None:
        ctx.undecided(R, site, "popped entry of traverse is not unpacked as (node, parent)", "")
        return
    node, par = names[ni], names[1 - ni]
    ys = [n for n in au.walk(loop) if isinstance(n, ast.Yield)]
    if len(ys) == 1 and ys[0].value is not None and au.src(ys[0].value) == f"({node}, {par})" and not sk.path_conds(ys[0], stop=loop):
        ctx.ok(R, site, "yield node, parent")
    elif len(ys) == 1 and ys[0].value is not None and au.src(ys[0].value) == f"({par}, {node})":
        ctx.fail(R, site, "traverse does not yield the popped (node, parent) pair exactly once per iteration", "it yields (parent, node)")
    else:
        ctx.undecided(R, site, "the yield of traverse is not recognised", "")
    enq = [c for c in pushes if len(c.args) == 1]
    if len(enq) == 1 and isinstance(enq[0].args[0], ast.Tuple) and len(enq[0].args[0].elts) == 2:
        fr = [a for a in au.ancestors(enq[0]) if isinstance(a, ast.For) and F.inside(a, loop)]
        t = enq[0].args[0].elts
        if fr and isinstance(fr[0].target, ast.Name) and au.src(fr[0].iter) == f"self.children[{node}]" and not sk.path_conds(enq[0], stop=loop):
            if au.src(t[ni]) == fr[0].target.id and au.src(t[1 - ni]) == node:
                ctx.ok(R, site, "queue.append((child, node)) for child in self.children[node]")
            elif au.src(t[1 - ni]) == fr[0].target.id and au.src(t[ni]) == node:
                ctx.fail(R, site, "traverse does not enqueue (child, node) for every child of the popped node", "it enqueues (node, child)")
            else:
                ctx.undecided(R, site, "the enqueue of traverse is not recognised", "")
        else:
            ctx.undecided(R, site, "the enqueue of traverse is not recognised", "")
    else:
        ctx.undecided(R, site, "the enqueue of traverse is not recognised", "")
    if ys and enq and not F.before(ys[0], enq[0]):
        ctx.undecided(R, site, "traverse enqueues the children before yielding the node", "")
    # forest traverse delegates with the order
    ff0 = ctx.repo.func(BASE, "SpanningForest.traverse")
    FF = _flat(ctx, BASE, ff0)
    tc = [c for c in au.calls(FF.fn) if au.call_tail(c) == "traverse"]
    okf = None
    if len(tc) == 1:
        op = au.params(ff0, skip_self=True)
        passes = [au.src(a) for a in tc[0].args] == op[:1] or [(k.arg, au.src(k.value)) for k in tc[0].keywords] == [(op[0], op[0])] if op else False
        fr = [a for a in au.ancestors(tc[0]) if isinstance(a, ast.For)]
        over = [a for a in fr if au.src(a.iter) == "self.trees" and au.src(tc[0].func.value) == au.src(a.target)]
        ys = [n for n in au.walk(FF.fn) if isinstance(n, ast.Yield)]
        if over and passes and ys:
            okf = True
        elif over and not passes and not tc[0].args and not tc[0].keywords:
            okf = False
    if okf is True:
        ctx.ok(R, ctx.site(BASE, ff0), "for tree in self.trees: tree.traverse(order=order)")
    elif okf is False:
        ctx.fail(R, ctx.site(BASE, ff0), "SpanningForest.traverse does not traverse every tree with the requested order", "the order is not forwarded")
    else:
        ctx.undecided(R, ctx.site(BASE, ff0), "SpanningForest.traverse is not recognised", "")


# ----------------------------------------------------------------------- C10-E1
INPLACE = ("append", "extend", "insert", "reverse", "sort", "pop", "remove", "clear")


def e1_forest_edges(ctx):
    """SpanningForest.edges returns a fresh list: a list owned by a tree is never changed in place"""
    q = "SpanningForest.edges"
    if not ctx.repo.has_func(BASE, q):
        return
    fn0 = ctx.repo.func(BASE, q)
    F = _flat(ctx, BASE, fn0)
    site = ctx.site(BASE, fn0)

    def tree_owned(e):
        """e evaluates to the `.edges` list object of a tree"""
        return isinstance(e, ast.Attribute) and e.attr == "edges" and not au.is_self_attr(e)
    shared = {}
    for st in au.stmts(F.fn.body):
        for nm, v in sym.split_assign(st):
            if tree_owned(v) or (isinstance(v, ast.IfExp) and (tree_owned(v.body) or tree_owned(v.orelse))):
                shared[nm] = st
    bad = []
    for st in au.stmts(F.fn.body):
        tgt = None
        if isinstance(st, ast.AugAssign):
            tgt = st.target
        elif isinstance(st, ast.Expr) and isinstance(st.value, ast.Call) and isinstance(st.value.func, ast.Attribute) and st.value.func.attr in INPLACE:
            tgt = st.value.func.value
        if tgt is None:
            continue
        if tree_owned(tgt):
            bad.append(st)
        elif isinstance(tgt, ast.Name) and tgt.id in shared and F.before(shared[tgt.id], st):
            # the bindings of the name that may reach the change: the last unconditional one before it, and the conditional ones after that
            binds = [(s2, v2) for s2 in au.stmts(F.fn.body) for n2, v2 in sym.split_assign(s2) if n2 == tgt.id and F.before(s2, st) and not F.inside(st, s2)]
            binds.sort(key=lambda x: F.pos(x[0]))
            dead = set()
            for i_, (s1_, v1_) in enumerate(binds):
                for s2_, v2_ in binds[i_ + 1:]:
                    b1_, _o1 = au.enclosing_block(s1_)
                    b2_, _o2 = au.enclosing_block(s2_)
                    if b1_ is not None and b1_ is b2_:
                        dead.add(id(s1_))           # re-bound later in the very same block, before control can leave it
            binds = [x_ for x_ in binds if id(x_[0]) not in dead]
            live = []
            for s2, v2 in reversed(binds):
                live.append(v2)
                if not F.conds(s2) or F.unconditional(s2, st):
                    break
            if any(tree_owned(v2) or (isinstance(v2, ast.IfExp) and (tree_owned(v2.body) or tree_owned(v2.orelse))) for v2 in live):
                bad.append(st)
    if bad:
        ctx.fail("C10-E1", ctx.site(BASE, fn0, bad[0]), "SpanningForest.edges extends in place the edge list owned by one of its trees",
                 "the list returned for the forest is the very list of a tree: every query appends the edges of the other trees to that tree, "
                 "which then has edges outside its component (and more than reached - 1 of them)")
    else:
        ctx.ok("C10-E1", site, "forest edge list is a fresh list")


# ----------------------------------------------------------------------- C10-U1
UF = "utils.unionfind"


def u1_unionfind(ctx):
    """Kruskal relies on connected(a, b) <=> find(a) == find(b)"""
    if not ctx.repo.has_func(UF, "UnionFind.connected"):
        return
    fn0 = ctx.repo.func(UF, "UnionFind.connected")
    F = _flat(ctx, UF, fn0)
    site = ctx.site(UF, fn0)
    ps = au.params(fn0, skip_self=True)
    rets = [st for st in au.stmts(F.fn.body) if isinstance(st, ast.Return) and st.value is not None]

    def is_find(e, arg):
        return isinstance(e, ast.Call) and au.is_self_attr(e.func, "find") and len(e.args) == 1 and isinstance(e.args[0], ast.Name) and e.args[0].id == arg
    verdict = None
    main = [r for r in rets if not (isinstance(r.value, ast.Constant) and r.value.value is True)]
    if len(ps) == 2 and len(main) == 1:
        v = F.b.resolve(main[0].value, at=main[0], keep=("self",) + tuple(ps))
        if isinstance(v, ast.Compare) and len(v.ops) == 1 and isinstance(v.ops[0], ast.Eq):
            l, r = v.left, v.comparators[0]
            if (is_find(l, ps[0]) and is_find(r, ps[1])) or (is_find(l, ps[1]) and is_find(r, ps[0])):
                verdict = True
            elif all(isinstance(x, ast.Subscript) and any(au.is_self_attr(n, "_par") for n in ast.walk(x)) for x in (l, r)) \
                    and not any(isinstance(n, ast.Call) and au.is_self_attr(n.func, "find") for x in (l, r) for n in ast.walk(x)):
                verdict = "it compares entries of the parent table, not the roots returned by find(): two elements of one component whose paths are " \
                          "only partly compressed are reported as not connected"
    if verdict is True:
        ctx.ok("C10-U1", site, "connected(x, y) = find(x) == find(y)")
    elif verdict is None:
        ctx.undecided("C10-U1", site, "UnionFind.connected is not recognised as find(x) == find(y)", "")
    else:
        ctx.fail("C10-U1", site, "UnionFind.connected does not compare the roots of its two arguments", verdict)


# ----------------------------------------------------------------------- C10-S1
def s1_kinds(ctx):
    repo = ctx.repo
    n = 0
    for modname, cname, kind, _ in BFS_TREES:
        init0 = repo.func(modname, cname + ".__init__")
        F = _flat(ctx, modname, init0)
        init = F.fn
        site = ctx.site(modname, init0)
        rr = [c for c in au.calls(init) if au.call_tail(c) == "randint"]
        if len(rr) == 1 and len(rr[0].args) == 2:
            n += 1
            lo = au.const(rr[0].args[0])
            hi = F.b.resolve(rr[0].args[1], at=rr[0], keep=("self",))
            kinds_seen = {k for x in ast.walk(hi) if (k := _kind_of_len(x))}
            try:
                p = sym.to_poly(hi, atom_of=lambda e: "N" if _kind_of_len(e) is not None else None, opaque=False)
            except sym.NotPoly:
                p = None
            if kinds_seen == {"parent"}:
                kinds_seen = {kind}                 # len(self.parent): the table is sized over the element kind (checked below)
            if p is None or len(kinds_seen) != 1:
                ctx.undecided("C10-S1", site, f"the range of the random root of {cname} is not recognised", "")
            elif kinds_seen != {kind}:
                ctx.fail("C10-S1", site, f"random root of {cname} is drawn among the {next(iter(kinds_seen))} instead of the {kind}", "")
            elif lo == 0 and p == sym.Poly.atom("N") - 1:
                ctx.ok("C10-S1", site, "random root in range")
            elif lo == 0 and p == sym.Poly.atom("N"):
                ctx.fail("C10-S1", site, f"random root of {cname} is not randint(0, len(self.mesh.{kind}) - 1)",
                         "randint is inclusive on both ends: an upper bound of len(...) picks a root that does not exist")
            else:
                ctx.undecided("C10-S1", site, f"the range of the random root of {cname} is not recognised", "")
        elif rr:
            ctx.undecided("C10-S1", site, f"the random root of {cname} is not recognised", "")
        tabs = {}
        for st in au.stmts(init.body):
            if isinstance(st, (ast.Assign, ast.AnnAssign)) and st.value is not None:
                for t in au.assign_targets(st):
                    if au.is_self_attr(t) and t.attr in ("parent", "children", "edges"):
                        tabs[t.attr] = (st, st.value)
        if "children" in tabs:
            n += 1
            st, v = tabs["children"]
            fresh = isinstance(v, ast.ListComp) and (isinstance(v.elt, ast.List) and not v.elt.elts or (isinstance(v.elt, ast.Call) and au.call_tail(v.elt) == "list" and not v.elt.args))
            shared = isinstance(v, ast.BinOp) and isinstance(v.op, ast.Mult) and any(isinstance(s_, ast.List) and len(s_.elts) == 1 and isinstance(s_.elts[0], (ast.List, ast.Call))
                                                                                     for s_ in (v.left, v.right))
            if fresh:
                ctx.ok("C10-S1", ctx.site(modname, init0, st), "a fresh children list per element")
                k = _table_kind(F, v, st)
                if k is not None:
                    ctx.check(k in (kind, "parent"), "C10-S1", ctx.site(modname, init0, st), f"{cname}.__init__ sizes the children table over {k} instead of {kind}",
                              f"tables of one tree are all indexed by {kind} ids", note=f"children over {kind}")
            elif shared and [s2_ for s2_, tg2_, v2_ in hr.item_stores(init) if au.is_self_attr(tg2_.value, "children")]:
                ctx.undecided("C10-S1", ctx.site(modname, init0, st), f"the children table of {cname} is filled again after its creation", "")
            elif shared:
                ctx.fail("C10-S1", ctx.site(modname, init0, st), f"{cname}.__init__ does not create a fresh list per element in children",
                         "`[[]] * n` shares one children list between all elements")
            else:
                ctx.undecided("C10-S1", ctx.site(modname, init0, st), f"the children table of {cname} is not recognised", "")
        if "parent" in tabs:
            st, v = tabs["parent"]
            k = _table_kind(F, v, st)
            if k is not None:
                n += 1
                if k == "parent":
                    ck_ = _table_kind(F, tabs["children"][1], tabs["children"][0]) if "children" in tabs else None
                    if ck_ == kind:
                        k = kind            # sized by len(self.children), itself over the element kind
                    else:
                        ctx.undecided("C10-S1", ctx.site(modname, init0, st), f"the size of the parent table of {cname} is not recognised", "")
                        k = None
                if k is not None:
                    ctx.check(k == kind, "C10-S1", ctx.site(modname, init0, st), f"{cname}.__init__ sizes the parent table over {k} instead of {kind}",
                              f"tables of one tree are all indexed by {kind} ids", note=f"parent over {kind}")
        if "edges" in tabs:
            st, v = tabs["edges"]
            if not (isinstance(v, ast.List) and not v.elts or (isinstance(v, ast.Call) and au.call_tail(v) == "list" and not v.args)):
                ctx.undecided("C10-S1", ctx.site(modname, init0, st), f"the edge list of {cname} does not start empty", "")
    if n < 1:
        ctx.undecided("C10-S1", ctx.site(EDGE, repo.func(EDGE, "EdgeSpanningTree.__init__")), "tables sized by the element kind not recognised", "")


# ----------------------------------------------------------------------- C10-N1
TREE_INITS = [(EDGE, "EdgeSpanningTree"), (EDGE, "EdgeMinimalSpanningTree"), (FACE, "FaceSpanningTree"), (CELL, "CellSpanningTree"),
              (EDGE, "EdgeSpanningForest"), (FACE, "FaceSpanningForest"), (CELL, "CellSpanningForest")]


def _bool_context_uses(fn, name):
    """Name nodes of `name` evaluated for truthiness: operand of and/or/not, test of if / while / conditional expression / comprehension filter / assert"""
    out = []
    for n in au.walk(fn):
        if not (isinstance(n, ast.Name) and n.id == name and isinstance(n.ctx, ast.Load)):
            continue
        p = au.parent(n)
        if isinstance(p, ast.BoolOp) or (isinstance(p, ast.UnaryOp) and isinstance(p.op, ast.Not)):
            out.append(n)
        elif isinstance(p, (ast.If, ast.While, ast.IfExp, ast.Assert)) and p.test is n:
            out.append(n)
        elif isinstance(p, ast.comprehension) and any(n is t for t in p.ifs):
            out.append(n)
        elif isinstance(p, ast.Call) and au.call_tail(p) == "bool":
            out.append(n)
    return out


def n1_none_defaults(ctx):
    repo = ctx.repo
    n = 0
    for modname, cname in TREE_INITS:
        if not repo.has_func(modname, cname + ".__init__"):
            continue
        fn_orig = repo.func(modname, cname + ".__init__")
        fn = _flat(ctx, modname, fn_orig).fn
        site = ctx.site(modname, fn_orig)
        pos = fn.args.posonlyargs + fn.args.args
        ndef = len(fn.args.defaults)
        none_params = [a.arg for a, d in zip(pos[len(pos) - ndef:], fn.args.defaults) if isinstance(d, ast.Constant) and d.value is None] if ndef else []
        none_params += [a.arg for a, d in zip(fn.args.kwonlyargs, fn.args.kw_defaults) if isinstance(d, ast.Constant) and d.value is None]
        # root selectors: None-defaulted parameters that reach an assignment of self.root (value or guarding test)
        root_stores = [st for st in au.stmts(fn.body) if isinstance(st, (ast.Assign, ast.AnnAssign)) and st.value is not None
                       and any(au.is_self_attr(t, "root") for t in au.assign_targets(st))]
        for p_ in none_params:
            reaches = any(p_ in au.names(st.value) or any(p_ in au.names(e) for e, _ in sk.path_conds(st)) for st in root_stores)
            if not reaches:
                continue
            n += 1
            truthy = _bool_context_uses(fn, p_)
            zero_tests = [n_ for n_ in au.walk(fn) if isinstance(n_, ast.Compare) and len(n_.ops) == 1 and isinstance(n_.left, ast.Name) and n_.left.id == p_
                          and isinstance(n_.comparators[0], ast.Constant) and n_.comparators[0].value == 0 and not isinstance(n_.comparators[0].value, bool)]
            if truthy and zero_tests:
                ctx.undecided("C10-N1", ctx.site(modname, fn_orig, truthy[0]), f"{cname}.__init__ tests the root parameter by truthiness next to an explicit test of 0", "")
                continue
            ctx.check(not truthy, "C10-N1", ctx.site(modname, fn_orig, truthy[0] if truthy else fn_orig),
                      f"{cname}.__init__ tests the None-defaulted root parameter by truthiness",
                      "element 0 is falsy, so a requested root 0 is treated as 'not given' and replaced "
                      "by a random root (every forest starts its first tree from element 0)" if truthy else "",
                      note="root parameter tested with `is None`")
            # the requested root reaches self.root unchanged when given
            given = []
            unknown = False
            Fi__ = _flat(ctx, modname, fn_orig)
            for st in root_stores:
                conds = sk.atoms(sk.path_conds(st))
                v = st.value
                if isinstance(v, ast.Name) and v.id != p_:
                    try:
                        d__ = Fi__.b.reaching(v.id, st)
                    except Exception:
                        d__ = None
                    if isinstance(d__, ast.AST):
                        v = d__                     # self.root = root  with  root = <value> bound just before
                if isinstance(v, ast.IfExp):
                    ta = sk.atoms([(v.test, True)])
                    if len(ta) == 1 and _is_none_test(ta[0][0], p_):
                        given.append(v.orelse if ta[0][1] else v.body)
                    else:
                        unknown = True
                    continue
                hit = False
                for e, pol in conds:
                    if _is_none_test(e, p_):
                        hit = True
                        if not pol:
                            given.append(v)
                if not hit and p_ in au.names(v):
                    unknown = True
            if truthy:
                continue
            if len(given) == 1 and isinstance(given[0], ast.Name) and given[0].id == p_:
                ctx.ok("C10-N1", site, "self.root = requested root when given")
            elif len(given) == 1 and isinstance(given[0], (ast.Constant, ast.Name)) and not unknown:
                ctx.fail("C10-N1", site, f"{cname}.__init__ does not store the requested root in self.root when it is given", "")
            else:
                ctx.undecided("C10-N1", site, f"how {cname}.__init__ stores the requested root is not recognised", "")
    if n < 1:
        ctx.undecided("C10-N1", ctx.site(EDGE, repo.func(EDGE, "EdgeSpanningTree.__init__")), "root parameter of the tree constructors not recognised",
                      "no None-defaulted parameter reaches self.root")


def _is_none_test(e, name):
    return isinstance(e, ast.Compare) and len(e.ops) == 1 and isinstance(e.ops[0], ast.Is) and isinstance(e.left, ast.Name) and e.left.id == name \
        and isinstance(e.comparators[0], ast.Constant) and e.comparators[0].value is None



# ----------------------------------------------------------------------- generic families (msa/rules/generic.py)
_run_specific = run


def run(ctx):
    _run_specific(ctx)
    from ..rules import generic
    generic.apply(ctx, "C10", stale_modules=('processing.trees.edge_sp', 'processing.trees.face_sp', 'processing.trees.cell_sp', 'processing.trees.base'))


def _generic_rule_texts():
    from ..rules import generic
    return generic.rule_texts("C10", stale=True)


RULES.update(_generic_rule_texts())
