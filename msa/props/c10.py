"""C10 - spanning trees and forests span, are acyclic and respect exclusions (structural clauses).

Static only: reads the `ast` of mouette/processing/trees/*.py (and the use of UnionFind by Kruskal).
"""
from __future__ import annotations
import ast, itertools
from .. import au, sym, order, flow
from ..core import AnalysisError
from ..rules import skel0910 as sk

BASE = "processing.trees.base"
EDGE = "processing.trees.edge_sp"
FACE = "processing.trees.face_sp"
CELL = "processing.trees.cell_sp"

# BFS trees: (module, class, element kind, exclusion predicate)
#   ("call", m)  : `not self.m(parent, child)`            ("in", f) : `crossing element not in self.f`
BFS_TREES = [
    (EDGE, "EdgeSpanningTree", "vertices", ("call", "_avoid_edge")),
    (FACE, "FaceSpanningTree", "faces", ("in", "forbidden_edges")),
    (CELL, "CellSpanningTree", "cells", ("in", "forbidden_faces")),
]
FORESTS = [
    (EDGE, "EdgeSpanningForest", "vertices", "EdgeSpanningTree", None),
    (FACE, "FaceSpanningForest", "faces", "FaceSpanningTree", "forbidden_edges"),
    (CELL, "CellSpanningForest", "cells", "CellSpanningTree", None),
]
MAY_RETURN_NONE = ("opposite_face", "other_face_side")

EXPLANATION = (
    "Static conformance of the three breadth-first spanning trees (vertices / faces / cells), of Kruskal's minimal "
    "spanning tree and of the three forests to their algorithm skeletons, applied uniformly to the siblings: guarded "
    "enqueue (not seen, exclusion predicate, neighbour not None), FIFO discipline with seen-test / mark / parent "
    "assignment once per element, children/edges pairing built from the parent table, `_computed` on every normal exit "
    "(must-dataflow) and tested by traverse, Kruskal's sort / union / edge / adjacency block, root-per-unvisited-element "
    "in the forests, element-kind agreement of the tables. Decides structural necessary conditions, not spanning or "
    "acyclicity as such.")

RULES = {
    "C10-X1": "every enqueue of the BFS trees is guarded by `not seen[child]`, by the class's exclusion predicate on the element crossed, "
              "and by `child is not None` when the neighbour query may return None",
    "C10-B1": "BFS trees: deque used first-in first-out; popped pair in the order it was pushed; `if seen[child]: continue`, then mark, then "
              "parent[child] = parent-of-pair once; the child is expanded; the root is marked seen and expanded before the loop",
    "C10-P1": "children[p].append(v) and edges.append(keyify(p, v)) in one block with p = parent[v], p is not None, over every element id",
    "C10-C1": "`_computed` is False after __init__, set on every normal exit of every tree `compute`, set nowhere else, and tested by `traverse` "
              "before the tables are read",
    "C10-K1": "Kruskal: admissible edges sorted ascending by the weight callable before the loop; union, edge record and both adjacency "
              "inserts sit together in the block guarded by `not connected(a, b)`; union-find over all vertices; border exclusion is the "
              "predicate of the BFS tree; the orientation pass sets parent/children consistently and never walks back to the parent",
    "C10-F1": "forests: a root is recorded, a tree of the matching class is built from it (with the forest's exclusions) and computed, for exactly "
              "the elements found unvisited; visited is marked from that tree's traversal",
    "C10-T1": "traverse: starts from (root, None), yields the popped (node, parent) before enqueueing (child, node) for the children of node, "
              "BFS pops the oldest entry and DFS the newest",
    "C10-S1": "element-kind agreement: parent / children / seen tables, id loops and the random root of one class all range over the same "
              "element kind; the random root is in range",
    "C10-N1": "a None-defaulted parameter that selects the root element is tested with `is None` / `is not None`, never by truthiness "
              "(`x or default`, `if x`, `if not x`): element index 0 is a valid root; the requested root reaches self.root unchanged",
    "C10-A1": "all callables bound to one local name on sibling branches (edge_length of Kruskal) accept the arity of every call of that name",
}


def run(ctx):
    n = 0
    for modname, cname, kind, excl in BFS_TREES:
        ctx.repo.cls(modname, cname)
        fn = ctx.repo.func(modname, cname + ".compute")
        n += bfs_tree(ctx, modname, cname, fn, kind, excl)
    avoid_edge_predicate(ctx)
    c1_computed(ctx)
    k1_kruskal(ctx)
    f1_forests(ctx)
    t1_traverse(ctx)
    s1_kinds(ctx)
    n1_none_defaults(ctx)
    fn = ctx.repo.func(EDGE, "EdgeMinimalSpanningTree.compute")
    nb, _ = sk.arity_agreement(ctx, "C10-A1", EDGE, fn)
    if nb == 0:
        ctx.fail("C10-A1", ctx.site(EDGE, fn), "weight callable of Kruskal is never called",
                 "the weight mode selected by the caller has no effect on the tree")


# ----------------------------------------------------------------------- helpers
def self_tab(e, name=None, idx=None):
    """e is `self.<name>[<Name idx>]`"""
    return (isinstance(e, ast.Subscript) and au.is_self_attr(e.value, name) and isinstance(e.slice, ast.Name)
            and (idx is None or e.slice.id == idx))


def deque_names(fn):
    out = set()
    for st in au.stmts(fn.body):
        if isinstance(st, (ast.Assign, ast.AnnAssign)) and isinstance(st.value, ast.Call) and au.call_tail(st.value) == "deque":
            for t in au.assign_targets(st):
                if isinstance(t, ast.Name):
                    out.add(t.id)
    return out


def local_defs(fn):
    return {st.name: st for st in fn.body if isinstance(st, ast.FunctionDef)}


def q_method(c, Q, tails):
    return (isinstance(c, ast.Call) and isinstance(c.func, ast.Attribute) and isinstance(c.func.value, ast.Name)
            and c.func.value.id == Q and c.func.attr in tails)


# ----------------------------------------------------------------------- BFS trees: X1, B1, P1
def bfs_tree(ctx, modname, cname, fn, kind, excl):
    site = ctx.site(modname, fn)
    qs = deque_names(fn)
    if len(qs) != 1:
        ctx.fail("C10-B1", site, "work-list of the BFS is not a single collections.deque", f"deques found: {sorted(qs)}")
        return 1
    Q = next(iter(qs))
    b = sym.Bindings(fn)
    loops = [st for st in fn.body if isinstance(st, ast.While) and any(isinstance(n, ast.Name) and n.id == Q for n in au.walk(st.test))]
    if len(loops) != 1:
        ctx.fail("C10-B1", site, "BFS loop `while queue:` not found", f"{len(loops)} top-level while-loop(s) on the deque")
        return 1
    loop = loops[0]
    # ---- pop
    pops = [c for c in au.calls(loop) if q_method(c, Q, ("popleft", "pop"))]
    pushes = [(c, owner) for owner in [fn] + list(local_defs(fn).values()) for c in au.calls(owner) if q_method(c, Q, ("append", "appendleft"))]
    if len(pops) != 1 or not pushes:
        ctx.fail("C10-B1", site, "BFS loop does not pop exactly once per iteration / never enqueues", f"{len(pops)} pop(s), {len(pushes)} enqueue(s)")
        return 1
    pop = pops[0]
    ends = {("append", "popleft"): True, ("appendleft", "pop"): True}
    fifo = all(ends.get((c.func.attr, pop.func.attr), False) for c, _ in pushes)
    ctx.check(fifo, "C10-B1", ctx.site(modname, fn, pop),
              f"work-list is not first-in first-out (enqueue with {sorted({c.func.attr for c, _ in pushes})}, dequeue with {pop.func.attr})",
              "a last-in first-out work-list gives a depth-first tree: elements no longer get their minimum hop distance to the root",
              note="append + popleft")
    pst = au.enclosing_stmt(pop)
    if not (isinstance(pst, ast.Assign) and pst.value is pop and isinstance(pst.targets[0], ast.Tuple) and len(pst.targets[0].elts) == 2
            and all(isinstance(x, ast.Name) for x in pst.targets[0].elts) and any(pst is s for s in loop.body)):
        ctx.fail("C10-B1", site, "popped entry is not unpacked as a (parent, child) pair at the top of the loop", au.src(pst))
        return 1
    pair = [x.id for x in pst.targets[0].elts]
    # ---- seen table and child: from the mark `seen[c] = True` on a member of the popped pair
    SEEN = child = None
    for st in au.stmts(loop.body):
        if isinstance(st, ast.Assign) and len(st.targets) == 1 and sk.is_sub(st.targets[0]) and st.targets[0].slice.id in pair \
                and au.const(st.value) is True:
            SEEN, child = st.targets[0].value.id, st.targets[0].slice.id
    if SEEN is None:
        for st in loop.body:
            if isinstance(st, ast.If):
                for e, p in sk.atoms([(st.test, True)]):
                    if sk.is_sub(e) and e.slice.id in pair:
                        SEEN, child = e.value.id, e.slice.id
    if SEEN is None:
        ctx.fail("C10-B1", site, "`seen[child] = True` is missing or conditional after the seen test",
                 "popped elements are never marked: the enqueue guard `not seen[..]` never closes and the search does not terminate on a cycle")
        return 1
    par = [x for x in pair if x != child][0]
    ci, pi = pair.index(child), pair.index(par)
    helpers0 = {name for name, d_ in local_defs(fn).items() if any(q_method(c, Q, ("append", "appendleft")) for c in au.calls(d_))}
    expansions = [c for c in au.calls(loop) if (isinstance(c.func, ast.Name) and c.func.id in helpers0) or q_method(c, Q, ("append", "appendleft"))]
    pop_tested = bool(expansions) and all(sk.has_atom(sk.path_conds(c, stop=loop), sk.sub(SEEN, child), False) for c in expansions)
    # ---- X1: every enqueue
    n_push = 0
    for c, owner in pushes:
        n_push += 1
        s = ctx.site(modname, owner, c)
        t = c.args[0] if len(c.args) == 1 else None
        if not (isinstance(t, ast.Tuple) and len(t.elts) == 2 and all(isinstance(x, ast.Name) for x in t.elts)):
            ctx.fail("C10-X1", s, "enqueued entry is not a (parent, child) pair of names", au.src(c))
            continue
        pc, cc = t.elts[pi].id, t.elts[ci].id
        conds = sk.atoms(sk.path_conds(c))
        bo = sym.Bindings(owner)
        ctx.check(sk.has_atom(conds, sk.sub(SEEN, cc), False) or pop_tested, "C10-X1", s,
                  "enqueue of a neighbour is guarded by `not seen[neighbour]` neither when pushed nor when popped",
                  "every expansion re-enqueues the element it came from: the search never terminates",
                  note="enqueue guarded by not seen")
        ctx.check(pc in au.params(owner) or owner is fn, "C10-X1", s,
                  "pair pushed does not have the expanded element in the parent slot",
                  f"`{au.src(t)}` is popped as ({', '.join(pair)})", note="(expanded element, neighbour) pushed in pop order")
        # the element crossed: loop variable from which the neighbour is derived (or the neighbour itself)
        fors = [a for a in au.ancestors(c) if isinstance(a, ast.For)]
        lvars = set(au.assigned_names(fors[0].target)) if fors else set()
        d = bo.reaching(cc, c)
        if excl[0] == "call":
            okx = False
            for e, p in conds:
                if isinstance(e, ast.Call) and au.is_self_attr(e.func, excl[1]) and not p:
                    args = sorted(a.id if isinstance(a, ast.Name) else "?" for a in e.args)
                    okx = args == sorted([pc, cc])
            ctx.check(okx, "C10-X1", s, f"enqueue is not guarded by `not self.{excl[1]}(parent, neighbour)`",
                      "the tree crosses an excluded edge (avoid_edges / avoid_boundary are ignored)",
                      note=f"enqueue guarded by not self.{excl[1]}")
        else:
            okx = False
            crossed = None
            for e, p in conds:
                if isinstance(e, ast.Compare) and len(e.ops) == 1 and isinstance(e.ops[0], ast.In) and not p \
                        and au.is_self_attr(e.comparators[0], excl[1]) and isinstance(e.left, ast.Name):
                    crossed = e.left.id
            if crossed is not None and crossed in lvars and fors:
                # the neighbour must be derived (assignment-only data dependence) from the crossed element
                dep = {cc}
                changed = True
                while changed:
                    changed = False
                    for st_ in au.stmts(fors[0].body):
                        if isinstance(st_, ast.Assign):
                            tg = {nm for t_ in st_.targets for nm in au.assigned_names(t_)}
                            if tg & dep and not au.names(st_.value) <= dep:
                                dep |= au.names(st_.value)
                                changed = True
                okx = crossed in dep
            ctx.check(okx, "C10-X1", s, f"enqueue is not guarded by `<element crossed> not in self.{excl[1]}`",
                      f"the tree crosses a forbidden element; the test must be on the loop variable the neighbour is derived from "
                      f"(found: {crossed})", note=f"enqueue guarded by not in self.{excl[1]}")
        if isinstance(d, ast.Call) and au.call_tail(d) in MAY_RETURN_NONE:
            nn = any(isinstance(e, ast.Compare) and isinstance(e.ops[0], ast.Is) and isinstance(e.left, ast.Name) and e.left.id == cc
                     and au.const(e.comparators[0], 0) is None and isinstance(e.comparators[0], ast.Constant) and not p for e, p in conds)
            ctx.check(nn, "C10-X1", s, f"neighbour returned by {au.call_tail(d)} is used without `is not None` test",
                      f"{au.call_tail(d)} returns None on the border: seen[None] raises TypeError", note="neighbour is not None")
    # ---- B1: mark, parent, expansion, root
    marks = [st for st in au.stmts(loop.body) if isinstance(st, ast.Assign) and len(st.targets) == 1 and sk.is_sub(st.targets[0], SEEN, child)]
    gm = [m for m in marks if au.const(m.value) is True
          and all(sk.is_sub(e, SEEN, child) and not p for e, p in sk.atoms(sk.path_conds(m, stop=loop)))]
    ctx.check(len(gm) == 1 and len(marks) == 1, "C10-B1", site, "`seen[child] = True` is missing or conditional after the seen test",
              "without the mark the guards `not seen[..]` never close: the search does not terminate on a mesh with a cycle",
              note="child marked seen once")
    pas = [st for st in au.stmts(loop.body) if isinstance(st, ast.Assign) and len(st.targets) == 1 and self_tab(st.targets[0], "parent")]
    okp = len(pas) == 1 and pas[0].targets[0].slice.id == child and isinstance(pas[0].value, ast.Name) and pas[0].value.id == par
    has_test = okp and sk.has_atom(sk.path_conds(pas[0], stop=loop), sk.sub(SEEN, child), False)
    ctx.check(okp, "C10-B1", site, "parent table is not written exactly once per popped pair as parent[child] = expanded element",
              f"stores found: {[au.src(x) for x in pas]}; popped pair ({', '.join(pair)}), child = {child}",
              note="parent[child] = parent of the pair, once")
    DIST = None
    has_dist = False
    if okp:
        extra = [(e, p) for e, p in sk.atoms(sk.path_conds(pas[0], stop=loop)) if not (sk.is_sub(e, SEEN, child) and not p)]
        if extra:
            # accepted idiom: dist[parent] + 1 < dist[child], with dist[child] = dist[parent] + 1 in the same block
            okd = False
            if len(extra) == 1 and extra[0][1] and isinstance(extra[0][0], ast.Compare):
                def symf(n):
                    if sk.is_sub(n) and n.slice.id == par:
                        return "P_" + n.value.id
                    if sk.is_sub(n) and n.slice.id == child:
                        return "C_" + n.value.id
                    raise order.Unsupported(au.src(n))
                tabs = {n.value.id for n in au.walk(extra[0][0]) if sk.is_sub(n)}
                if len(tabs) == 1:
                    DIST = tabs.pop()
                    try:
                        w = _cmp_dist(extra[0][0], DIST, par, child)
                    except order.Unsupported:
                        w = False
                    blk, _ = au.enclosing_block(pas[0])
                    upd = [st for st in blk if isinstance(st, ast.Assign) and len(st.targets) == 1 and sk.is_sub(st.targets[0], DIST, child)]
                    okd = w and len(upd) == 1 and _is_plus_one(upd[0].value, DIST, par)
                    dinit = b.reaching(DIST, loop)
                    okd = okd and dinit is not None and any(au.src(n) in ("float('inf')", "math.inf", "inf", "np.inf") for n in ast.walk(dinit))
                    has_dist = okd
            ctx.check(okd, "C10-B1", ctx.site(modname, fn, pas[0]),
                      "parent assignment is guarded by something other than `dist[parent] + 1 < dist[child]` on a +inf-initialised table "
                      "updated in the same block",
                      f"guard `{au.src(extra[0][0])}`: on first visit the child must always receive its parent", note="hop-distance guard is vacuous on first visit")
    if okp:
        ctx.check(has_test or has_dist, "C10-B1", ctx.site(modname, fn, pas[0]),
                  "parent assignment is protected neither by `if seen[child]: continue` nor by a hop-distance comparison",
                  "an element reachable along two routes is queued twice: the later (never shorter) route overwrites its parent - the tree "
                  "no longer gives minimum hop distances and parent may contain a cycle", note="parent assigned once: seen test / distance guard")
    # expansion of the child
    helpers = {name for name, d in local_defs(fn).items() if any(q_method(c, Q, ("append", "appendleft")) for c in au.calls(d))}
    exp = [c for c in au.calls(loop) if isinstance(c.func, ast.Name) and c.func.id in helpers and len(c.args) == 1
           and isinstance(c.args[0], ast.Name) and c.args[0].id == child
           and all(sk.is_sub(e, SEEN, child) and not p for e, p in sk.atoms(sk.path_conds(c, stop=loop)))]
    inline = [c for c, owner in pushes if owner is fn and any(a is loop for a in au.ancestors(c))]
    ctx.check(bool(exp) or bool(inline), "C10-B1", site, "newly reached child is not expanded (its neighbours are not enqueued)",
              "the tree stops at depth 1", note="child expanded after marking")
    # root: marked seen + expanded before the loop
    idx = sk.index_in(fn.body, loop)
    pre = fn.body[:idx]
    root_seen = [st for st in pre if isinstance(st, ast.Assign) and len(st.targets) == 1 and isinstance(st.targets[0], ast.Subscript)
                 and isinstance(st.targets[0].value, ast.Name) and st.targets[0].value.id == SEEN
                 and au.is_self_attr(st.targets[0].slice, "root") and au.const(st.value) is True]
    ctx.check(len(root_seen) == 1, "C10-B1", site, "root is not marked seen before the loop",
              "a neighbour of the root enqueues (neighbour, root): the root gets a parent, parent/children contain a cycle and traverse never ends",
              note="seen[root] = True")
    root_exp = [c for st in pre for c in au.calls(st) if isinstance(c.func, ast.Name) and c.func.id in helpers and len(c.args) == 1
                and au.is_self_attr(c.args[0], "root")]
    ctx.check(len(root_exp) == 1, "C10-B1", site, "neighbours of the root are not enqueued before the loop", "the tree stays empty",
              note="root expanded")
    dseen = b.reaching(SEEN, loop)
    ctx.check(dseen is not None and not any(isinstance(n, ast.Constant) and n.value is True for n in ast.walk(dseen)), "C10-B1", site,
              "seen table does not start all-False", "", note="seen starts False")
    if DIST is not None:
        rd = [st for st in pre if isinstance(st, ast.Assign) and len(st.targets) == 1 and isinstance(st.targets[0], ast.Subscript)
              and isinstance(st.targets[0].value, ast.Name) and st.targets[0].value.id == DIST
              and au.is_self_attr(st.targets[0].slice, "root") and au.const(st.value) == 0]
        ctx.check(len(rd) == 1, "C10-B1", site, "hop distance of the root is not set to 0 before the loop",
                  "inf + 1 < inf is False: no element ever receives a parent", note="dist[root] = 0")
    # ---- P1
    p1_children(ctx, modname, cname, fn, kind, loop, DIST)
    return 1


def _cmp_dist(e, DIST, par, child):
    """is `e` equivalent to dist[par] + 1 < dist[child] (or <=)?  decided on the integer points p, c in 0..3"""
    def val(x, p, c):
        if sk.is_sub(x, DIST, par):
            return p
        if sk.is_sub(x, DIST, child):
            return c
        k = order.fold_const(x)
        if k is not None:
            return k
        if isinstance(x, ast.BinOp) and isinstance(x.op, (ast.Add, ast.Sub)):
            l, r = val(x.left, p, c), val(x.right, p, c)
            return l + r if isinstance(x.op, ast.Add) else l - r
        raise order.Unsupported(au.src(x))
    if not (isinstance(e, ast.Compare) and len(e.ops) == 1 and type(e.ops[0]) in order.CMP):
        raise order.Unsupported(au.src(e))
    strict = nonstrict = True
    for p in range(4):
        for c in range(6):
            got = order.CMP[type(e.ops[0])](val(e.left, p, c), val(e.comparators[0], p, c))
            strict = strict and got == (p + 1 < c)
            nonstrict = nonstrict and got == (p + 1 <= c)
    return strict or nonstrict


def _is_plus_one(e, DIST, par):
    terms = []

    def rec(x):
        if isinstance(x, ast.BinOp) and isinstance(x.op, ast.Add):
            rec(x.left); rec(x.right)
        else:
            terms.append(x)
    rec(e)
    return len(terms) == 2 and any(sk.is_sub(t, DIST, par) for t in terms) and any(au.const(t) == 1 for t in terms)


def p1_children(ctx, modname, cname, fn, kind, loop, DIST):
    site = ctx.site(modname, fn)
    b = sym.Bindings(fn)
    ch = [c for c in au.calls(fn) if au.call_tail(c) == "append" and isinstance(c.func.value, ast.Subscript)
          and au.is_self_attr(c.func.value.value, "children") and len(c.args) == 1]
    ed = [c for c in au.calls(fn) if au.call_tail(c) == "append" and au.is_self_attr(c.func.value, "edges") and len(c.args) == 1]
    if len(ch) != 1 or len(ed) != 1:
        ctx.fail("C10-P1", site, "children / edges are not each filled by exactly one append",
                 f"{len(ch)} children[..].append, {len(ed)} edges.append: the two tables must be built together from the parent table")
        return
    c1, c2 = ch[0], ed[0]
    st1, st2 = au.enclosing_stmt(c1), au.enclosing_stmt(c2)
    blk1, _ = au.enclosing_block(st1)
    blk2, _ = au.enclosing_block(st2)
    ctx.check(blk1 is blk2, "C10-P1", ctx.site(modname, fn, c1), "children[p].append(v) and edges.append(keyify(p, v)) are not in the same block",
              "an element listed as a child without its tree edge (or the reverse): len(edges) != number of reached elements - 1",
              note="children and edges filled in one block")
    fors = [a for a in au.ancestors(c1) if isinstance(a, ast.For)]
    if not fors or not isinstance(fors[0].target, ast.Name):
        ctx.fail("C10-P1", site, "children are not built in a loop over the element ids", "")
        return
    lp = fors[0]
    v = lp.target.id
    ctx.check(isinstance(lp.iter, ast.Attribute) and lp.iter.attr == "id_" + kind and au.src(lp.iter.value) == "self.mesh"
              and any(lp is s for s in fn.body) and sk.index_in(fn.body, lp) > sk.index_in(fn.body, loop),
              "C10-P1", ctx.site(modname, fn, lp), f"children are not built over every id of self.mesh.id_{kind} after the search",
              f"loop over `{au.src(lp.iter)}`", note=f"for v in self.mesh.id_{kind}")
    pe = c1.func.value.slice
    pres = b.resolve(pe, at=st1, keep=(v,))
    okc = self_tab(pres, "parent", v) and isinstance(c1.args[0], ast.Name) and c1.args[0].id == v
    ctx.check(okc, "C10-P1", ctx.site(modname, fn, c1), "children table is not filled as children[parent[v]].append(v)",
              f"`{au.src(c1)}` with index resolving to `{au.src(pres)}`: children must be the inverse of parent", note="children[parent[v]].append(v)")
    k = c2.args[0]
    oke = isinstance(k, ast.Call) and au.call_tail(k) == "keyify" and len(k.args) == 2 and \
        sorted(au.src(b.resolve(a, at=st2, keep=(v,))) for a in k.args) == sorted([v, f"self.parent[{v}]"])
    ctx.check(oke, "C10-P1", ctx.site(modname, fn, c2), "tree edge is not recorded as keyify(parent[v], v)",
              f"`{au.src(c2)}`", note="edges.append(keyify(parent[v], v))")
    conds = sk.atoms(sk.path_conds(c1, stop=lp))
    nn = [(e, p) for e, p in conds if isinstance(e, ast.Compare) and isinstance(e.ops[0], ast.Is) and isinstance(e.comparators[0], ast.Constant)
          and e.comparators[0].value is None and not p and self_tab(b.resolve(e.left, at=st1, keep=(v,)), "parent", v)]
    ctx.check(len(nn) == 1, "C10-P1", ctx.site(modname, fn, c1), "children / edges block is not guarded by `parent[v] is not None`",
              "the root and unreached elements have no parent: children[None] raises TypeError", note="guarded by parent[v] is not None")
    others = [(e, p) for e, p in conds if (e, p) not in nn]
    oko = True
    for e, p in others:
        # accepted: `if isinf(dist[v]): continue`
        if isinstance(e, ast.Call) and au.call_tail(e) == "isinf" and len(e.args) == 1 and sk.is_sub(e.args[0], None, v) and not p:
            # accepted idiom `if isinf(dist[v]): continue` - sound only if dist is finite for every element that has a parent:
            # dist[child] = dist[parent] + 1 next to the parent store, dist[root] = 0
            D = e.args[0].value.id
            pst = [st for st in au.stmts(loop.body) if isinstance(st, ast.Assign) and len(st.targets) == 1 and self_tab(st.targets[0], "parent")]
            okd = False
            if len(pst) == 1 and isinstance(pst[0].value, ast.Name):
                child_, par_ = pst[0].targets[0].slice.id, pst[0].value.id
                pb, _ = au.enclosing_block(pst[0])
                okd = any(isinstance(x, ast.Assign) and len(x.targets) == 1 and sk.is_sub(x.targets[0], D, child_) and _is_plus_one(x.value, D, par_)
                          for x in pb)
            pre = fn.body[:sk.index_in(fn.body, loop)]
            okd = okd and any(isinstance(x, ast.Assign) and len(x.targets) == 1 and isinstance(x.targets[0], ast.Subscript)
                              and isinstance(x.targets[0].value, ast.Name) and x.targets[0].value.id == D
                              and au.is_self_attr(x.targets[0].slice, "root") and au.const(x.value) == 0 for x in pre)
            ctx.check(okd, "C10-P1", ctx.site(modname, fn, c1),
                      "elements are skipped on `isinf(dist[v])` but dist is not updated together with the parent table",
                      f"`{D}[child] = {D}[parent] + 1` must sit next to `parent[child] = parent` (and {D}[root] = 0): otherwise reached elements keep "
                      "an infinite distance and are left out of children / edges", note="dist finite exactly for reached elements")
            continue
        oko = False
    ctx.check(oko, "C10-P1", ctx.site(modname, fn, c1), "children / edges block has an extra guard",
              f"guards: {[('' if p else 'not ') + au.src(e) for e, p in others]}: every element with a parent must be listed", note="no extra guard")


# ----------------------------------------------------------------------- exclusion predicate of the vertex tree
def _avoid_atoms(e, a, b_):
    """atom name of a sub-expression of _avoid_edge / Kruskal's filter, or None"""
    if isinstance(e, ast.Compare) and len(e.ops) == 1 and isinstance(e.ops[0], ast.Is) and au.is_self_attr(e.left, "_avoidedges") \
            and isinstance(e.comparators[0], ast.Constant) and e.comparators[0].value is None:
        return "AE_none"
    if isinstance(e, ast.Compare) and len(e.ops) == 1 and isinstance(e.ops[0], ast.In) and au.is_self_attr(e.comparators[0], "_avoidedges") \
            and isinstance(e.left, ast.Call) and au.call_tail(e.left) == "edge_id" \
            and sorted(au.src(x) for x in e.left.args) == sorted([a, b_]):
        return "IN"
    if au.is_self_attr(e, "_avoidbound"):
        return "AB"
    if isinstance(e, ast.Call) and au.call_tail(e) == "isinstance" and len(e.args) == 2 and au.src(e.args[0]) == "self.mesh" \
            and au.src(e.args[1]) == "PolyLine":
        return "PL"
    if isinstance(e, ast.Call) and au.call_tail(e) == "is_edge_on_border" and sorted(au.src(x) for x in e.args) == sorted([a, b_]):
        return "BORDER"
    return None


def _eval_bool(e, env, a, b_, unknown):
    e2 = ast.Compare(left=e.left, ops=[ast.Is()], comparators=e.comparators) if isinstance(e, ast.Compare) and len(e.ops) == 1 \
        and isinstance(e.ops[0], ast.IsNot) else None
    if e2 is not None:
        return not _eval_bool(e2, env, a, b_, unknown)
    e3 = ast.Compare(left=e.left, ops=[ast.In()], comparators=e.comparators) if isinstance(e, ast.Compare) and len(e.ops) == 1 \
        and isinstance(e.ops[0], ast.NotIn) else None
    if e3 is not None:
        return not _eval_bool(e3, env, a, b_, unknown)

    def av(x):
        if isinstance(x, ast.Compare) and len(x.ops) == 1 and isinstance(x.ops[0], (ast.IsNot, ast.NotIn)):
            return _eval_bool(x, env, a, b_, unknown)
        k = _avoid_atoms(x, a, b_)
        if k is None:
            unknown.append(au.src(x))
            return False
        return env[k]
    return sk.truth_eval(e, av)


def avoid_edge_predicate(ctx):
    """avoid(a, b) == (avoid_edges given and edge in it) or (avoid_boundary and not a polyline and edge on border)"""
    fn = ctx.repo.func(EDGE, "EdgeSpanningTree._avoid_edge")
    site = ctx.site(EDGE, fn)
    ps = au.params(fn, skip_self=True)
    if len(ps) != 2:
        ctx.fail("C10-X1", site, "_avoid_edge does not take the two endpoints", "")
        return
    a, b_ = ps
    try:
        f = order.return_formula(fn.body)
    except order.Unsupported as ex:
        ctx.fail("C10-X1", site, "_avoid_edge is no longer an if/return chain", str(ex))
        return
    unknown = []

    def evf(f, env):
        if f[0] == "ite":
            return evf(f[2], env) if _eval_bool(f[1], env, a, b_, unknown) else evf(f[3], env)
        if f[0] == "ret":
            return _eval_bool(f[1], env, a, b_, unknown) if f[1] is not None else False
        return False
    bad = None
    n = 0
    for vals in itertools.product((False, True), repeat=5):
        env = dict(zip(("AE_none", "IN", "AB", "PL", "BORDER"), vals))
        n += 1
        want = ((not env["AE_none"]) and env["IN"]) or (env["AB"] and not env["PL"] and env["BORDER"])
        if bool(evf(f, env)) != want:
            bad = bad or env
    ctx.check(bad is None and not unknown, "C10-X1", site,
              "_avoid_edge is not `(avoid_edges given and edge in avoid_edges) or (avoid_boundary and not polyline and edge on border)`",
              f"differs from the specification for {bad}" + (f"; unrecognised atoms {sorted(set(unknown))}" if unknown else ""),
              note=f"{n} truth assignments")


# ----------------------------------------------------------------------- C10-C1
TREE_COMPUTES = [
    (EDGE, "EdgeSpanningTree"), (EDGE, "EdgeMinimalSpanningTree"), (FACE, "FaceSpanningTree"), (CELL, "CellSpanningTree"),
]


def _sets_flag_on_all_exits(ctx, modname, cname, fn, depth=0):
    """(ok, offending exits) : `self._computed = True` (directly, or through super().compute() that does) on every normal exit"""
    repo = ctx.repo
    mod = repo.module(modname)
    cls = repo.cls(modname, cname)

    def super_sets():
        if depth > 4:
            return False
        for bm, bc in repo.class_bases(mod, cls):
            ms = repo.methods(bm, bc)
            if "compute" in ms:
                m2, f2, owner = ms["compute"]
                return _sets_flag_on_all_exits(ctx, m2.name, owner._qualname, f2, depth + 1)[0]
        return False

    def t_stmt(state, st):
        for n in au.walk(st):
            if isinstance(n, ast.Call) and isinstance(n.func, ast.Attribute) and n.func.attr == "compute" \
                    and isinstance(n.func.value, ast.Call) and au.call_tail(n.func.value) == "super":
                if super_sets():
                    state = state | {"computed"}
        if isinstance(st, (ast.Assign, ast.AnnAssign)):
            for t in au.assign_targets(st):
                if au.is_self_attr(t, "_computed"):
                    state = (state | {"computed"}) if au.const(st.value) is True else (state - {"computed"})
        return state
    fl = flow.Flow(t_stmt)
    fl.run(fn.body, frozenset())
    bad = [(k, n) for k, n, s in fl.exits if k in ("return", "fall") and "computed" not in s]
    return (not bad and bool([e for e in fl.exits if e[0] in ("return", "fall")])), bad


def c1_computed(ctx):
    repo = ctx.repo
    n = 0
    for modname, cname in TREE_COMPUTES:
        fn = repo.func(modname, cname + ".compute")
        ok, bad = _sets_flag_on_all_exits(ctx, modname, cname, fn)
        n += 1
        ctx.check(ok, "C10-C1", ctx.site(modname, fn), f"{cname}.compute leaves `_computed` unset on a normal exit",
                  "traverse() then raises 'Tree was not computed' although compute() was called (forests call traverse right after compute): "
                  + ", ".join(f"{k} at line {getattr(nd, 'lineno', 'end')}" for k, nd in bad),
                  note="_computed set on all normal exits")
    # initial value and writers
    init = repo.func(BASE, "SpanningTree.__init__")
    w = [st for st in au.stmts(init.body) if isinstance(st, (ast.Assign, ast.AnnAssign)) and any(au.is_self_attr(t, "_computed") for t in au.assign_targets(st))]
    ctx.check(len(w) == 1 and au.const(w[0].value) is False and not au.guards(w[0]), "C10-C1", ctx.site(BASE, init),
              "`_computed` is not initialised to False in SpanningTree.__init__",
              "a fresh tree must refuse traversal (or: AttributeError in traverse when the flag is never created)", note="_computed = False in __init__")
    for modname in (BASE, EDGE, FACE, CELL):
        m = repo.module(modname)
        for q, f in m.funcs.items():
            for st in au.stmts(f.body):
                if isinstance(st, (ast.Assign, ast.AnnAssign)) and any(isinstance(t, ast.Attribute) and t.attr == "_computed" for t in au.assign_targets(st)):
                    if au.const(st.value) is True:
                        ctx.check(f.name == "compute", "C10-C1", ctx.site(modname, f, st), f"`_computed = True` outside a compute method ({q})",
                                  "the flag would claim tables that were never built", note="flag set by compute only")
    # traverse tests the flag before touching the tables
    tr = repo.func(BASE, "SpanningTree.traverse")
    site = ctx.site(BASE, tr)
    uses = {}

    def scan(state, node):
        for x in au.walk(node):
            if au.is_self_attr(x) and x.attr in ("children", "root", "parent", "edges"):
                uses[id(x)] = (x, "tested" in state)

    def t_stmt(state, st):
        if isinstance(st, flow._ForHead):
            scan(state, st.iter)
        else:
            scan(state, st)
        return state

    def t_test(state, e):
        scan(state, e)
        return state

    def refine(state, e, branch):
        for x, p in sk.atoms([(e, branch)]):
            if au.is_self_attr(x, "_computed") and p:
                return state | {"tested"}
        return state
    flow.Flow(t_stmt, t_test, refine).run(tr.body, frozenset())
    if not uses:
        ctx.fail("C10-C1", site, "traverse no longer reads self.root / self.children", "the traversal must walk the children table from the root")
    badu = [x for x, okk in uses.values() if not okk]
    ctx.check(not badu, "C10-C1", site, "traverse reads the tree tables without having tested `self._computed`",
              "on a tree that was not computed traverse silently yields the bare root instead of raising: "
              + ", ".join(sorted({au.src(x) for x in badu})), note="`if not self._computed: raise` dominates the reads")


# ----------------------------------------------------------------------- C10-K1
def k1_kruskal(ctx):
    repo = ctx.repo
    fn = repo.func(EDGE, "EdgeMinimalSpanningTree.compute")
    site = ctx.site(EDGE, fn)
    b = sym.Bindings(fn)
    # main loop: for e in <edges>: a, b = self.mesh.edges[e]; if not uf.connected(a, b): ...
    ufs = {t.id for st in au.stmts(fn.body) if isinstance(st, ast.Assign) and isinstance(st.value, ast.Call)
           and au.call_tail(st.value) == "UnionFind" for t in st.targets if isinstance(t, ast.Name)}
    if len(ufs) != 1:
        ctx.fail("C10-K1", site, "Kruskal's union-find not found", f"{len(ufs)} UnionFind object(s)")
        return
    UF = next(iter(ufs))
    ufdef = b.defs.get(UF)
    ctx.check(isinstance(ufdef, ast.Call) and len(ufdef.args) == 1 and au.src(ufdef.args[0]) == "self.mesh.id_vertices", "C10-K1", site,
              "union-find is not created over every vertex id", f"`{au.src(ufdef)}`: find() raises ValueError for a missing element",
              note="UnionFind(self.mesh.id_vertices)")
    unions = [c for c in au.calls(fn) if isinstance(c.func, ast.Attribute) and isinstance(c.func.value, ast.Name)
              and c.func.value.id == UF and c.func.attr == "union"]
    if len(unions) != 1 or len(unions[0].args) != 2 or not all(isinstance(x, ast.Name) for x in unions[0].args):
        ctx.fail("C10-K1", site, "Kruskal does not call union(a, b) exactly once", f"{len(unions)} union call(s)")
        return
    un = unions[0]
    A, B = (x.id for x in un.args)
    ust = au.enclosing_stmt(un)
    blk, owner = au.enclosing_block(ust)
    fors = [a for a in au.ancestors(un) if isinstance(a, ast.For)]
    if not fors or not isinstance(fors[0].target, ast.Name) or not isinstance(fors[0].iter, ast.Name):
        ctx.fail("C10-K1", site, "Kruskal's loop `for e in edges` over the sorted edge list not found", "")
        return
    lp = fors[0]
    E, LIST = lp.target.id, lp.iter.id
    s = ctx.site(EDGE, fn, ust)
    conds = sk.atoms(sk.path_conds(un, stop=lp))
    guard = [(e, p) for e, p in conds if isinstance(e, ast.Call) and isinstance(e.func, ast.Attribute) and e.func.attr == "connected"
             and isinstance(e.func.value, ast.Name) and e.func.value.id == UF]
    okg = len(guard) == 1 and not guard[0][1] and sorted(au.src(x) for x in guard[0][0].args) == sorted([A, B]) and len(conds) == 1
    ctx.check(okg, "C10-K1", s, "union is not guarded exactly by `not uf.connected(a, b)` on the same pair",
              f"guards: {[('' if p else 'not ') + au.src(e) for e, p in conds]}: an edge closing a cycle must be rejected, every other admissible edge accepted",
              note="if not uf.connected(a, b)")
    # endpoints come from the loop edge
    ends_ok = False
    for st in lp.body:
        if isinstance(st, ast.Assign) and isinstance(st.targets[0], ast.Tuple) and [getattr(x, "id", None) for x in st.targets[0].elts] in ([A, B], [B, A]):
            ends_ok = au.src(st.value) == f"self.mesh.edges[{E}]" and not au.guards(st, stop=lp)
    ctx.check(ends_ok, "C10-K1", s, "endpoints tested / united are not those of the edge being scanned",
              f"expected `{A}, {B} = self.mesh.edges[{E}]`", note="a, b = self.mesh.edges[e]")
    # partners in the same block
    def in_blk(c):
        return any(au.enclosing_stmt(c) is x for x in blk)
    edge_rec = [c for c in au.calls(lp) if au.call_tail(c) == "append" and au.is_self_attr(c.func.value, "edges")]
    ok_e = len(edge_rec) == 1 and in_blk(edge_rec[0]) and isinstance(edge_rec[0].args[0], ast.Call) and au.call_tail(edge_rec[0].args[0]) == "keyify" \
        and sorted(au.src(x) for x in edge_rec[0].args[0].args) == sorted([A, B])
    ctx.check(ok_e, "C10-K1", s, "accepted edge is not recorded as edges.append(keyify(a, b)) in the union block",
              f"{len(edge_rec)} edges.append in the loop", note="edges.append(keyify(a, b)) with the union")
    adds = [c for c in au.calls(lp) if au.call_tail(c) in ("add", "append") and isinstance(c.func.value, ast.Subscript)
            and isinstance(c.func.value.value, ast.Name) and len(c.args) == 1]
    pairs = sorted((au.src(c.func.value.slice), au.src(c.args[0])) for c in adds if in_blk(c))
    tabs = {c.func.value.value.id for c in adds}
    ok_n = pairs == sorted([(A, B), (B, A)]) and len(adds) == 2 and len(tabs) == 1
    ctx.check(ok_n, "C10-K1", s, "adjacency of the accepted edge is not inserted in both directions in the union block",
              f"inserts: {pairs}: the orientation pass walks this adjacency from the root", note="nb[a].add(b), nb[b].add(a) with the union")
    NB = next(iter(tabs)) if len(tabs) == 1 else None
    # sort before the loop, by the weight callable, ascending
    sorts = [c for st in fn.body for c in au.calls(st) if isinstance(c.func, ast.Attribute) and c.func.attr == "sort"
             and isinstance(c.func.value, ast.Name) and c.func.value.id == LIST and any(st is x for x in fn.body)]
    top_lp = sk.top_stmt_in(fn.body, lp)
    ok_s = False
    why = f"{len(sorts)} top-level `{LIST}.sort(...)`"
    wname = None
    if len(sorts) == 1:
        c = sorts[0]
        st = au.enclosing_stmt(c)
        key = [kw.value for kw in c.keywords if kw.arg == "key"]
        rev = [kw.value for kw in c.keywords if kw.arg == "reverse"]
        asc = not rev or au.const(rev[0]) is False
        cb = sk.callable_bindings(fn)
        if key:
            k = key[0]
            if isinstance(k, ast.Name) and k.id in cb:
                wname = k.id
            elif isinstance(k, ast.Lambda) and len(k.args.args) == 1 and isinstance(k.body, ast.Call) and isinstance(k.body.func, ast.Name) \
                    and k.body.func.id in cb and len(k.body.args) == 1 and isinstance(k.body.args[0], ast.Name) and k.body.args[0].id == k.args.args[0].arg:
                wname = k.body.func.id
        last_def = max([sk.index_in(fn.body, sk.top_stmt_in(fn.body, x)) for x in au.stmts(fn.body)
                        if LIST in [nm for t in au.assign_targets(x) for nm in au.assigned_names(t)]] or [-1])
        pos = sk.index_in(fn.body, st)
        ok_s = bool(wname) and asc and not c.args and last_def < pos < sk.index_in(fn.body, top_lp)
        why = f"`{au.src(c)}` (key callable: {wname}, ascending: {asc}, placed after the list is built and before the loop: {last_def < pos < sk.index_in(fn.body, top_lp)})"
    ctx.check(ok_s, "C10-K1", site, "edge list is not sorted ascending by the weight callable between its construction and Kruskal's loop", why,
              note=f"{LIST}.sort(key=weight) before the loop")
    # weight callables: one binding per weight mode, each reading the edge id it is given
    if wname:
        for st, args in sk.callable_bindings(fn)[wname]:
            if not isinstance(st, ast.Assign):
                continue
            lam = st.value
            ps = [x.arg for x in lam.args.args]
            if order.fold_const(lam.body) is not None:
                ctx.ok("C10-K1", ctx.site(EDGE, fn, st), "constant weight")
                continue
            subs = [x for x in au.walk(lam.body) if isinstance(x, ast.Subscript)]
            okw = len(ps) == 1 and len(subs) == 1 and isinstance(subs[0].slice, ast.Name) and subs[0].slice.id == ps[0] and lam.body is subs[0]
            src_ok = True
            if okw and isinstance(subs[0].value, ast.Name):
                d = b.reaching(subs[0].value.id, st)
                src_ok = isinstance(d, ast.Call) and au.call_tail(d) in ("attr_edge_length", "edge_length") and d.args and au.src(d.args[0]) == "self.mesh"
            elif okw:
                src_ok = au.is_self_attr(subs[0].value, "weights")
            ctx.check(okw and src_ok, "C10-K1", ctx.site(EDGE, fn, st), "weight callable does not read the per-edge table at the edge id it receives",
                      f"`{au.src(lam)}`", note="weight(e) = table[e]")
    # admissible edges: same border predicate as the BFS tree
    ifs = [st for st in fn.body if isinstance(st, ast.If) and st.orelse and all(
        any(isinstance(x, ast.Assign) and isinstance(x.targets[0], ast.Name) and x.targets[0].id == LIST for x in br) for br in (st.body, st.orelse))]
    if len(ifs) != 1:
        ctx.fail("C10-K1", site, "selection of the admissible edges (all / interior only) not found", f"{len(ifs)} if/else binding `{LIST}`")
    else:
        sel = ifs[0]
        unknown = []
        res = {}
        for ab, pl in itertools.product((False, True), repeat=2):
            env = {"AB": ab, "PL": pl, "AE_none": True, "IN": False, "BORDER": False}
            t = _eval_bool(sel.test, env, "?", "?", unknown)
            br = sel.body if t else sel.orelse
            val = [x.value for x in br if isinstance(x, ast.Assign) and isinstance(x.targets[0], ast.Name) and x.targets[0].id == LIST][-1]
            res[(ab, pl)] = _edge_selection(val)
        want = {(ab, pl): ("filtered" if (ab and not pl) else "all") for ab, pl in res}
        ctx.check(res == want and not unknown, "C10-K1", ctx.site(EDGE, fn, sel),
                  "admissible edges are not `all edges, or the non-border edges exactly when avoid_boundary is set on a non-polyline`",
                  f"selection per (avoid_boundary, polyline): {res}" + (f"; unrecognised atoms {unknown}" if unknown else "")
                  + " - the BFS tree excludes an edge iff avoid_boundary and not polyline and is_edge_on_border",
                  note="border exclusion agrees with _avoid_edge on the 4 switch combinations")
    # orientation pass
    k2_orientation(ctx, fn, NB, lp)


def _edge_selection(val):
    """'all' | 'filtered' | 'other' for the expression building the admissible edge list"""
    if isinstance(val, ast.ListComp) and len(val.generators) == 1:
        g = val.generators[0]
        if not g.ifs and isinstance(g.target, ast.Name) and au.src(g.iter) == "self.mesh.id_edges" and au.src(val.elt) == g.target.id:
            return "all"
        if len(g.ifs) == 1 and isinstance(g.iter, ast.Call) and au.call_tail(g.iter) == "enumerate" and au.src(g.iter.args[0]) == "self.mesh.edges" \
                and isinstance(g.target, ast.Tuple) and len(g.target.elts) == 2 and isinstance(g.target.elts[0], ast.Name) \
                and isinstance(g.target.elts[1], ast.Tuple) and len(g.target.elts[1].elts) == 2:
            e = g.target.elts[0].id
            a, b_ = (au.src(x) for x in g.target.elts[1].elts)
            t = g.ifs[0]
            if isinstance(t, ast.UnaryOp) and isinstance(t.op, ast.Not) and _avoid_atoms(t.operand, a, b_) == "BORDER" \
                    and au.src(t.operand.func.value) == "self.mesh" and au.src(val.elt) == e:
                return "filtered"
    if isinstance(val, ast.Call) and au.call_tail(val) in ("list", "sorted") and len(val.args) == 1 and au.src(val.args[0]) == "self.mesh.id_edges":
        return "all"
    return "other:" + au.src(val)[:60]


def k2_orientation(ctx, fn, NB, kruskal_loop):
    site = ctx.site(EDGE, fn)
    qs = deque_names(fn)
    loops = [st for st in fn.body if isinstance(st, ast.While) and qs & au.names(st.test)]
    if len(qs) != 1 or len(loops) != 1 or NB is None:
        ctx.fail("C10-K1", site, "orientation pass (walk of the Kruskal adjacency from the root) not found", "")
        return
    Q = next(iter(qs))
    loop = loops[0]
    ctx.check(sk.index_in(fn.body, loop) > sk.index_in(fn.body, sk.top_stmt_in(fn.body, kruskal_loop)), "C10-K1", site,
              "orientation pass runs before Kruskal's loop", "", note="orientation after Kruskal")
    pops = [c for c in au.calls(loop) if q_method(c, Q, ("popleft", "pop"))]
    pst = au.enclosing_stmt(pops[0]) if len(pops) == 1 else None
    if not (isinstance(pst, ast.Assign) and isinstance(pst.targets[0], ast.Tuple) and len(pst.targets[0].elts) == 2
            and all(isinstance(x, ast.Name) for x in pst.targets[0].elts)):
        ctx.fail("C10-K1", site, "orientation pass does not pop a (node, previous) pair", "")
        return
    v, prev = (x.id for x in pst.targets[0].elts)
    par = [st for st in loop.body if isinstance(st, ast.Assign) and len(st.targets) == 1 and self_tab(st.targets[0], "parent", v)]
    ctx.check(len(par) == 1 and isinstance(par[0].value, ast.Name) and par[0].value.id == prev, "C10-K1", ctx.site(EDGE, fn, loop),
              "orientation pass does not set parent[node] = previous", f"{[au.src(x) for x in par]}", note="parent[v] = prev")
    chs = [st for st in loop.body if isinstance(st, ast.Assign) and len(st.targets) == 1 and self_tab(st.targets[0], "children", v)]
    okc = False
    if len(chs) == 1 and isinstance(chs[0].value, ast.ListComp) and len(chs[0].value.generators) == 1:
        g = chs[0].value.generators[0]
        x = g.target.id if isinstance(g.target, ast.Name) else None
        okc = x is not None and sk.is_sub(g.iter, NB, v) and au.src(chs[0].value.elt) == x and len(g.ifs) == 1 and \
            sk.has_atom([(g.ifs[0], True)], ast.Compare(left=ast.Name(id=x, ctx=ast.Load()), ops=[ast.Eq()], comparators=[ast.Name(id=prev, ctx=ast.Load())]), False)
    ctx.check(okc, "C10-K1", ctx.site(EDGE, fn, loop), "children[node] is not `the Kruskal neighbours of node except the previous node`",
              f"{[au.src(x) for x in chs]}: keeping the previous node walks every tree edge back and forth for ever; dropping others loses subtrees",
              note="children[v] = [x for x in nb[v] if x != prev]")
    enq = [c for c in au.calls(loop) if q_method(c, Q, ("append", "appendleft"))]
    oke = False
    if len(enq) == 1 and isinstance(enq[0].args[0], ast.Tuple) and len(enq[0].args[0].elts) == 2:
        fr = [a for a in au.ancestors(enq[0]) if isinstance(a, ast.For)]
        t = enq[0].args[0].elts
        oke = bool(fr) and isinstance(fr[0].target, ast.Name) and self_tab(fr[0].iter, "children", v) and au.src(t[0]) == fr[0].target.id \
            and au.src(t[1]) == v and not sk.path_conds(enq[0], stop=loop) and chs and before_stmt(chs[0], fr[0])
    ctx.check(oke, "C10-K1", ctx.site(EDGE, fn, loop), "orientation pass does not enqueue (child, node) for every child of node",
              f"{[au.src(c) for c in enq]}", note="queue.append((child, v)) for child in children[v]")
    # root initialisation
    idx = sk.index_in(fn.body, loop)
    pre = fn.body[:idx]
    rp = [st for st in pre if isinstance(st, ast.Assign) and au.src(st.targets[0]) == "self.parent[self.root]" and au.const(st.value, 0) is None
          and isinstance(st.value, ast.Constant)]
    rc = [st for st in pre if isinstance(st, ast.Assign) and au.src(st.targets[0]) == "self.children[self.root]"
          and isinstance(st.value, ast.Call) and au.call_tail(st.value) == "list" and au.src(st.value.args[0]) == f"{NB}[self.root]"]
    rq = [c for st in pre if isinstance(st, ast.For) for c in au.calls(st) if q_method(c, Q, ("append", "appendleft"))
          and isinstance(st.target, ast.Name) and au.src(st.iter) in (f"{NB}[self.root]", "self.children[self.root]")
          and au.src(c.args[0]) == f"({st.target.id}, self.root)"]
    ctx.check(len(rp) == 1 and len(rc) == 1 and len(rq) == 1, "C10-K1", site,
              "orientation pass is not seeded with parent[root] = None, children[root] = neighbours of root, and (neighbour, root) entries",
              f"{len(rp)} / {len(rc)} / {len(rq)} of the three seeds found", note="root seeds")


def before_stmt(a, b_):
    return (a.lineno, a.col_offset) < (b_.lineno, b_.col_offset)


# ----------------------------------------------------------------------- C10-F1
def f1_forests(ctx):
    repo = ctx.repo
    n = 0
    for modname, cname, kind, tree, excl_field in FORESTS:
        fn = repo.func(modname, cname + ".compute")
        site = ctx.site(modname, fn)
        n += 1
        b = sym.Bindings(fn)
        lps = [st for st in fn.body if isinstance(st, ast.For) and isinstance(st.target, ast.Name)
               and isinstance(st.iter, ast.Attribute) and st.iter.attr.startswith("id_") and au.src(st.iter.value) == "self.mesh"]
        if len(lps) != 1:
            ctx.fail("C10-F1", site, "forest loop over the element ids not found", f"{len(lps)} candidate loop(s)")
            continue
        lp = lps[0]
        x = lp.target.id
        ctx.check(lp.iter.attr == "id_" + kind, "C10-F1", ctx.site(modname, fn, lp), f"forest iterates over {lp.iter.attr} instead of id_{kind}",
                  "every element of the kind spanned by the trees must be covered once", note=f"for x in self.mesh.id_{kind}")
        roots = [c for c in au.calls(lp) if au.call_tail(c) == "append" and au.is_self_attr(c.func.value, "roots")]
        if len(roots) != 1:
            ctx.fail("C10-F1", site, "forest does not record exactly one root per new tree", f"{len(roots)} roots.append in the loop")
            continue
        r = roots[0]
        conds = sk.atoms(sk.path_conds(r, stop=lp))
        VIS = None
        if len(conds) == 1 and sk.is_sub(conds[0][0], None, x) and not conds[0][1]:
            VIS = conds[0][0].value.id
        ctx.check(VIS is not None and au.src(r.args[0]) == x, "C10-F1", ctx.site(modname, fn, r),
                  "a root is not recorded for exactly the elements found unvisited (`if not visited[x]: roots.append(x)`)",
                  f"guards {[('' if p else 'not ') + au.src(e) for e, p in conds]}, recorded `{au.src(r.args[0])}`: one tree per connected component",
                  note="roots.append(x) under not visited[x]")
        if VIS is None:
            continue
        blk, _ = au.enclosing_block(au.enclosing_stmt(r))
        # tree built from x, computed, recorded
        made = [st for st in blk if isinstance(st, ast.Assign) and isinstance(st.targets[0], ast.Name)
                and any(isinstance(c.func, ast.Name) and c.func.id == tree for c in au.calls(st))]
        okt = False
        why = f"no `{tree}(...)` bound in the block of the root"
        T = None
        if len(made) == 1:
            T = made[0].targets[0].id
            val = made[0].value
            ctor = [c for c in au.calls(made[0]) if isinstance(c.func, ast.Name) and c.func.id == tree][0]
            computed = (isinstance(val, ast.Call) and val.func is ctor and not val.args) or \
                any(isinstance(c.func, ast.Attribute) and c.func.attr == "compute" and au.src(c.func.value) == T
                    for st in blk for c in au.calls(st))
            init = repo.func(modname, tree + ".__init__")
            amap = sk.resolve_positional(ctor, init, skip_self=True) or {}
            ps = au.params(init, skip_self=True)
            okm = au.src(amap.get(ps[0])) == "self.mesh" if ps and ps[0] in amap else False
            okr = len(ps) > 1 and ps[1] in amap and au.src(amap[ps[1]]) == x
            okx = True
            if excl_field:
                okx = excl_field in amap and au.is_self_attr(amap[excl_field], excl_field)
            okt = computed and okm and okr and okx
            why = f"`{au.src(val)}`: computed={computed}, mesh={okm}, root={okr}, exclusions forwarded={okx}"
        ctx.check(okt, "C10-F1", ctx.site(modname, fn, made[0] if made else r),
                  f"the tree of a new root is not `{tree}(self.mesh, x{', self.' + excl_field if excl_field else ''})` computed before use", why,
                  note=f"{tree}(self.mesh, x, ...)() in the root block")
        if T is None:
            continue
        rec = [c for st in blk for c in au.calls(st) if au.call_tail(c) == "append" and au.is_self_attr(c.func.value, "trees")
               and au.src(c.args[0]) == T and any(st is s for s in blk)]
        ctx.check(len(rec) == 1, "C10-F1", ctx.site(modname, fn, r), "the new tree is not appended to self.trees in the block of its root",
                  "roots and trees must stay parallel lists", note="trees.append(tree) with roots.append(x)")
        marks = [st for st in au.stmts(lp.body) if isinstance(st, ast.Assign) and len(st.targets) == 1 and isinstance(st.targets[0], ast.Subscript)
                 and isinstance(st.targets[0].value, ast.Name) and st.targets[0].value.id == VIS]
        okm = False
        if len(marks) == 1 and au.const(marks[0].value) is True:
            fr = [a for a in au.ancestors(marks[0]) if isinstance(a, ast.For)]
            if fr and fr[0] is not lp and any(fr[0] is s for s in blk):
                it = fr[0].iter
                tg = fr[0].target
                first = tg.elts[0] if isinstance(tg, ast.Tuple) and len(tg.elts) == 2 else None
                okm = isinstance(it, ast.Call) and isinstance(it.func, ast.Attribute) and it.func.attr == "traverse" and au.src(it.func.value) == T \
                    and first is not None and au.src(marks[0].targets[0].slice) == au.src(first) and not sk.path_conds(marks[0], stop=fr[0])
        ctx.check(okm, "C10-F1", ctx.site(modname, fn, marks[0] if marks else r),
                  "visited is not marked for every node of the new tree's traversal (`for node, _ in tree.traverse(): visited[node] = True`)",
                  "elements of the component would start trees of their own / elements of other components would be skipped",
                  note="visited marked from tree.traverse()")
        dv = b.reaching(VIS, lp)
        okv = dv is not None and not any(isinstance(n_, ast.Constant) and n_.value is True for n_ in ast.walk(dv)) and \
            f"self.mesh.{kind}" in au.src(dv) or (dv is not None and f"self.mesh.id_{kind}" in au.src(dv))
        ctx.check(okv, "C10-F1", site, f"visited table is not all-False over self.mesh.{kind}", au.src(dv) if dv is not None else "no definition",
                  note=f"visited = [False] * len(self.mesh.{kind})")


# ----------------------------------------------------------------------- C10-T1
def t1_traverse(ctx):
    fn = ctx.repo.func(BASE, "SpanningTree.traverse")
    site = ctx.site(BASE, fn)
    qs = deque_names(fn)
    loops = [st for st in fn.body if isinstance(st, ast.While)]
    if len(qs) != 1 or len(loops) != 1:
        ctx.fail("C10-T1", site, "work-list loop of traverse not found", "")
        return
    Q = next(iter(qs))
    loop = loops[0]
    seeds = [c for st in fn.body[:sk.index_in(fn.body, loop)] for c in au.calls(st) if q_method(c, Q, ("append",))]
    ctx.check(len(seeds) == 1 and au.src(seeds[0].args[0]) == "(self.root, None)" and not au.guards(seeds[0]), "C10-T1", site,
              "traverse is not seeded with (self.root, None)", f"{[au.src(c) for c in seeds]}", note="queue.append((self.root, None))")
    # pop: popleft for BFS, pop for DFS
    popper = local_defs(fn)
    pop_calls = [c for c in au.calls(loop) if (isinstance(c.func, ast.Name) and c.func.id in popper) or q_method(c, Q, ("pop", "popleft"))]
    if len(pop_calls) != 1:
        ctx.fail("C10-T1", site, "traverse does not pop exactly one entry per iteration", "")
        return
    pst = au.enclosing_stmt(pop_calls[0])
    if not (isinstance(pst, ast.Assign) and isinstance(pst.targets[0], ast.Tuple) and len(pst.targets[0].elts) == 2):
        ctx.fail("C10-T1", site, "popped entry of traverse is not unpacked as (node, parent)", "")
        return
    node, par = (au.src(x) for x in pst.targets[0].elts)
    b = sym.Bindings(fn)
    if isinstance(pop_calls[0].func, ast.Name):
        pf = popper[pop_calls[0].func.id]
        try:
            f = order.return_formula(pf.body)
        except order.Unsupported:
            f = None
        res = {}
        if f is not None:
            def ev(f, isbfs):
                if f[0] == "ite":
                    t = f[1]
                    val = None
                    d = b.resolve(t, keep=("order",))
                    for e, p in sk.atoms([(d, True)]):
                        if isinstance(e, ast.Compare) and au.src(e.left) == "order" and isinstance(e.ops[0], ast.Eq):
                            lit = au.const(e.comparators[0])
                            val = ((lit == "BFS") == isbfs) == p if lit in ("BFS", "DFS") else None
                    if val is None:
                        return None
                    return ev(f[2], isbfs) if val else ev(f[3], isbfs)
                if f[0] == "ret" and isinstance(f[1], ast.Call) and q_method(f[1], Q, ("pop", "popleft")):
                    return f[1].func.attr
                return None
            res = {"BFS": ev(f, True), "DFS": ev(f, False)}
        ctx.check(res == {"BFS": "popleft", "DFS": "pop"}, "C10-T1", ctx.site(BASE, pf),
                  "traverse does not pop the oldest entry in BFS order and the newest in DFS order",
                  f"dequeue per order: {res}: breadth-first must be first-in first-out, depth-first last-in first-out (entries are appended on the right)",
                  note="BFS -> popleft, DFS -> pop")
    ys = [n for n in au.walk(loop) if isinstance(n, ast.Yield)]
    oky = len(ys) == 1 and ys[0].value is not None and au.src(ys[0].value) == f"({node}, {par})" and not sk.path_conds(ys[0], stop=loop) \
        and any(au.enclosing_stmt(ys[0]) is x for x in loop.body)
    ctx.check(oky, "C10-T1", site, "traverse does not yield the popped (node, parent) pair exactly once per iteration",
              f"{[au.src(y) for y in ys]}", note="yield node, parent")
    enq = [c for c in au.calls(loop) if q_method(c, Q, ("append",))]
    oke = False
    if len(enq) == 1:
        fr = [a for a in au.ancestors(enq[0]) if isinstance(a, ast.For)]
        oke = bool(fr) and isinstance(fr[0].target, ast.Name) and au.src(fr[0].iter) == f"self.children[{node}]" \
            and au.src(enq[0].args[0]) == f"({fr[0].target.id}, {node})" and not sk.path_conds(enq[0], stop=loop)
    ctx.check(oke, "C10-T1", site, "traverse does not enqueue (child, node) for every child of the popped node",
              f"{[au.src(c) for c in enq]}", note="queue.append((child, node)) for child in self.children[node]")
    # forest traverse delegates with the order
    ff = ctx.repo.func(BASE, "SpanningForest.traverse")
    tc = [c for c in au.calls(ff) if au.call_tail(c) == "traverse"]
    okf = len(tc) == 1 and isinstance(au.parent(tc[0]), ast.For) and (
        [au.src(a) for a in tc[0].args] == ["order"] or [(k.arg, au.src(k.value)) for k in tc[0].keywords] == [("order", "order")])
    fr = [a for a in au.ancestors(tc[0]) if isinstance(a, ast.For)] if tc else []
    okf = okf and len(fr) == 2 and au.src(fr[1].iter) == "self.trees" and au.src(tc[0].func.value) == au.src(fr[1].target)
    ctx.check(okf, "C10-T1", ctx.site(BASE, ff), "SpanningForest.traverse does not traverse every tree with the requested order", "",
              note="for tree in self.trees: tree.traverse(order=order)")


# ----------------------------------------------------------------------- C10-S1
def s1_kinds(ctx):
    repo = ctx.repo
    KINDS = ("vertices", "edges", "faces", "cells")
    n = 0
    table = [(m, c, k, ("__init__", "compute")) for m, c, k, _ in BFS_TREES] + [(m, c, k, ("compute",)) for m, c, k, _, _ in FORESTS]
    for modname, cname, kind, meths in table:
        for mname in meths:
            fn = repo.func(modname, f"{cname}.{mname}")
            seen_kinds = []
            for x in au.walk(fn, into_funcs=True):
                if isinstance(x, ast.Attribute) and au.src(x.value) == "self.mesh":
                    if x.attr.startswith("id_") and x.attr[3:] in KINDS:
                        seen_kinds.append((x.attr[3:], x))
                    elif x.attr in KINDS and isinstance(au.parent(x), ast.Call) and au.call_tail(au.parent(x)) == "len":
                        seen_kinds.append((x.attr, x))
            for k, x in seen_kinds:
                n += 1
                ctx.check(k == kind, "C10-S1", ctx.site(modname, fn, x), f"{cname}.{mname} sizes / iterates a table over {k} instead of {kind}",
                          f"`{au.src(au.enclosing_stmt(x))[:70]}`: tables of one tree are all indexed by {kind} ids", note=f"tables over {kind}")
        if (modname, cname) in [(m, c) for m, c, _, _ in BFS_TREES]:
            init = repo.func(modname, cname + ".__init__")
            rr = [c for c in au.calls(init) if au.call_tail(c) == "randint"]
            okr = len(rr) == 1 and len(rr[0].args) == 2 and au.const(rr[0].args[0]) == 0
            if okr:
                try:
                    p = sym.to_poly(rr[0].args[1], atom_of=lambda e: "N" if au.src(e) == f"len(self.mesh.{kind})" else None, opaque=False)
                    okr = p == sym.Poly.atom("N") - 1
                except sym.NotPoly:
                    okr = False
            ctx.check(okr, "C10-S1", ctx.site(modname, init), f"random root of {cname} is not randint(0, len(self.mesh.{kind}) - 1)",
                      "randint is inclusive on both ends: an upper bound of len(...) picks a root that does not exist", note="random root in range")
            tabs = {}
            for st in au.stmts(init.body):
                if isinstance(st, ast.Assign) and au.is_self_attr(st.targets[0]) and st.targets[0].attr in ("parent", "children", "edges"):
                    tabs[st.targets[0].attr] = st.value
            okt = set(tabs) == {"parent", "children", "edges"} and isinstance(tabs["edges"], ast.List) and not tabs["edges"].elts \
                and isinstance(tabs["children"], ast.ListComp) and isinstance(tabs["children"].elt, ast.List) and not tabs["children"].elt.elts
            ctx.check(okt, "C10-S1", ctx.site(modname, init), f"{cname}.__init__ does not create parent / a fresh list per element in children / empty edges",
                      f"{ {k: au.src(v) for k, v in tabs.items()} }: `[[]] * n` would share one children list between all elements",
                      note="fresh tables")
    if n < 1:
        ctx.fail("C10-S1", ctx.site(EDGE, repo.func(EDGE, "EdgeSpanningTree.__init__")), "tables sized by the element kind not found",
                 "no `len(self.mesh.<kind>)` / `self.mesh.id_<kind>` in the tree classes")


# ----------------------------------------------------------------------- C10-N1
TREE_INITS = [(EDGE, "EdgeSpanningTree"), (EDGE, "EdgeMinimalSpanningTree"), (FACE, "FaceSpanningTree"), (CELL, "CellSpanningTree"),
              (EDGE, "EdgeSpanningForest"), (FACE, "FaceSpanningForest"), (CELL, "CellSpanningForest")]


def _bool_context_uses(fn, name):
    """Name nodes of `name` evaluated for truthiness: operand of and/or/not, test of if / while / conditional expression / comprehension filter / assert"""
    out = []
    for n in au.walk(fn):
        if not (isinstance(n, ast.Name) and n.id == name and isinstance(n.ctx, ast.Load)):
            continue
        p = au.parent(n)
        if isinstance(p, ast.BoolOp) or (isinstance(p, ast.UnaryOp) and isinstance(p.op, ast.Not)):
            out.append(n)
        elif isinstance(p, (ast.If, ast.While, ast.IfExp, ast.Assert)) and p.test is n:
            out.append(n)
        elif isinstance(p, ast.comprehension) and any(n is t for t in p.ifs):
            out.append(n)
        elif isinstance(p, ast.Call) and au.call_tail(p) == "bool":
            out.append(n)
    return out


def n1_none_defaults(ctx):
    repo = ctx.repo
    n = 0
    for modname, cname in TREE_INITS:
        if not repo.has_func(modname, cname + ".__init__"):
            continue
        fn = repo.func(modname, cname + ".__init__")
        site = ctx.site(modname, fn)
        pos = fn.args.posonlyargs + fn.args.args
        ndef = len(fn.args.defaults)
        none_params = [a.arg for a, d in zip(pos[len(pos) - ndef:], fn.args.defaults) if isinstance(d, ast.Constant) and d.value is None] if ndef else []
        none_params += [a.arg for a, d in zip(fn.args.kwonlyargs, fn.args.kw_defaults) if isinstance(d, ast.Constant) and d.value is None]
        # root selectors: None-defaulted parameters that reach an assignment of self.root (value or guarding test)
        root_stores = [st for st in au.stmts(fn.body) if isinstance(st, (ast.Assign, ast.AnnAssign)) and st.value is not None
                       and any(au.is_self_attr(t, "root") for t in au.assign_targets(st))]
        for p_ in none_params:
            reaches = any(p_ in au.names(st.value) or any(p_ in au.names(e) for e, _ in sk.path_conds(st)) for st in root_stores)
            if not reaches:
                continue
            n += 1
            truthy = _bool_context_uses(fn, p_)
            ctx.check(not truthy, "C10-N1", ctx.site(modname, fn, truthy[0] if truthy else fn),
                      f"{cname}.__init__ tests the None-defaulted root parameter `{p_}` by truthiness",
                      f"`{au.src(au.enclosing_stmt(truthy[0]))[:80]}`: element 0 is falsy, so a requested root 0 is treated as 'not given' and replaced "
                      "by a random root (every forest starts its first tree from element 0)" if truthy else "",
                      note=f"{p_} tested with `is None`")
            # the requested root reaches self.root unchanged when given
            given = []
            for st in root_stores:
                conds = sk.atoms(sk.path_conds(st))
                v = st.value
                if isinstance(v, ast.IfExp):
                    ta = sk.atoms([(v.test, True)])
                    if len(ta) == 1 and _is_none_test(ta[0][0], p_):
                        given.append(v.orelse if ta[0][1] else v.body)
                    continue
                for e, pol in conds:
                    if _is_none_test(e, p_) and not pol:
                        given.append(v)
            okg = len(given) == 1 and isinstance(given[0], ast.Name) and given[0].id == p_
            if not truthy:
                ctx.check(okg, "C10-N1", site, f"{cname}.__init__ does not store the requested `{p_}` in self.root when it is given",
                          f"stores under `{p_} is not None`: {[au.src(g) for g in given]}", note=f"self.root = {p_} when given")
    if n < 1:
        ctx.fail("C10-N1", ctx.site(EDGE, repo.func(EDGE, "EdgeSpanningTree.__init__")), "root parameter of the tree constructors not found",
                 "no None-defaulted parameter reaches self.root")


def _is_none_test(e, name):
    return isinstance(e, ast.Compare) and len(e.ops) == 1 and isinstance(e.ops[0], ast.Is) and isinstance(e.left, ast.Name) and e.left.id == name \
        and isinstance(e.comparators[0], ast.Constant) and e.comparators[0].value is None
