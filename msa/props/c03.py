"""C03 - volume connectivity answers agree with the cell list (structural clauses)."""
from __future__ import annotations
import ast
from .. import au, sym, order
from ..rules import common, rows, tables
from .c01 import lazy_rules

VOL = "mesh.datatypes.volume"
MD = "mesh.mesh_data"
BORDER = "processing.border"

EXPLANATION = (
    "Static conformance of the volume connectivity: typestate of the lazily built caches for every public entry point of "
    "the three volume classes (R-LAZY), row-type agnosticism of volume.py (R-ROW), invariants and mutual agreement of the "
    "literal tetrahedron / hexahedron face tables, lock-step construction of inverse index maps and inverse adjacency "
    "relations, border predicate and if/else partitions. Structural necessary conditions only.")

RULES = {
    "C03-L1": "every dereference / return of a lazily built cache field is dominated by its initialisation on all paths from every public entry point",
    "C03-L3": "every lazy cache field is assigned in the __init__ chain",
    "C03-L4": "clear() resets every cache with a writer; partial resets cover whole groups",
    "C03-R1": "index rows are used only through sequence-agnostic operations (R-ROW) in volume.py and border.py",
    "C03-T1": "literal tetra tables: face i omits vertex i, closed, consistently oriented, all copies equal; hexa tables closed and equal",
    "C03-P1": "index maps to/from the boundary and inverse adjacency relations are filled in lock-step",
    "C03-O1": "a face is on the border iff it has fewer than two incident cells; boundary / interior lists are if/else partitions",
    "C03-M1": "border flags of vertices / edges are set from every vertex / every side of every border face",
    "C03-L5": "the cold path of a lazily cached accessor only builds the cache, it never answers by itself",
    "C03-W1": "rotation around an edge: the sort keys handed out by the two walks (and the key of the starting cell) are pairwise distinct",
    "C03-P2": "the index maps of the boundary range over exactly the border classification (boundary_faces / their vertices / boundary_edges)",
    "C03-E1": "incidence tables are filled from every incidence: edge->faces / edge->cells from every edge of every face, vertex->cells from every "
              "vertex of every cell, adjacent cell keyed by (cell, local face) with the cell on the other side",
    "C03-D2": "definitional accessors (other_face_side, cell_to_cell) return what their definition says",
    "C03-D1": "boundary-connectivity queries translate their argument with m2b_<kind> and every result with b2m_<kind of the result>",
}


def run(ctx):
    repo = ctx.repo
    lazy_rules(ctx, [(VOL, "VolumeMesh._Connectivity"), (VOL, "VolumeMesh._BoundaryConnectivity"), (VOL, "VolumeMesh")],
               "C03", min_entries=70, min_guards=30)
    rows.selfcheck()
    rows.check_module(ctx, "C03-R1", VOL, min_uses=20)
    rows.check_module(ctx, "C03-R1", BORDER, min_uses=1)
    t1_tables(ctx)
    p1_maps(ctx)
    o1_border(ctx)
    m1_marks(ctx)
    w1_edge_rotation(ctx)
    p2_map_domains(ctx)
    d1_boundary_translation(ctx)
    e1_incidence_tables(ctx)
    d2_definitional(ctx)


def t1_tables(ctx):
    repo = ctx.repo
    found = {4: [], 8: []}
    for modname, q, oriented in [(MD, "RawMeshData._generate_cell_faces", True),
                                 (MD, "RawMeshData._complete_faces_from_cells", True),
                                 (VOL, "VolumeMesh._Connectivity._compute_adjacent_cell", False)]:
        fn = repo.func(modname, q)
        tabs = tables.cell_tables(fn)
        if not tabs:
            ctx.fail("C03-T1", ctx.site(modname, fn), f"no literal face table over the unpacked cell vertices in {fn.name}",
                     "the faces of a cell are enumerated from a literal table; it is gone or no longer recognisable")
            continue
        for k, faces, node in tabs:
            site = ctx.site(modname, fn, node)
            if k == 4:
                probs = tables.tet_problems(faces, oriented=oriented)
                ctx.check(not probs, "C03-T1", site, f"tetrahedron face table {faces} in {fn.name} is ill-formed",
                          "; ".join(probs), note=f"tet table {faces}")
            else:
                probs = tables.hex_problems(faces)
                ctx.check(not probs, "C03-T1", site, f"hexahedron face table {faces} in {fn.name} is ill-formed",
                          "; ".join(probs), note=f"hex table {faces}")
            found[k].append((modname, fn, faces, oriented, node))
    ctx.require_count("C03-T1 tetrahedron tables", len(found[4]), 3)
    ctx.require_count("C03-T1 hexahedron tables", len(found[8]), 2)
    for k in (4, 8):
        ref = found[k][0]
        for other in found[k][1:]:
            oriented = ref[3] and other[3]
            same = tables.canon(ref[2], oriented) == tables.canon(other[2], oriented)
            ctx.check(same, "C03-T1", ctx.site(other[0], other[1], other[4]),
                      f"{'tetrahedron' if k == 4 else 'hexahedron'} face table of {other[1].name} differs from the one of {ref[1].name}",
                      f"{other[2]} vs {ref[2]}: the i-th face of a cell must be the same face everywhere "
                      f"(cell_faces, completed faces and adjacent-cell lookup index the same table)")
    # implicit tables  C[:i] + C[i+1:]  are covered by R-ROW; if rewritten as comprehension check 'j != i'
    fn = repo.func(VOL, "VolumeMesh._Connectivity._compute_cell_adj")
    site = ctx.site(VOL, fn)
    # the i-th adjacent face must omit exactly vertex i: look for a construction over C that drops index i
    ok = False
    for st in au.stmts(fn.body):
        if isinstance(st, ast.For) and isinstance(st.target, ast.Name) and isinstance(st.iter, ast.Call) \
                and au.call_tail(st.iter) == "range" and au.const(st.iter.args[0]) == 4:
            i = st.target.id
            for n in au.walk(st):
                if isinstance(n, ast.BinOp) and isinstance(n.op, ast.Add) and isinstance(n.left, ast.Subscript) \
                        and isinstance(n.right, ast.Subscript) and isinstance(n.left.slice, ast.Slice) and isinstance(n.right.slice, ast.Slice):
                    ok = ok or (au.src(n.left.slice.upper) == i and n.left.slice.lower is None
                                and au.src(n.right.slice.lower) == f"{i} + 1" and n.right.slice.upper is None)
                if isinstance(n, (ast.ListComp, ast.GeneratorExp, ast.SetComp)) and len(n.generators) == 1:
                    g = n.generators[0]
                    for t in g.ifs:
                        if isinstance(t, ast.Compare) and len(t.ops) == 1 and isinstance(t.ops[0], ast.NotEq) \
                                and {au.src(t.left), au.src(t.comparators[0])} >= {i}:
                            ok = True
    ctx.check(ok, "C03-T1", site, "the i-th face of a tetrahedron in _compute_cell_adj is not `all vertices but the i-th`",
              "cell_to_face(c)[i] must be the face opposite to the i-th vertex")


def p1_maps(ctx):
    repo = ctx.repo
    fn = repo.func(VOL, "VolumeMesh._BoundaryConnectivity.__init__")
    common.inverse_map_pairs(ctx, "C03-P1", VOL, fn, [("m2b_edge", "b2m_edge")])
    fn = repo.func(VOL, "VolumeMesh._BoundaryConnectivity._extract_surface_boundary")
    common.inverse_map_pairs(ctx, "C03-P1", VOL, fn, [("m2b_vertex", "b2m_vertex"), ("m2b_face", "b2m_face")], min_pairs=2)
    # the index used for the boundary vertex is the position at which it is appended
    enum_vertex_alignment(ctx, VOL, fn, "m2b_vertex", _raw_var(fn))
    fn = repo.func(BORDER, "extract_boundary_of_volume")
    # the two maps are local dictionaries: they are identified by their role (second and third component of the returned triple)
    rets = [st for st in fn.body if isinstance(st, ast.Return) and isinstance(st.value, ast.Tuple) and len(st.value.elts) == 3
            and all(isinstance(e, ast.Name) for e in st.value.elts[1:])]
    if not rets:
        ctx.fail("C03-P1", ctx.site(BORDER, fn), "extract_boundary_of_volume no longer returns (surface, boundary -> mesh map, mesh -> boundary map)", "")
        return
    stores = {s[1] for s in common.subscript_stores(fn)}
    a, b_ = (e.id for e in rets[-1].value.elts[1:])
    # which of the two is keyed by the mesh vertex: the one read when the faces are re-indexed
    common.inverse_map_pairs(ctx, "C03-P1", BORDER, fn, [(a, b_)])
    m2b = next((x for x in (a, b_) if any(isinstance(n, ast.Subscript) and isinstance(n.value, ast.Name) and n.value.id == x
                                          and isinstance(n.ctx, ast.Load) for n in au.walk(fn))), a)
    enum_vertex_alignment(ctx, BORDER, fn, m2b, _raw_var(fn))
    fn = repo.func(VOL, "VolumeMesh._Connectivity._compute_cell_adj")
    common.relation_pairs(ctx, "C03-P1", VOL, fn, "_adjC2F", "_adjF2C", min_sites=2)


def _raw_var(fn):
    """the local name bound to the RawMeshData() under construction"""
    names = [t.id for st in au.stmts(fn.body) if isinstance(st, ast.Assign) and isinstance(st.value, ast.Call)
             and au.call_tail(st.value) == "RawMeshData" and not st.value.args for t in st.targets if isinstance(t, ast.Name)]
    return names[0] if len(names) == 1 else None


def enum_vertex_alignment(ctx, modname, fn, mapname, meshvar):
    """for i,v in enumerate(S): X.vertices.append(src.vertices[v]); map[v] = i  - the new index of v is the
    position at which its coordinates are appended (one append per iteration, unconditional)."""
    ok = False
    for st in au.stmts(fn.body):
        if isinstance(st, ast.For) and isinstance(st.iter, ast.Call) and au.call_tail(st.iter) == "enumerate" \
                and isinstance(st.target, ast.Tuple) and len(st.target.elts) == 2:
            i, v = (x.id if isinstance(x, ast.Name) else None for x in st.target.elts)
            stores = [s for s in st.body if isinstance(s, ast.Assign) and isinstance(s.targets[0], ast.Subscript)
                      and common._base_name(s.targets[0].value) == mapname]
            if not stores:
                continue
            apps = [c for s in st.body for c in au.calls(s) if au.call_tail(c) == "append"
                    and au.src(c.func.value) == f"{meshvar}.vertices"]
            good_app = len(apps) == 1 and isinstance(apps[0].args[0], ast.Subscript) and au.src(apps[0].args[0].slice) == v \
                and any(apps[0] in au.calls(s) for s in st.body if isinstance(s, ast.Expr))
            good_store = len(stores) == 1 and au.src(stores[0].targets[0].slice) == v and au.src(stores[0].value) == i
            ok = good_app and good_store
    ctx.check(ok, "C03-P1", ctx.site(modname, fn),
              f"{fn.name}: boundary vertex index is not the position at which the vertex is appended",
              f"`for i,v in enumerate(..): {meshvar}.vertices.append(vertices[v]); {mapname}[v] = i` keeps the map and the "
              f"boundary vertex container aligned")


def o1_border(ctx):
    repo = ctx.repo
    fn = repo.func(VOL, "VolumeMesh.is_face_on_border")
    site = ctx.site(VOL, fn)
    b = sym.Bindings(fn)
    rets = [st for st in au.stmts(fn.body) if isinstance(st, ast.Return)]
    ok = len(rets) >= 1
    for r in rets:
        if r.value is None:
            ok = False
            continue
        def s(node):
            node = b.resolve(node, at=r) if isinstance(node, ast.Name) and b.reaching(node.id, r) is not None else node
            return "n"
        # every definition of the counted quantity must be len(face_to_cells(..))
        for n in au.names(r.value):
            defs = [v for st in au.stmts(fn.body) for nm, v in sym.split_assign(st) if nm == n]
            for d in defs:
                if not (isinstance(d, ast.Call) and au.call_tail(d) == "len" and d.args and isinstance(d.args[0], ast.Call)
                        and au.call_tail(d.args[0]) == "face_to_cells"):
                    ok = False
        try:
            w, k = order.compare(r.value, "n < 2", sym=lambda node: "n")
        except order.Unsupported:
            w = {"unsupported": au.src(r.value)}
        if w is not None:
            ok = False
            ctx.fail("C03-O1", site, f"is_face_on_border returns `{au.src(r.value)}`, not `number of incident cells < 2`",
                     f"differs for {w}")
    if ok:
        ctx.ok("C03-O1", site, "border iff fewer than two incident cells")
    elif not ctx.findings or ctx.findings[-1].rule != "C03-O1":
        ctx.fail("C03-O1", site, "is_face_on_border no longer counts the cells returned by face_to_cells", "")
    fn = repo.func(VOL, "VolumeMesh._compute_interior_boundary_faces")
    common.check_partition(ctx, "C03-O1", VOL, fn, "_boundary_faces", "_interior_faces", "is_face_on_border")
    fn = repo.func(VOL, "VolumeMesh._compute_interior_boundary_vertices")
    common.check_partition(ctx, "C03-O1", VOL, fn, "_boundary_vertices", "_interior_vertices", "_is_vertex_on_border")
    fn = repo.func(VOL, "VolumeMesh._compute_interior_boundary_edges")
    common.check_partition(ctx, "C03-O1", VOL, fn, "_boundary_edges", "_interior_edges", "_is_edge_on_border")


def m1_marks(ctx):
    repo = ctx.repo
    # vertices: for iF in boundary_faces: for v in faces[iF]: flag[v] = True
    fn = repo.func(VOL, "VolumeMesh._compute_interior_boundary_vertices")
    site = ctx.site(VOL, fn)
    ok = False
    for st in au.stmts(fn.body):
        if isinstance(st, ast.For) and au.src(st.iter) in ("self.boundary_faces", "self._boundary_faces") and isinstance(st.target, ast.Name):
            f = st.target.id
            for s in st.body:
                if isinstance(s, ast.For) and au.src(s.iter) == f"self.faces[{f}]" and isinstance(s.target, ast.Name):
                    v = s.target.id
                    ok = any(isinstance(x, ast.Assign) and au.src(x.targets[0]) == f"self._is_vertex_on_border[{v}]"
                             and au.const(x.value) is True for x in s.body)
    ctx.check(ok, "C03-M1", site, "border vertex flags are not set for every vertex of every border face",
              "a vertex is on the border iff it belongs to a border face")
    fn = repo.func(VOL, "VolumeMesh._compute_interior_boundary_edges")
    site = ctx.site(VOL, fn)
    ok = False
    b = sym.Bindings(fn)
    for st in au.stmts(fn.body):
        if isinstance(st, ast.For) and au.src(st.iter) in ("self.boundary_faces", "self._boundary_faces") and isinstance(st.target, ast.Name):
            f = st.target.id
            for s in au.stmts(st.body):
                if isinstance(s, ast.For) and isinstance(s.iter, ast.Call) and au.call_tail(s.iter) == "range" \
                        and len(s.iter.args) == 1 and isinstance(s.target, ast.Name):
                    i = s.target.id
                    n_ok = au.src(b.resolve(s.iter.args[0], at=s)) == f"len(self.faces[{f}])"
                    for x in s.body:
                        if isinstance(x, ast.Assign) and isinstance(x.targets[0], ast.Subscript) \
                                and au.is_self_attr(x.targets[0].value, "_is_edge_on_border") and au.const(x.value) is True:
                            key = b.resolve(x.targets[0].slice, at=x, keep=(i, f, au.src(s.iter.args[0])))
                            if isinstance(key, ast.Call) and au.call_tail(key) == "edge_id" and len(key.args) == 2:
                                offs = []
                                for a in key.args:
                                    if isinstance(a, ast.Subscript) and au.src(a.value) == f"self.faces[{f}]":
                                        offs.append(sym.mod_offset(a.slice, i, au.src(s.iter.args[0])))
                                    else:
                                        offs.append(None)
                                ok = n_ok and sorted(o for o in offs if o is not None) == [0, 1] and len(offs) == 2 and None not in offs
    ctx.check(ok, "C03-M1", site, "border edge flags are not set for every side (i, i+1 mod n) of every border face",
              "an edge is on the border iff it is a side of a border face")


# ---------------------------------------------------------------------------- W1
def w1_edge_rotation(ctx):
    fn = ctx.repo.func(VOL, "VolumeMesh._Connectivity._sort_edge_neighborhoods")
    site = ctx.site(VOL, fn)
    walks = [st for st in au.stmts(fn.body) if isinstance(st, ast.While)]
    if len(walks) != 2:
        ctx.fail("C03-W1", site, f"{len(walks)} walk loop(s) around an edge instead of the two directions", "")
        return
    info = {}   # key dict name -> list of (first key, step) per walk
    pre = {}    # key dict name -> set of constant keys assigned outside the walks
    for st in au.stmts(fn.body):
        if isinstance(st, ast.Assign) and isinstance(st.targets[0], ast.Subscript) and isinstance(st.targets[0].value, ast.Name) \
                and not any(a in walks for a in au.ancestors(st)) and isinstance(st.value, ast.Name):
            d = st.targets[0].value.id
            # value of the counter at this point: last constant assignment before in the same block
            blk, _ = au.enclosing_block(st)
            val = None
            for s2 in blk[:[id(x) for x in blk].index(id(st))]:
                if isinstance(s2, ast.Assign) and isinstance(s2.targets[0], ast.Name) and s2.targets[0].id == st.value.id:
                    val = au.const(s2.value)
            pre.setdefault(d, set()).add(val)
    for w in walks:
        blk, _ = au.enclosing_block(w)
        before = blk[:[id(x) for x in blk].index(id(w))]
        for i, st in enumerate(w.body):
            if isinstance(st, ast.Assign) and isinstance(st.targets[0], ast.Subscript) and isinstance(st.targets[0].value, ast.Name) \
                    and isinstance(st.value, ast.Name):
                d, var = st.targets[0].value.id, st.value.id
                init = None
                for s2 in before:
                    if isinstance(s2, ast.Assign) and isinstance(s2.targets[0], ast.Name) and s2.targets[0].id == var:
                        init = au.const(s2.value)
                steps = [(j, s2) for j, s2 in enumerate(w.body) if isinstance(s2, ast.AugAssign) and isinstance(s2.target, ast.Name)
                         and s2.target.id == var and au.const(s2.value) == 1 and isinstance(s2.op, (ast.Add, ast.Sub))]
                if init is None or len(steps) != 1:
                    info.setdefault(d, []).append(None)
                    continue
                j, sst = steps[0]
                step = 1 if isinstance(sst.op, ast.Add) else -1
                first = init + step if j < i else init
                info.setdefault(d, []).append((first, step))
    n = 0
    for d, ws in sorted(info.items()):
        n += 1
        if len(ws) != 2 or None in ws:
            ctx.fail("C03-W1", site, f"sort keys `{d}` are not handed out by one counter stepped once per iteration in each of the two walks", "")
            continue
        (f1, s1), (f2, s2) = ws
        extra = {x for x in pre.get(d, set()) if x is not None}
        # key sets {f1 + t*s1}, {f2 + t*s2} (t >= 0) and the pre-assigned keys must be pairwise disjoint
        in_seq = lambda x, f, st_: (x - f) * st_ >= 0
        disjoint = s1 == -s2 and ((s1 > 0 and f1 > f2) or (s1 < 0 and f1 < f2)) \
            and not any(in_seq(x, f1, s1) or in_seq(x, f2, s2) for x in extra)
        ctx.check(disjoint, "C03-W1", site,
                  f"the two walks around an edge hand out overlapping sort keys in `{d}` (first keys {f1} and {f2}, steps {s1:+d} and {s2:+d}, "
                  f"preset {sorted(extra)})",
                  "two elements with the same key stay in index order: the rotational order around the edge is lost",
                  note=f"{d}: keys {f1},{f1+s1},.. and {f2},{f2+s2},.. disjoint")
    ctx.check(n >= 2, "C03-W1", site, "cell and face sort keys of the rotation around an edge not found", "")
    sorts = [c for c in au.calls(fn) if au.call_tail(c) == "sort"]
    fields = {c.func.value.value.attr for c in sorts if isinstance(c.func.value, ast.Subscript) and au.is_self_attr(c.func.value.value)}
    ctx.check(fields == {"_adjE2C", "_adjE2F"}, "C03-W1", site, f"tables sorted around an edge: {sorted(fields)} (expected _adjE2C and _adjE2F)", "")


# ---------------------------------------------------------------------------- P2
def p2_map_domains(ctx):
    repo = ctx.repo
    fn = repo.func(VOL, "VolumeMesh._BoundaryConnectivity.__init__")
    ok = False
    for st in au.stmts(fn.body):
        if isinstance(st, ast.For) and any(isinstance(s, ast.Assign) and isinstance(s.targets[0], ast.Subscript)
                                           and au.is_self_attr(s.targets[0].value, "m2b_edge") for s in au.stmts(st.body)):
            it = st.iter
            ok = au.src(it) in ("self.complete_mesh.boundary_edges",) and isinstance(st.target, ast.Name) \
                and not any(isinstance(s, ast.Continue) for s in au.stmts(st.body))
    ctx.check(ok, "C03-P2", ctx.site(VOL, fn), "the edge maps of the boundary are not built from complete_mesh.boundary_edges",
              "the maps must cover exactly the border edges: an interior edge joining two border vertices is not an edge of the "
              "boundary surface (edge_id gives None for it and the maps stop being inverse bijections)", note="edge maps over boundary_edges")
    for modname, q, mesh in ((VOL, "VolumeMesh._BoundaryConnectivity._extract_surface_boundary", "self.complete_mesh"),
                             (BORDER, "extract_boundary_of_volume", "mesh")):
        fn = repo.func(modname, q)
        site = ctx.site(modname, fn)
        loops = [st for st in au.stmts(fn.body) if isinstance(st, ast.For)]
        face_loop = [st for st in loops if au.src(st.iter) in (f"{mesh}.boundary_faces", f"enumerate({mesh}.boundary_faces)")]
        okf = False
        vset = None
        for lp in face_loop:
            tgt = lp.target.elts[-1].id if isinstance(lp.target, ast.Tuple) else lp.target.id
            for s in lp.body:
                if isinstance(s, ast.For) and au.src(s.iter) == f"{mesh}.faces[{tgt}]" and isinstance(s.target, ast.Name):
                    for c in au.calls(s):
                        if au.call_tail(c) == "add" and isinstance(c.func.value, ast.Name) and au.src(c.args[0]) == s.target.id \
                                and not au.guards(c, stop=lp):
                            okf, vset = True, c.func.value.id
        ctx.check(okf, "C03-P2", site, f"{fn.name}: boundary vertices are not collected from every vertex of every border face", "")
        okv = any(isinstance(st.iter, ast.Call) and au.call_tail(st.iter) == "enumerate" and st.iter.args
                  and au.src(st.iter.args[0]) == vset for st in loops) if vset else False
        ctx.check(okv, "C03-P2", site, f"{fn.name}: the vertex maps do not range over the collected border vertices", "")


# ---------------------------------------------------------------------------- D1
def d1_boundary_translation(ctx):
    repo = ctx.repo
    kinds = {  # method -> (kind of first argument, kind of result elements, extra args kinds)
        "vertex_to_vertices": ("vertex", "vertex"), "vertex_to_edges": ("vertex", "edge"), "vertex_to_faces": ("vertex", "face"),
        "face_to_edges": ("face", "edge"), "face_to_faces": ("face", "face"),
    }
    cls = repo.cls(VOL, "VolumeMesh._BoundaryConnectivity")
    n = 0
    for fn in [st for st in cls.body if isinstance(st, ast.FunctionDef) and st.name in kinds]:
        akind, rkind = kinds[fn.name]
        site = ctx.site(VOL, fn)
        ps = au.params(fn, skip_self=True)
        n += 1
        arg_ok = False
        bname = None
        for st in fn.body:
            if isinstance(st, ast.Assign) and isinstance(st.targets[0], ast.Name) and isinstance(st.value, ast.Call) \
                    and au.call_tail(st.value) == "get" and au.src(st.value.func.value) == f"self.m2b_{akind}" \
                    and au.src(st.value.args[0]) == ps[0]:
                arg_ok, bname = True, st.targets[0].id
        ctx.check(arg_ok, "C03-D1", site, f"{fn.name}: the {akind} argument is not translated with self.m2b_{akind}",
                  "queries are asked with indices of the volume mesh and answered with indices of the volume mesh")
        rets = [st for st in fn.body if isinstance(st, ast.Return) and isinstance(st.value, ast.ListComp)]
        res_ok = False
        if rets:
            v = rets[-1].value
            x = v.generators[0].target.id if isinstance(v.generators[0].target, ast.Name) else None
            res_ok = isinstance(v.elt, ast.Subscript) and au.src(v.elt.value) == f"self.b2m_{rkind}" and au.src(v.elt.slice) == x
            # the inner query is made with the translated argument
            inner = au.src(v.generators[0].iter)
            b = sym.Bindings(fn)
            inner_r = au.src(b.resolve(v.generators[0].iter, at=rets[-1], keep=(bname,)))
            res_ok = res_ok and bname is not None and (f"({bname}" in inner_r) and ps[0] not in au.names(b.resolve(v.generators[0].iter, at=rets[-1], keep=(bname,)))
        ctx.check(res_ok, "C03-D1", site, f"{fn.name}: results are not translated back with self.b2m_{rkind} (or the query is not made with the boundary index)",
                  "mixing the two directions of the index maps answers with indices of the wrong mesh", note=f"{fn.name}: m2b_{akind} in, b2m_{rkind} out")
    ctx.require_count("C03-D1 translated queries", n, 5)


# ---------------------------------------------------------------------------- E1
def e1_incidence_tables(ctx):
    repo = ctx.repo
    fn = repo.func(VOL, "VolumeMesh._Connectivity._compute_edge_id")
    site = ctx.site(VOL, fn)
    b = sym.Bindings(fn)
    okF = okC = False
    for st in au.stmts(fn.body):
        if isinstance(st, ast.For) and au.src(st.iter) in ("self.mesh.id_faces", "range(len(self.mesh.faces))") and isinstance(st.target, ast.Name):
            f = st.target.id
            for s2 in st.body:
                if isinstance(s2, ast.For) and au.src(s2.iter) == f"self.face_to_edges({f})" and isinstance(s2.target, ast.Name):
                    e = s2.target.id
                    for s3 in s2.body:
                        if isinstance(s3, ast.Expr) and isinstance(s3.value, ast.Call) and au.call_tail(s3.value) in ("append", "add") \
                                and au.src(s3.value.func.value) == f"self._adjE2F[{e}]" and au.src(s3.value.args[0]) == f:
                            okF = True
                        if isinstance(s3, ast.AugAssign) and isinstance(s3.op, ast.BitOr) and au.src(s3.target) == f"self._adjE2C[{e}]":
                            v = b.resolve(s3.value, at=s3, keep=(f,))
                            okC = au.src(v) in (f"set(self.face_to_cells({f}))",)
    ctx.check(okF, "C03-E1", site, "edge -> faces is not filled with every face for each of its edges", "", note="_adjE2F from face_to_edges of every face")
    ctx.check(okC, "C03-E1", site, "edge -> cells is not the union of the cells of every face containing the edge", "", note="_adjE2C union of face_to_cells")
    fn = repo.func(VOL, "VolumeMesh._Connectivity._compute_connectivity")
    ok = False
    for st in au.stmts(fn.body):
        if isinstance(st, ast.For) and isinstance(st.iter, ast.Call) and au.call_tail(st.iter) == "enumerate" \
                and au.src(st.iter.args[0]) == "self.mesh.cells" and isinstance(st.target, ast.Tuple):
            iC, C = (x.id for x in st.target.elts)
            for s2 in st.body:
                if isinstance(s2, ast.For) and au.src(s2.iter) == C and isinstance(s2.target, ast.Name):
                    V = s2.target.id
                    ok = any(isinstance(s3, ast.Expr) and isinstance(s3.value, ast.Call) and au.call_tail(s3.value) in ("add", "append")
                             and au.src(s3.value.func.value) == f"self._adjV2C[{V}]" and au.src(s3.value.args[0]) == iC for s3 in s2.body)
    ctx.check(ok, "C03-E1", ctx.site(VOL, fn), "vertex -> cells is not filled with every cell for each of its vertices", "", note="_adjV2C from every vertex of every cell")
    fn = repo.func(VOL, "VolumeMesh._Connectivity._compute_adjacent_cell")
    site = ctx.site(VOL, fn)
    ok = False
    for st in au.stmts(fn.body):
        if isinstance(st, ast.Assign) and isinstance(st.targets[0], ast.Subscript) and au.is_self_attr(st.targets[0].value, "_adjC2C"):
            loops = [a for a in au.ancestors(st) if isinstance(a, ast.For)]
            if len(loops) < 3:
                continue
            inner, mid, outer = loops[0], loops[1], loops[2]
            iC = outer.target.elts[0].id if isinstance(outer.target, ast.Tuple) else None
            iF, F = (x.id for x in mid.target.elts) if isinstance(mid.target, ast.Tuple) else (None, None)
            c2 = inner.target.id if isinstance(inner.target, ast.Name) else None
            gs = au.guards(st, stop=inner)
            ok = au.src(st.targets[0].slice) == f"({iC}, {iF})" and au.src(st.value) == c2 and au.src(inner.iter) == f"self.face_to_cells({F})" \
                and len(gs) == 1 and gs[0][1] and isinstance(gs[0][0], ast.Compare) and isinstance(gs[0][0].ops[0], ast.NotEq) \
                and {au.src(gs[0][0].left), au.src(gs[0][0].comparators[0])} == {c2, iC} \
                and isinstance(mid.iter, ast.Call) and au.call_tail(mid.iter) == "enumerate"
    ctx.check(ok, "C03-E1", site, "adjacent cell is not `adj[(cell, local face)] = the other cell of that face`",
              "cell-to-cell adjacency must list, per local face, the cell across it", note="_adjC2C[(iC, iF)] = other cell of face iF")


# ---------------------------------------------------------------------------- D2
def d2_definitional(ctx):
    repo = ctx.repo
    fn = repo.func(VOL, "VolumeMesh._Connectivity.other_face_side")
    site = ctx.site(VOL, fn)
    C, F = au.params(fn, skip_self=True)[:2]
    names = None
    gate = False
    rest = []
    for st in fn.body:
        if isinstance(st, ast.Assign) and isinstance(st.targets[0], ast.Tuple) and len(st.targets[0].elts) == 2 \
                and au.src(st.value) == f"self.face_to_cells({F})":
            names = [x.id for x in st.targets[0].elts]
        elif isinstance(st, ast.If) and au.src(st.test).replace(" ", "") == f"len(self.face_to_cells({F}))!=2" and isinstance(st.body[0], ast.Return) \
                and (st.body[0].value is None or au.src(st.body[0].value) == "None"):
            gate = True
        elif not (isinstance(st, ast.Expr) and isinstance(st.value, ast.Constant)):
            rest.append(st)
    ok = False
    if names and gate:
        try:
            f = order.return_formula(rest)
            pred = order.Pred(lambda node: {C: "C", names[0]: "A", names[1]: "B"}.get(au.src(node)) or (_ for _ in ()).throw(order.Unsupported(au.src(node))))
            ok = True
            for env in order.envs({"C", "A", "B"}, set()):
                if env["A"] == env["B"]:
                    continue
                got = order.eval_formula(f, pred, env, leaf=lambda e, en: None if e is None or au.src(e) == "None" else {names[0]: "A", names[1]: "B"}.get(au.src(e), "?"))
                want = "B" if env["C"] == env["A"] else ("A" if env["C"] == env["B"] else None)
                ok = ok and got == want
        except order.Unsupported:
            ok = False
    ctx.check(ok, "C03-D2", site, "other_face_side(C, F) is not `the other cell of an interior face F of C, else None`", "", note="other_face_side")
    fn = repo.func(VOL, "VolumeMesh._Connectivity.cell_to_cell")
    site = ctx.site(VOL, fn)
    iC = au.params(fn, skip_self=True)[0]
    rets = [st for st in fn.body if isinstance(st, ast.Return)]
    ok = False
    if rets and isinstance(rets[-1].value, ast.ListComp):
        v = rets[-1].value
        g = v.generators[0]
        i = g.target.id if isinstance(g.target, ast.Name) else None
        elt = f"self._adjC2C[{iC}, {i}]"
        ok = au.src(v.elt) == elt and au.src(g.iter) == f"range(len(self.mesh.cells[{iC}]))" and len(g.ifs) == 1 \
            and au.src(g.ifs[0]).replace(" ", "") in (f"{elt}!=config.NOT_AN_ID".replace(" ", ""),)
    ctx.check(ok, "C03-D2", site, "cell_to_cell is not `adjacent cell across each local face, missing neighbours dropped`", "", note="cell_to_cell")
