"""C03 - volume connectivity answers agree with the cell list (structural clauses)."""
from __future__ import annotations
import ast
from .. import au, sym, order
from ..core import AnalysisError
from ..rules import common, rows, tables
from ..rules import ha_sx as sx, ha_q as q, ha_rules as hr
from .c01 import lazy_rules, _guard, _priv, _pub, _Missing

VOL = "mesh.datatypes.volume"
CONN = "VolumeMesh._Connectivity"
BCONN = "VolumeMesh._BoundaryConnectivity"
BUILD = sx.Policy(never={"_compute_connectivity", "_compute_face_ids", "_sort_edge_neighborhoods", "_sort_vertex_neighborhoods"}, modules={"mesh.mesh_data"})
MD = "mesh.mesh_data"
BORDER = "processing.border"

EXPLANATION = (
    "Static conformance of the volume connectivity: typestate of the lazily built caches for every public entry point of "
    "the three volume classes (R-LAZY), row-type agnosticism of volume.py (R-ROW), invariants and mutual agreement of the "
    "literal tetrahedron / hexahedron face tables, lock-step construction of inverse index maps and inverse adjacency "
    "relations, border predicate and if/else partitions. The rules read symbolic summaries of the functions (msa/rules/ha_sx.py) and report a "
    "violation only for a recognised construct that contradicts the obligation; code whose shape is not understood is reported undecided. "
    "Structural necessary conditions only.")

RULES = {
    "C03-L1": "every dereference / return of a lazily built cache field is dominated by its initialisation on all paths from every public entry point",
    "C03-L3": "every lazy cache field is assigned in the __init__ chain",
    "C03-L4": "clear() resets every cache with a writer; partial resets cover whole groups",
    "C03-R1": "index rows are used only through sequence-agnostic operations (R-ROW) in volume.py and border.py",
    "C03-T1": "literal tetra tables: face i omits vertex i, closed, consistently oriented, all copies equal; hexa tables closed and equal",
    "C03-P1": "index maps to/from the boundary and inverse adjacency relations are filled in lock-step",
    "C03-O1": "a face is on the border iff it has fewer than two incident cells; boundary / interior lists are if/else partitions",
    "C03-M1": "border flags of vertices / edges are set from every vertex / every side of every border face",
    "C03-L6": "every builder of a table sorted around an edge that a cold path can call sorts it like the other builders of that table do",
    "C03-L7": "clear() restores every attribute that __init__ sets and a query modifies",
    "C03-L5": "the cold path of a lazily cached accessor only builds the cache, it never answers by itself",
    "C03-W1": "rotation around an edge: the sort keys handed out by the two walks (and the key of the starting cell) are pairwise distinct",
    "C03-P2": "the index maps of the boundary range over exactly the border classification (boundary_faces / their vertices / boundary_edges)",
    "C03-E1": "incidence tables are filled from every incidence: edge->faces / edge->cells from every edge of every face, vertex->cells from every "
              "vertex of every cell, adjacent cell keyed by (cell, local face) with the cell on the other side",
    "C03-D2": "definitional accessors (other_face_side, cell_to_cell) return what their definition says",
    "C03-F1": "faces completed from the cells are de-duplicated against a set that starts with the keys of the listed faces, receives every "
              "appended face and never shrinks",
    "C03-X1": "an index translated to the numbering of the boundary surface is never used to index a container of the volume mesh",
    "C03-Q1": "a boundary face is written with the vertex order of the volume face; it is written reversed only under a test that involves the "
              "cell incident to the face",
    "C03-Q2": "the vertex order of every face of VolumeMesh.boundary_mesh depends on the vertex positions (a mirror image has the same "
              "combinatorics and the opposite outside)",
    "C03-D1": "boundary-connectivity queries translate their argument with m2b_<kind> and every result with b2m_<kind of the result>",
}


def run(ctx):
    repo = ctx.repo
    lazy_rules(ctx, [(VOL, "VolumeMesh._Connectivity"), (VOL, "VolumeMesh._BoundaryConnectivity"), (VOL, "VolumeMesh")],
               "C03", min_entries=25, min_guards=5)
    rows.selfcheck()
    _guard(ctx, "C03", rows.check_module, "C03-R1", VOL, min_uses=5)
    _guard(ctx, "C03", rows.check_module, "C03-R1", BORDER, min_uses=1)
    _guard(ctx, "C03", t1_tables)
    _guard(ctx, "C03", p1_maps)
    _guard(ctx, "C03", o1_border)
    _guard(ctx, "C03", m1_marks)
    _guard(ctx, "C03", w1_edge_rotation)
    _guard(ctx, "C03", p2_map_domains)
    _guard(ctx, "C03", d1_boundary_translation)
    _guard(ctx, "C03", e1_incidence_tables)
    _guard(ctx, "C03", d2_definitional)
    _guard(ctx, "C03", f1_face_completion)
    _guard(ctx, "C03", x1_index_spaces)
    _guard(ctx, "C03", q1_orientation)
    _guard(ctx, "C03", q2_geometry)


def _appends_to(*chain):
    """predicate: the method appends to self.<chain..> (e.g. self.faces.append(..), self.cell_faces._elem.append(..))"""
    def pred(f):
        for c in au.calls(f):
            if au.call_tail(c) == "append" and isinstance(c.func, ast.Attribute) and au.chain(c.func.value) == ["self"] + list(chain):
                return True
        return False
    return pred


_TABLE_ROLE = {"_generate_cell_faces": _appends_to("cell_faces", "_elem"), "_complete_faces_from_cells": _appends_to("faces")}


def _tables_of(ctx, modname, cls, qual):
    """literal face tables reachable from a function (helpers and module-level constant tables followed): (fn, {norm: faces})"""
    fn = _priv(ctx, "C03-T1", modname, cls, qual, pred=_TABLE_ROLE[qual])
    x = q.summarise(ctx.repo, modname, cls, fn, policy=sx.Policy(never={"_compute_connectivity", "_compute_face_ids", "_compute_cell_adj"}, modules={MD}))
    found = {}
    terms = [t for _, t in hr.all_terms(x)] + ([x.ret] if x.ret is not None else [])
    for t in terms:
        for cell, faces in tables.tables_in_term(x.expand(t)):
            found.setdefault(repr(faces), faces)
    return fn, x, list(found.values())


def _kind(faces):
    if len(faces) == 4 and all(len(f) == 3 for f in faces):
        return 4
    if len(faces) == 6 and all(len(f) == 4 for f in faces):
        return 8
    return None


def t1_tables(ctx):
    repo = ctx.repo
    found = {4: [], 8: []}       # (modname, fn, faces, oriented)
    for modname, cls, qual in [(MD, "RawMeshData", "_generate_cell_faces"), (MD, "RawMeshData", "_complete_faces_from_cells")]:
        try:
            fn, x, tabs = _tables_of(ctx, modname, cls, qual)
        except _Missing:
            continue
        site = ctx.site(modname, fn)
        kinds = {4: [t for t in tabs if _kind(t) == 4], 8: [t for t in tabs if _kind(t) == 8]}
        for k, name in ((4, "tetrahedron"), (8, "hexahedron")):
            if len(kinds[k]) != 1:
                ctx.undecided("C03-T1", site, f"{len(kinds[k])} literal {name} face table(s) over the vertices of a cell reachable from {fn.name}", "")
                continue
            faces = kinds[k][0]
            probs = tables.tet_problems(faces, oriented=True) if k == 4 else tables.hex_problems(faces)
            ctx.check(not probs, "C03-T1", site, f"{name} face table {faces} in {fn.name} is ill-formed", "; ".join(probs), note=f"{name} table {faces}")
            found[k].append((modname, fn, faces, True))
    # adjacent-cell look-up: local face i of a cell is the face whose cells are scanned for key (cell, i)
    fn = _priv(ctx, "C03-E1", VOL, CONN, "_compute_adjacent_cell", field="_adjC2C")
    x = q.summarise(repo, VOL, CONN, fn, policy=BUILD)
    site = ctx.site(VOL, fn)
    local = {}
    for e in q.setitems(x, "_adjC2C"):
        k = e.key
        if isinstance(k, ast.Tuple) and len(k.elts) == 2 and isinstance(au.const(k.elts[1]), int) and e.frames:
            dom = e.frames[-1].dom
            if isinstance(dom, ast.Call) and q.field(dom.func) == "face_to_cells" and len(dom.args) == 1:
                f = tables.face_of_term(dom.args[0])
                if f is not None:
                    local.setdefault(au.const(k.elts[1]), set()).add(f[1])
    if sorted(local) != [0, 1, 2, 3] or any(len(v) != 1 for v in local.values()):
        ctx.undecided("C03-T1", site, "the four local faces of a tetrahedron are not recognised in the adjacent-cell look-up", f"local faces read: {sorted(local)}")
    else:
        faces = [next(iter(local[i])) for i in range(4)]
        probs = tables.tet_problems(faces, oriented=False)
        ctx.check(not probs, "C03-T1", site, f"tetrahedron face table {faces} in {fn.name} is ill-formed", "; ".join(probs), note=f"tet table {faces}")
        found[4].append((VOL, fn, faces, False))
    # cell -> faces: the i-th face appended for a tetrahedron omits its i-th vertex
    fn = _priv(ctx, "C03-P1", VOL, CONN, "_compute_cell_adj", field="_adjF2C")
    x = q.summarise(repo, VOL, CONN, fn, policy=BUILD)
    site = ctx.site(VOL, fn)
    apps = []
    for e, b in q.method_calls(x, ("append",)):
        k = q.lookup_key(b, "_adjC2F")
        if k is not None and len(e.args) == 1 and any(_is_len4(t, p) for t, p in e.conds):
            apps.append(tables.face_of_term(x.expand(e.args[0])))
    if len(apps) != 4 or None in apps:
        ctx.undecided("C03-T1", site, "the faces appended to the cell -> faces table of a tetrahedron are not four faces written over its vertices",
                      f"{len(apps)} append(s) under the 4-vertex test")
    else:
        faces = [f for _, f in apps]
        probs = tables.tet_problems(faces, oriented=False)
        ctx.check(not probs, "C03-T1", site, f"the i-th face of a tetrahedron in {fn.name} is not `all vertices but the i-th`: {faces}",
                  "cell_to_face(c)[i] must be the face opposite to the i-th vertex; " + "; ".join(probs), note=f"cell faces {faces}")
        found[4].append((VOL, fn, faces, False))
    for k in (4, 8):
        if not found[k]:
            continue
        ref = found[k][0]
        for other in found[k][1:]:
            oriented = ref[3] and other[3]
            same = tables.canon(ref[2], oriented) == tables.canon(other[2], oriented)
            ctx.check(same, "C03-T1", ctx.site(other[0], other[1]),
                      f"{'tetrahedron' if k == 4 else 'hexahedron'} face table of {other[1].name} differs from the one of {ref[1].name}",
                      f"{other[2]} vs {ref[2]}: the i-th face of a cell must be the same face everywhere "
                      f"(cell_faces, completed faces and adjacent-cell lookup index the same table)", note="copies of the table agree")


def n_bool(v):
    return bool(v)


def _is_len4(t, pol):
    c = au.canon_test(t, pol)
    return (c.startswith("4 == len(") or (c.startswith("len(") and c.endswith(" == 4")))


def _map_of_field(kind):
    def which(canon_base, base):
        f = q.field(canon_base)
        return "f" if f == "m2b_" + kind else ("b" if f == "b2m_" + kind else None)
    return which


def _map_of_objs(maps):
    def which(canon_base, base):
        if sx.is_special(base, "$obj"):
            return "f" if base.id == maps[0] else ("b" if base.id == maps[1] else None)
        return None
    return which


def _border_fn(ctx):
    fn = ctx.repo.func(BORDER, "extract_boundary_of_volume")
    x = q.summarise(ctx.repo, BORDER, None, fn)
    maps = None
    if x.ret is not None:
        ls = [leaf for _, leaf in sx.leaves(x.ret)]
        if ls and all(isinstance(l, ast.Tuple) and len(l.elts) >= 3 and sx.is_special(l.elts[1], "$obj") and sx.is_special(l.elts[2], "$obj") for l in ls) \
                and len({(l.elts[1].id, l.elts[2].id) for l in ls}) == 1:
            maps = (ls[0].elts[1].id, ls[0].elts[2].id)
    return fn, x, maps


def p1_maps(ctx):
    repo = ctx.repo
    fn = repo.func(VOL, BCONN + ".__init__")
    x = q.summarise(repo, VOL, BCONN, fn)
    for kind in ("vertex", "face", "edge"):
        n = hr.inverse_stores(ctx, "C03-P1", VOL, x, _map_of_field(kind), kind)
        if n == 0:
            ctx.undecided("C03-P1", ctx.site(VOL, fn), f"no store into the {kind} maps m2b_{kind} / b2m_{kind} found from {BCONN}.__init__", "")
    vertex_alignment(ctx, VOL, fn, x, _map_of_field("vertex"))
    fn, x, maps = _border_fn(ctx)
    site = ctx.site(BORDER, fn)
    if maps is None:
        ctx.undecided("C03-P1", site, "extract_boundary_of_volume: the two index maps are not the 2nd and 3rd value returned", "")
    else:
        # the first returned map is the one read when the faces are re-indexed (mesh -> boundary)
        n = hr.inverse_stores(ctx, "C03-P1", BORDER, x, _map_of_objs(maps), "vertex")
        if n == 0:
            ctx.undecided("C03-P1", site, "extract_boundary_of_volume: no store into the returned index maps", "")
        vertex_alignment(ctx, BORDER, fn, x, _map_of_objs(maps))
    fn = _priv(ctx, "C03-P1", VOL, CONN, "_compute_cell_adj", field="_adjF2C")
    x = q.summarise(repo, VOL, CONN, fn, policy=BUILD)
    hr.inverse_relations(ctx, "C03-P1", VOL, x, fn, "_adjC2F", "_adjF2C")


def vertex_alignment(ctx, modname, fn, x, which):
    """the boundary index given to a vertex is the position at which its coordinates are appended to the boundary vertices.
    which(canonical base, base) -> 'f' (mesh -> boundary map) | 'b' (boundary -> mesh map) | None"""
    site = ctx.site(modname, fn)
    apps = [(e, b) for e, b in q.method_calls(x, ("append",)) if isinstance(b, ast.Attribute) and b.attr == "vertices" and sx.is_special(b.value, "$obj")
            and isinstance(x.objs[b.value.id].init, ast.Call) and au.call_tail(x.objs[b.value.id].init) == "RawMeshData"]
    if len(apps) != 1 or len(apps[0][0].args) != 1:
        ctx.undecided("C03-P1", site, f"{fn.name}: appending of the boundary vertices not recognised", f"{len(apps)} append(s)")
        return
    a = apps[0][0]
    stores = [(e, which(x.canon(e.base), e.base)) for e in x.effects if e.kind == "setitem" and which(x.canon(e.base), e.base)]
    all_stores = stores
    stores = [(e, w) for e, w in stores if len(e.frames) == 1 and len(a.frames) == 1 and e.frames[0] is a.frames[0]]
    # the vertices may be appended by iterating the mesh -> boundary map itself: a dictionary is iterated in insertion order, so the append
    # order is the order of the boundary indices as soon as the map was filled with `map[v] = position in the filling loop`
    if not stores and len(a.frames) == 1 and a.frames[0].kind == "keys" and which(x.canon(a.frames[0].dom), a.frames[0].dom) == "f" and not a.conds:
        arg = a.args[0]
        fwd = [e for e, w in all_stores if w == "f"]
        in_order = fwd and all(len(e.frames) == 1 and e.frames[0].kind == "seq" and isinstance(e.value, ast.Name) and e.value.id == e.frames[0].var
                               and len(e.conds) == 0 for e in fwd) and len(fwd) == 1
        if isinstance(arg, ast.Subscript) and isinstance(arg.value, ast.Attribute) and arg.value.attr == "vertices" \
                and isinstance(arg.slice, ast.Name) and arg.slice.id == a.frames[0].var and in_order:
            ctx.ok("C03-P1", site, f"{fn.name}: vertices appended in the insertion order of the map, which is the order of the boundary indices")
            return
    if not stores or a.conds or any(e.conds for e, _ in stores) or a.frames[0].kind != "seq":
        ctx.undecided("C03-P1", site, f"{fn.name}: the vertex append and the map store are not made unconditionally in one loop", "")
        return
    k = a.frames[0].var
    arg = a.args[0]
    if not (isinstance(arg, ast.Subscript) and isinstance(arg.value, ast.Attribute) and arg.value.attr == "vertices"):
        ctx.undecided("C03-P1", site, f"{fn.name}: the appended boundary vertex is not read from the vertices of the volume", "")
        return
    for s_, w in stores:
        vert, pos = (s_.key, s_.value) if w == "f" else (s_.value, s_.key)
        try:
            p = sym.to_poly(pos, opaque=False)
        except sym.NotPoly:
            p = None
        if p is None or p.coeff(k) != sym.Poly.const(1) or not p.without(k).is_const():
            ctx.undecided("C03-P1", site, f"{fn.name}: the boundary index stored for a vertex is not the loop position", "")
            continue
        ok = p.without(k).const_value() == 0 and q.same(arg.slice, vert)
        ctx.check(ok, "C03-P1", ctx.site(modname, s_.fn, s_.node),
                  f"{fn.name}: the boundary index of a vertex is not the position at which that vertex is appended" +
                  ("" if q.same(arg.slice, vert) else " (the map relates the position to another vertex than the one appended)"),
                  "one vertex is appended per iteration and the map sends it to the position it got: map and boundary vertex container stay aligned",
                  note=f"{fn.name}: map[v] = position of v in the boundary")


VRECV = {"self.connectivity": (VOL, CONN)}


def o1_border(ctx):
    repo = ctx.repo
    fn = _pub(ctx, VOL, "VolumeMesh", "is_face_on_border")
    site = ctx.site(VOL, fn)
    x = q.summarise(repo, VOL, "VolumeMesh", fn, policy=sx.Policy(also={"n_F2C"}), recv=VRECV)

    def count(t):
        return isinstance(t, ast.Call) and isinstance(t.func, ast.Name) and t.func.id == "len" and len(t.args) == 1 \
            and isinstance(t.args[0], ast.Call) and isinstance(t.args[0].func, ast.Attribute) and t.args[0].func.attr == "face_to_cells"
    class _NotCount(Exception):
        pass

    def val(t, n):
        if count(t):
            return n
        if isinstance(au.const(t), (int, bool)):
            return au.const(t)
        if isinstance(t, ast.UnaryOp) and isinstance(t.op, ast.Not):
            return not val(t.operand, n)
        if isinstance(t, ast.BoolOp):
            vs = [val(v, n) for v in t.values]
            return all(vs) if isinstance(t.op, ast.And) else any(vs)
        if isinstance(t, ast.Compare) and len(t.ops) == 1 and type(t.ops[0]) in sx._CMP:
            return sx._CMP[type(t.ops[0])](val(t.left, n), val(t.comparators[0], n))
        raise _NotCount()
    verdict = None
    if x.ret is not None:
        verdict = True
        for _, leaf in sx.leaves(sx.lift_ite(x.ret)):
            try:
                if not any(count(n_) for n_ in ast.walk(leaf)):
                    raise _NotCount()
                w = [n for n in range(0, 4) if bool(val(leaf, n)) != (n < 2)]
            except _NotCount:
                verdict = None
                break
            if w and verdict is True:
                verdict = f"answers {n_bool(val(leaf, w[0]))} for a face with {w[0]} incident cell(s)"
    if verdict is None:
        ctx.undecided("C03-O1", site, "is_face_on_border is not recognised as a comparison of the number of cells of the face with a constant", "")
    else:
        ctx.check(verdict is True, "C03-O1", site, f"is_face_on_border {verdict}", "a face is on the border iff it has fewer than two incident cells",
                  note="border iff fewer than two incident cells")

    def face_pred(test, var, fr):
        if isinstance(test, ast.Call) and q.field(test.func) == "is_face_on_border" and len(test.args) == 1 and isinstance(test.args[0], ast.Name) \
                and test.args[0].id == var:
            return True
        return None
    fn = _priv(ctx, "C03-O1", VOL, "VolumeMesh", "_compute_interior_boundary_faces", field="_boundary_faces")
    hr.partition(ctx, "C03-O1", VOL, "VolumeMesh", fn, "_boundary_faces", "_interior_faces", ("faces",), face_pred, "faces", recv=VRECV)
    fn = _priv(ctx, "C03-O1", VOL, "VolumeMesh", "_compute_interior_boundary_vertices", field="_boundary_vertices")
    hr.partition(ctx, "C03-O1", VOL, "VolumeMesh", fn, "_boundary_vertices", "_interior_vertices", ("vertices",),
                 hr.flag_pred("_is_vertex_on_border", "is_vertex_on_border"), "vertices", recv=VRECV)
    fn = _priv(ctx, "C03-O1", VOL, "VolumeMesh", "_compute_interior_boundary_edges", field="_boundary_edges")
    hr.partition(ctx, "C03-O1", VOL, "VolumeMesh", fn, "_boundary_edges", "_interior_edges", ("edges",),
                 hr.flag_pred("_is_edge_on_border"), "edges", recv=VRECV)


BF = ("boundary_faces", "_boundary_faces")


def _border_face_row(e):
    """(face loop frame, row term) when effect e sits in a loop over all border faces: row = self.faces[<border face>]"""
    for fr in e.frames:
        if fr.kind == "seq" and not fr.extra and q.field(fr.dom) in BF:
            face = ast.Subscript(value=fr.dom, slice=sx.N(fr.var), ctx=ast.Load())
            row = ast.Subscript(value=ast.Attribute(value=sx.N("self"), attr="faces", ctx=ast.Load()), slice=face, ctx=ast.Load())
            return fr, row
    return None, None


def m1_marks(ctx):
    repo = ctx.repo
    fn = _priv(ctx, "C03-O1", VOL, "VolumeMesh", "_compute_interior_boundary_vertices", field="_boundary_vertices")
    site = ctx.site(VOL, fn)
    x = q.summarise(repo, VOL, "VolumeMesh", fn, recv=VRECV)
    flags = [e for e in q.setitems(x, "_is_vertex_on_border") if au.const(e.value) is True]
    good = []
    for e in flags:
        fr, row = _border_face_row(e)
        inner = [g for g in e.frames if g.kind == "seq" and row is not None and q.same(g.dom, row)]
        if fr is not None and len(e.frames) == 2 and inner and not e.conds \
                and q.same(e.key, ast.Subscript(value=row, slice=sx.N(inner[0].var), ctx=ast.Load())):
            good.append(e)
    if len(flags) != 1 or not good:
        ctx.undecided("C03-M1", site, "the border flag of the vertices is not set in a plain loop over the vertices of every border face", f"{len(flags)} flag store(s)")
    else:
        ctx.ok("C03-M1", site, "vertex flag set for every vertex of every border face")
    fn = _priv(ctx, "C03-O1", VOL, "VolumeMesh", "_compute_interior_boundary_edges", field="_boundary_edges")
    site = ctx.site(VOL, fn)
    x = q.summarise(repo, VOL, "VolumeMesh", fn, recv=VRECV)
    flags = [e for e in q.setitems(x, "_is_edge_on_border") if au.const(e.value) is True]
    if len(flags) != 1:
        ctx.undecided("C03-M1", site, "the border flag of the edges is not set by one store", f"{len(flags)} flag store(s)")
        return
    e = flags[0]
    esite = ctx.site(VOL, e.fn, e.node)
    fr, row = _border_face_row(e)
    if fr is None:
        vertex_only = e.conds and all(("is_vertex_on_border" in au.src(t)) for t, _ in e.conds)
        if vertex_only and any(hr.seq_over(g, "edges") for g in e.frames):
            ctx.fail("C03-M1", esite, "an edge is flagged as border edge when its two end points are border vertices",
                     "an edge is on the border iff it is a side of a border face: an interior edge can join two border vertices")
        else:
            ctx.undecided("C03-M1", esite, "the border flag of the edges is not set in a loop over the border faces", "")
        return
    inner = [g for g in e.frames if g is not fr]
    k = e.key
    face = ast.Subscript(value=fr.dom, slice=sx.N(fr.var), ctx=ast.Load())
    if len(inner) == 1 and not e.conds and inner[0].kind == "seq" and isinstance(inner[0].dom, ast.Call) and isinstance(inner[0].dom.func, ast.Attribute) \
            and inner[0].dom.func.attr == "face_to_edges" and len(inner[0].dom.args) == 1 and q.same(inner[0].dom.args[0], face) and q.same(k, _elem(inner[0])):
        ctx.ok("C03-M1", esite, "edge flag set for every edge of face_to_edges(border face)")
        return
    if len(inner) != 1 or e.conds or not (isinstance(k, ast.Call) and isinstance(k.func, ast.Attribute) and k.func.attr == "edge_id" and len(k.args) == 2):
        ctx.undecided("C03-M1", esite, "the border flag of the edges is not set through edge_id(..) of two vertices in a plain loop over each border face", "")
        return
    g = inner[0]
    from .c01 import _sides_loop
    verdict = _sides_loop([g], [], row)
    offs = [q.row_offset(a, g.var, row) for a in k.args]
    if verdict is None or None in offs:
        ctx.undecided("C03-M1", esite, "the two vertices of a flagged edge are not read from the border face by index", "")
    elif verdict is not True:
        ctx.fail("C03-M1", esite, f"the loop over the sides of a border face {verdict}", "every side of every border face is a border edge")
    else:
        ctx.check(sorted(offs) == [0, 1], "C03-M1", esite,
                  f"border edge flags are set for the pair of vertices {offs[0]:+d}, {offs[1]:+d} of each border face (relative to the k-th), which is not a side",
                  "an edge is on the border iff it is a side (k, k+1 mod n) of a border face", note="edge flag set for every side of every border face")


# ---------------------------------------------------------------------------- W1
def _edge_sorters(ctx):
    """the private methods of the volume connectivity that sort the tables around an edge"""
    cls = ctx.repo.cls(VOL, CONN)
    out = []
    for st in cls.body:
        if isinstance(st, ast.FunctionDef) and any(au.call_tail(c) == "sort" for c in au.calls(st)) \
                and any(au.is_self_attr(n, "_adjE2C") or au.is_self_attr(n, "_adjE2F") for n in au.walk(st)):
            out.append(st)
    return out


def w1_edge_rotation(ctx):
    sorters = _edge_sorters(ctx)
    cls_site = ctx.site(VOL, CONN)
    if len(sorters) != 1:
        ctx.undecided("C03-W1", cls_site, f"{len(sorters)} method(s) sorting the cells / faces around an edge found", "")
        return
    fn = sorters[0]
    site = ctx.site(VOL, fn)
    x = q.summarise(ctx.repo, VOL, CONN, fn, policy=sx.Policy(never={"_compute_connectivity", "_compute_face_ids", "_compute_cell_adj", "_compute_edge_id"}))
    per = {}      # rank table -> [(frame, first key, step)]
    odd = set()
    for e in x.effects:
        if e.kind != "setitem" or not sx.is_special(e.base, "$obj") or not e.frames:
            continue
        fr = e.frames[-1]
        hit = None
        for name, d in fr.carried.items():
            mu = f"$mu:{name}:{fr.var}"
            if not q.uses_var(e.value, mu) or d["next"] is None:
                continue
            try:
                pv, pn, pi = sym.to_poly(e.value, opaque=False), sym.to_poly(d["next"], opaque=False), sym.to_poly(d["init"], opaque=False)
            except sym.NotPoly:
                odd.add(e.base.id)
                continue
            if pv.coeff(mu) == sym.Poly.const(1) and pv.without(mu).is_const() and pn.coeff(mu) == sym.Poly.const(1) and pn.without(mu).is_const() \
                    and pi.is_const() and abs(pn.without(mu).const_value()) == 1:
                hit = (fr, int(pi.const_value() + pv.without(mu).const_value()), int(pn.without(mu).const_value()))
            else:
                odd.add(e.base.id)
        if hit:
            per.setdefault(e.base.id, []).append(hit)
    presets = {}
    for oid in per:
        vals = set()
        init = x.objs[oid].init
        if isinstance(init, ast.Dict):
            for v in init.values:
                vals.add(au.const(v, "?"))
        elif not q._empty_container(init):
            vals.add("?")
        for e in x.effects:
            if e.kind == "setitem" and sx.is_special(e.base, "$obj") and e.base.id == oid and not any(e.frames and e.frames[-1] is h[0] for h in per[oid]):
                vals.add(au.const(e.value, "?"))
        presets[oid] = vals
    n = 0
    for oid, ws in sorted(per.items()):
        if oid in odd or len(ws) != 2 or ws[0][0] is ws[1][0] or "?" in presets[oid]:
            ctx.undecided("C03-W1", site, "the sort keys of a table around an edge are not handed out by one counter stepped once per iteration in each of two walks", "")
            continue
        n += 1
        (_, f1, s1), (_, f2, s2) = ws
        extra = presets[oid]
        in_seq = lambda v, f, st_: (v - f) * st_ >= 0
        disjoint = s1 == -s2 and ((s1 > 0 and f1 > f2) or (s1 < 0 and f1 < f2)) and not any(in_seq(v, f1, s1) or in_seq(v, f2, s2) for v in extra)
        ctx.check(disjoint, "C03-W1", site,
                  f"the two walks around an edge hand out overlapping sort keys (first keys {f1} and {f2}, steps {s1:+d} and {s2:+d}, preset {sorted(extra)})",
                  "two elements with the same key stay in index order: the rotational order around the edge is lost",
                  note=f"keys {f1},{f1 + s1},.. and {f2},{f2 + s2},.. disjoint")
    if len(per) < 2:
        if True:
            ctx.undecided("C03-W1", site, "cell and face sort keys of the rotation around an edge not both recognised", f"{len(per)} rank table(s)")
    fields = set()
    for e, b in q.method_calls(x, ("sort",)):
        for f in ("_adjE2C", "_adjE2F"):
            if q.lookup_key(b, f) is not None:
                fields.add(f)
    if fields != {"_adjE2C", "_adjE2F"}:
        ctx.undecided("C03-W1", site, "the tables sorted around an edge are not both self._adjE2C[e] and self._adjE2F[e]", f"{sorted(fields)}")
    else:
        ctx.ok("C03-W1", site, "cells and faces around an edge both sorted")


# ---------------------------------------------------------------------------- P2
def _all_border_faces(x, dom):
    """the iterated sequence is the list of all border faces: <mesh>.boundary_faces itself or a local list holding exactly its elements"""
    if isinstance(dom, ast.Attribute) and dom.attr in BF:
        return True
    v = q.comp_view(x, dom)
    if v is not None:
        frames, conds, elt = v
        return len(frames) == 1 and frames[0].kind == "seq" and isinstance(frames[0].dom, ast.Attribute) and frames[0].dom.attr in BF and not conds \
            and q.same(elt, ast.Subscript(value=frames[0].dom, slice=sx.N(frames[0].var), ctx=ast.Load()))
    return False


def p2_map_domains(ctx):
    repo = ctx.repo
    fn = repo.func(VOL, BCONN + ".__init__")
    x = q.summarise(repo, VOL, BCONN, fn)
    site = ctx.site(VOL, fn)
    st = [e for e in x.effects if e.kind == "setitem" and q.field(x.canon(e.base)) == "m2b_edge"]
    if len(st) != 1 or len(st[0].frames) != 1 or st[0].frames[0].kind != "seq" or not isinstance(st[0].frames[0].dom, ast.Attribute):
        ctx.undecided("C03-P2", site, "the store into the edge map m2b_edge is not made in one plain loop", f"{len(st)} store(s)")
    else:
        e = st[0]
        fr = e.frames[0]
        elem = ast.Subscript(value=fr.dom, slice=sx.N(fr.var), ctx=ast.Load())
        if fr.dom.attr in ("boundary_edges", "_boundary_edges") and q.same(e.key, elem) and not e.conds:
            ctx.ok("C03-P2", site, "edge maps over boundary_edges")
        elif fr.dom.attr == "edges" and not e.conds and isinstance(e.key, ast.Name) and e.key.id == fr.var:
            ctx.fail("C03-P2", ctx.site(VOL, e.fn, e.node), "the edge maps of the boundary are built from every edge of the volume",
                     "the maps must cover exactly the border edges: an interior edge is not an edge of the boundary surface")
        elif fr.dom.attr == "edges" and e.conds and all("m2b_vertex" in au.src(t) for t, _ in e.conds):
            ctx.fail("C03-P2", ctx.site(VOL, e.fn, e.node), "the edge maps of the boundary are built from every edge whose two end points have an image on the boundary",
                     "the maps must cover exactly the border edges: an interior edge joining two border vertices is not an edge of the "
                     "boundary surface (edge_id gives None for it and the maps stop being inverse bijections)")
        else:
            ctx.undecided("C03-P2", site, "the edge maps of the boundary are not built in a plain loop over the border edges of the volume", "")
    fnb, xb, maps = _border_fn(ctx)
    for modname, f_, x_, which in ((VOL, fn, x, _map_of_field("vertex")), (BORDER, fnb, xb, _map_of_objs(maps) if maps else None)):
        site = ctx.site(modname, f_)
        if which is None:
            ctx.undecided("C03-P2", site, f"{f_.name}: vertex maps not identified", "")
            continue
        stores = [e for e in x_.effects if e.kind == "setitem" and which(x_.canon(e.base), e.base) and len(e.frames) == 1
                  and sx.is_special(e.frames[0].dom, "$obj") and not which(x_.canon(e.frames[0].dom), e.frames[0].dom)]
        if not stores or len({e.frames[0].dom.id for e in stores}) != 1 or any(e.conds for e in stores):
            ctx.undecided("C03-P2", site, f"{f_.name}: the vertex map is not filled in a plain loop over a local collection of vertices", "")
            continue
        vset = stores[0].frames[0].dom.id
        cv = q.Contents(x_, None, obj=vset)
        ok = None
        if not cv.unknown and cv.ins:
            ok = True
            for fr_, cs_, el_, e_ in cv.ins:
                good = False
                if len(fr_) == 2 and not cs_ and fr_[0].kind == "seq" and _all_border_faces(x_, fr_[0].dom) and fr_[1].kind == "seq":
                    face = ast.Subscript(value=fr_[0].dom, slice=sx.N(fr_[0].var), ctx=ast.Load())
                    dom = fr_[1].dom
                    if isinstance(dom, ast.Subscript) and isinstance(dom.value, ast.Attribute) and dom.value.attr == "faces" and q.same(dom.slice, face) \
                            and q.same(el_, ast.Subscript(value=dom, slice=sx.N(fr_[1].var), ctx=ast.Load())):
                        good = True
                if not good:
                    ok = None
        if ok is None:
            ctx.undecided("C03-P2", site, f"{f_.name}: the collection of border vertices is not recognised as `every vertex of every border face`", "")
        else:
            ctx.ok("C03-P2", site, f"{f_.name}: vertex maps range over the vertices of the border faces")


# ---------------------------------------------------------------------------- D1
def d1_boundary_translation(ctx):
    repo = ctx.repo
    kinds = {  # method -> (kind of the argument, kind of the elements of the result)
        "vertex_to_vertices": ("vertex", "vertex"), "vertex_to_edges": ("vertex", "edge"), "vertex_to_faces": ("vertex", "face"),
        "face_to_edges": ("face", "edge"), "face_to_faces": ("face", "face"),
    }
    for name, (akind, rkind) in kinds.items():
        fn = _pub(ctx, VOL, BCONN, name)
        site = ctx.site(VOL, fn)
        P = au.params(fn, skip_self=True)[0]
        x = q.summarise(repo, VOL, BCONN, fn, policy=sx.Policy(never={"_compute_connectivity", "_compute_edge_id", "_compute_face_ids"}))
        if x.ret is None:
            ctx.undecided("C03-D1", site, f"{name}: value returned from inside a loop", "")
            continue
        lists = []
        for conds, leaf in sx.leaves(x.ret):
            v = q.comp_view(x, leaf)
            if v is not None and v[0]:
                lists.append(v)
            elif not ((isinstance(leaf, (ast.List, ast.Tuple)) and not leaf.elts) or (isinstance(leaf, ast.Constant) and leaf.value is None)):
                lists = None
                break
        if not lists or len(lists) != 1:
            ctx.undecided("C03-D1", site, f"{name}: the translated answer is not one list built element by element", "")
            continue
        frames, conds, elt = lists[0]

        def translated(t):
            """the term is self.m2b_<akind>[P] / .get(P, ..)"""
            k = q.lookup_key(t, "m2b_" + akind)
            return k is not None and isinstance(k, ast.Name) and k.id == P
        # every query of the boundary surface is asked with translated indices only
        raw = []
        unknown = False
        for fr in frames:
            for n in ast.walk(fr.dom):
                if isinstance(n, ast.Call) and isinstance(n.func, ast.Attribute) and (au.src(n.func.value) in ("super()", "self")):
                    for a in n.args:
                        if isinstance(a, ast.Name) and a.id == P:
                            raw.append(n.func.attr)
                        elif not (translated(a) or any(isinstance(m, ast.Name) and m.id.startswith("$k") for m in ast.walk(a))):
                            unknown = True
        back = isinstance(elt, ast.Subscript) and q.field(elt.value)
        if raw:
            ctx.fail("C03-D1", site, f"{name}: the boundary surface is queried ({raw[0]}) with the index of the volume mesh instead of its image by m2b_{akind}",
                     "queries are asked with indices of the volume mesh and answered with indices of the volume mesh")
        elif unknown or not back or not (back.startswith("b2m_") or back.startswith("m2b_")):
            ctx.undecided("C03-D1", site, f"{name}: translation of the argument / of the results not recognised", "")
        else:
            ctx.check(back == "b2m_" + rkind, "C03-D1", site, f"{name}: results are translated with self.{back} instead of self.b2m_{rkind}",
                      "mixing the two directions (or the kinds) of the index maps answers with indices of the wrong mesh", note=f"{name}: m2b_{akind} in, b2m_{rkind} out")


# ---------------------------------------------------------------------------- E1
def _elem(fr):
    return ast.Subscript(value=fr.dom, slice=sx.N(fr.var), ctx=ast.Load())


def _call_on(t, name, arg=None):
    """t is self.<name>(arg)"""
    return isinstance(t, ast.Call) and q.field(t.func) == name and len(t.args) == 1 and (arg is None or q.same(t.args[0], arg))


def e1_incidence_tables(ctx):
    repo = ctx.repo
    fn = _priv(ctx, "C03-E1", VOL, CONN, "_compute_edge_id", field="_adjE2F")
    site = ctx.site(VOL, fn)
    x = q.summarise(repo, VOL, CONN, fn, policy=BUILD)
    # ---- edge -> faces: every face is recorded at each of its edges
    ins = hr.relation_insertions(x, "_adjE2F")
    ok = None
    if len(ins) == 1:
        e, k, v, fr, cs = ins[0]
        if len(fr) == 2 and not cs and hr.seq_over(fr[0], "faces") and fr[1].kind == "seq" and _call_on(fr[1].dom, "face_to_edges", sx.N(fr[0].var)):
            ok = q.same(k, _elem(fr[1])) and q.same(v, sx.N(fr[0].var))
    if ok is None:
        ctx.undecided("C03-E1", site, "edge -> faces is not recognised as `each face is appended at every edge of face_to_edges(face)`", f"{len(ins)} insertion(s)")
    else:
        ctx.check(ok, "C03-E1", site, "edge -> faces does not record the face itself at each of its edges", "", note="_adjE2F from face_to_edges of every face")
    # ---- edge -> cells: union of the cells of every face around the edge (possibly built by another builder than edge -> faces)
    gc = hr.guard_callee(repo, VOL, CONN, "_adjE2C")
    fn_c = gc[1] if gc else fn
    if fn_c is not fn:
        x = q.summarise(repo, VOL, CONN, fn_c, policy=BUILD)
        site = ctx.site(VOL, fn_c)

    def stored_as_e2c(objid):
        st = [s_ for s_ in x.effects if s_.kind == "setitem" and q.field(x.canon(s_.base)) == "_adjE2C"
              and sx.is_special(q._strip_conv(s_.value), "$obj") and q._strip_conv(s_.value).id == objid]
        return st[0].key if len(st) == 1 else None
    contrib = []
    for e in x.effects:
        if e.kind == "aug" and isinstance(e.op, ast.BitOr):
            k = q.lookup_key(x.canon(e.base), "_adjE2C") if e.key is None else (e.key if q.field(x.canon(e.base)) == "_adjE2C" else None)
            if k is None and sx.is_special(e.base, "$obj"):
                st = [s_ for s_ in x.effects if s_.kind == "setitem" and q.field(x.canon(s_.base)) == "_adjE2C"
                      and sx.is_special(q._strip_conv(s_.value), "$obj") and q._strip_conv(s_.value).id == e.base.id]
                if len(st) == 1:
                    k = st[0].key
            if k is not None:
                contrib.append((e, k))
        if e.kind == "call" and e.method == "update" and len(e.args or []) == 1:
            k = q.lookup_key(x.canon(e.base), "_adjE2C")
            if k is None and sx.is_special(e.base, "$obj"):
                k = stored_as_e2c(e.base.id)
            if k is not None:
                contrib.append((e, k))
    ok = None
    if len(contrib) == 1:
        e, k = contrib[0]
        val = e.value if e.kind == "aug" else e.args[0]
        val = q._strip_conv(x.expand(val))
        fr = e.frames
        if len(fr) == 2 and not e.conds and isinstance(val, ast.Call) and q.field(val.func) == "face_to_cells" and len(val.args) == 1:
            f = val.args[0]
            if hr.seq_over(fr[0], "faces") and _call_on(fr[1].dom, "face_to_edges", sx.N(fr[0].var)):
                ok = q.same(k, _elem(fr[1])) and q.same(f, sx.N(fr[0].var))
            elif hr.seq_over(fr[0], "edges") and q.lookup_key(fr[1].dom, "_adjE2F") is not None and q.same(q.lookup_key(fr[1].dom, "_adjE2F"), sx.N(fr[0].var)):
                ok = q.same(k, sx.N(fr[0].var)) and q.same(f, _elem(fr[1]))
    over = [s_ for s_ in q.setitems(x, "_adjE2C") if len(s_.frames) == 2 and hr.seq_over(s_.frames[0], "faces")
            and isinstance(q._strip_conv(x.expand(s_.value)), ast.Call) and q.field(q._strip_conv(x.expand(s_.value)).func) == "face_to_cells"]
    if ok is None and not contrib and over:
        ctx.fail("C03-E1", ctx.site(VOL, over[0].fn, over[0].node), "edge -> cells is overwritten with the cells of one face in the loop over the faces instead of accumulated",
                 "the cells around an edge are the union of the cells of every face containing the edge")
    elif ok is None:
        ctx.undecided("C03-E1", site, "edge -> cells is not recognised as the union of face_to_cells(f) over the faces f around the edge", f"{len(contrib)} contribution(s)")
    else:
        ctx.check(ok, "C03-E1", site, "edge -> cells is not the union of the cells of every face containing the edge", "", note="_adjE2C union of face_to_cells")
    # ---- vertex -> cells
    fn = _priv(ctx, "C03-E1", VOL, CONN, "_compute_connectivity", field="_adjV2C")
    site = ctx.site(VOL, fn)
    x = q.summarise(repo, VOL, CONN, fn, policy=sx.Policy(never={"_sort_vertex_neighborhoods"}))
    ins = hr.relation_insertions(x, "_adjV2C")
    ok = None
    if len(ins) == 1:
        e, k, v, fr, cs = ins[0]
        if len(fr) == 2 and not cs and hr.seq_over(fr[0], "cells") and fr[1].kind == "seq" and q.same(fr[1].dom, _elem(fr[0])):
            ok = q.same(k, _elem(fr[1])) and q.same(v, sx.N(fr[0].var))
    if ok is None:
        ctx.undecided("C03-E1", site, "vertex -> cells is not recognised as `each cell is recorded at every vertex of the cell`", f"{len(ins)} insertion(s)")
    else:
        ctx.check(ok, "C03-E1", site, "vertex -> cells does not record the cell itself at each of its vertices", "", note="_adjV2C from every vertex of every cell")
    # ---- adjacent cell: adj[(cell, local face)] = the other cell of that face
    fn = _priv(ctx, "C03-E1", VOL, CONN, "_compute_adjacent_cell", field="_adjC2C")
    site = ctx.site(VOL, fn)
    x = q.summarise(repo, VOL, CONN, fn, policy=BUILD)
    st = q.setitems(x, "_adjC2C")
    # `index or default`: an index query answers 0 for element 0, which is falsy
    INDEX_QUERIES = {"other_face_side", "face_id", "edge_id", "cell_to_cell", "common_face"}
    for e in st:
        v = e.value
        if isinstance(v, ast.BoolOp) and isinstance(v.op, ast.Or) and isinstance(v.values[0], ast.Call) and q.field(v.values[0].func) in INDEX_QUERIES:
            ctx.fail("C03-E1", ctx.site(VOL, e.fn, e.node),
                     f"the adjacent cell is stored as `{q.field(v.values[0].func)}(..) or <default>`: the truth value of an index decides, and index 0 is falsy",
                     "cell 0 is never recorded as a neighbour: cell_to_cell misses it for every cell adjacent to cell 0")
            return
    verdict = None
    seen_local = set()
    for e in st:
        k = e.key
        if not (isinstance(k, ast.Tuple) and len(k.elts) == 2 and len(e.frames) == 2 and hr.seq_over(e.frames[0], "cells")):
            verdict = None
            break
        cell = sx.N(e.frames[0].var)
        dom = e.frames[1].dom
        if isinstance(dom, ast.Call) and q.field(dom.func) == "face_to_cells" and q.same(k.elts[0], _elem(e.frames[1])) and q.same(e.value, cell):
            verdict = "stores the cell under the key of its neighbour (the local face number is the one of the cell, not of the neighbour)"
            break
        if not (q.same(k.elts[0], cell) and isinstance(au.const(k.elts[1]), int) and isinstance(dom, ast.Call) and q.field(dom.func) == "face_to_cells"
                and q.same(e.value, _elem(e.frames[1]))):
            verdict = None
            break
        seen_local.add(au.const(k.elts[1]))
        others = [(t, p) for t, p in e.conds if "has_attribute" not in au.src(t)]
        good = len(others) == 1 and isinstance(au.strip_not(*others[0])[0], ast.Compare) and \
            {au.norm(au.strip_not(*others[0])[0].left), au.norm(au.strip_not(*others[0])[0].comparators[0])} == {au.norm(e.value), au.norm(cell)}
        if not good:
            verdict = None
            break
        t, p = au.strip_not(*others[0])
        differs = isinstance(t.ops[0], ast.NotEq) == p if isinstance(t.ops[0], (ast.Eq, ast.NotEq)) else None
        if differs is None:
            verdict = None
            break
        if not differs:
            verdict = "records the cell itself as its neighbour across a face"
            break
        verdict = True
    if verdict is None or (verdict is True and seen_local != {0, 1, 2, 3}):
        ctx.undecided("C03-E1", site, "adjacent cell is not recognised as `adj[(cell, local face)] = the other cell of that face` for the four local faces", "")
    else:
        ctx.check(verdict is True, "C03-E1", site, f"the adjacent-cell table {verdict}",
                  "cell-to-cell adjacency must list, per local face, the cell across it", note="_adjC2C[(cell, i)] = other cell of local face i")


# ---------------------------------------------------------------------------- D2
def d2_definitional(ctx):
    repo = ctx.repo
    NB = sx.Policy(never={"_compute_connectivity", "_compute_face_ids", "_compute_cell_adj", "_compute_edge_id", "_compute_adjacent_cell"})
    fn = _pub(ctx, VOL, CONN, "other_face_side")
    site = ctx.site(VOL, fn)
    C_, F_ = au.params(fn, skip_self=True)[:2]
    x = q.summarise(repo, VOL, CONN, fn, policy=NB)

    def end_of(t):
        if isinstance(t, ast.Subscript) and au.const(t.slice) in (0, 1) and _call_on(t.value, "face_to_cells", sx.N(F_)):
            return au.const(t.slice)
        return None

    def gate(t):
        """number of cells of the face is (not) two"""
        if isinstance(t, ast.Compare) and len(t.ops) == 1 and isinstance(t.ops[0], (ast.Eq, ast.NotEq)):
            l, r = t.left, t.comparators[0]
            for a, b in ((l, r), (r, l)):
                if isinstance(a, ast.Call) and isinstance(a.func, ast.Name) and a.func.id == "len" and len(a.args) == 1 \
                        and _call_on(a.args[0], "face_to_cells", sx.N(F_)) and au.const(b) == 2:
                    return ("two", isinstance(t.ops[0], ast.Eq))
        return None
    hr.two_ended(ctx, "C03-D2", site, x, "other_face_side(C, F)", C_, end_of, "the other cell of an interior face F of C, else None", gate=gate)
    fn = _pub(ctx, VOL, CONN, "cell_to_cell")
    site = ctx.site(VOL, fn)
    iC = au.params(fn, skip_self=True)[0]
    x = q.summarise(repo, VOL, CONN, fn, policy=NB)
    v = q.comp_view(x, x.ret) if x.ret is not None else None
    verdict = None
    if v is not None:
        frames, conds, elt = v
        row = ast.Subscript(value=ast.Attribute(value=ast.Attribute(value=sx.N("self"), attr="mesh", ctx=ast.Load()), attr="cells", ctx=ast.Load()),
                            slice=sx.N(iC), ctx=ast.Load())
        if len(frames) == 1 and frames[0].kind == "seq" and q.same(frames[0].dom, row):
            k = q.lookup_key(elt, "_adjC2C")
            if k is not None and isinstance(k, ast.Tuple) and len(k.elts) == 2 and q.same(k.elts[0], sx.N(iC)) and q.same(k.elts[1], sx.N(frames[0].var)):
                if not conds:
                    verdict = "keeps the entries that hold no neighbour (NOT_AN_ID)"
                elif len(conds) == 1:
                    t, p = au.strip_not(*conds[0])
                    if isinstance(t, ast.Compare) and len(t.ops) == 1 and isinstance(t.ops[0], (ast.Eq, ast.NotEq)) \
                            and {au.norm(t.left), au.norm(t.comparators[0])} == {au.norm(elt), au.norm(ast.Attribute(value=sx.N("config"), attr="NOT_AN_ID", ctx=ast.Load()))}:
                        verdict = True if (isinstance(t.ops[0], ast.NotEq) == p) else "keeps only the entries that hold no neighbour"
    if verdict is None:
        ctx.undecided("C03-D2", site, "cell_to_cell is not recognised as `adjacent cell across each local face, missing neighbours dropped`", "")
    else:
        ctx.check(verdict is True, "C03-D2", site, f"cell_to_cell {verdict}", "cell_to_cell lists the adjacent cell across each local face, missing neighbours dropped",
                  note="cell_to_cell")


# ---------------------------------------------------------------------------- F1
def f1_face_completion(ctx):
    fn = _priv(ctx, "C03-F1", MD, "RawMeshData", "_complete_faces_from_cells", pred=_appends_to("faces"))
    site = ctx.site(MD, fn)
    x = q.summarise(ctx.repo, MD, "RawMeshData", fn)
    apps = [e for e, b in q.method_calls(x, ("append",)) if q.field(b) == "faces" and len(e.args) == 1]
    if not apps:
        ctx.undecided("C03-F1", site, "appending of the faces generated from the cells not recognised", "no append to self.faces")
        return

    def guard_of(e):
        for t, p in e.conds:
            t, p = au.strip_not(t, p)
            if isinstance(t, ast.Compare) and len(t.ops) == 1 and isinstance(t.ops[0], (ast.In, ast.NotIn)) and sx.is_special(t.comparators[0], "$obj"):
                if (isinstance(t.ops[0], ast.NotIn)) == p:
                    return (t.left, t.comparators[0].id)
        return None
    guards = [guard_of(e) for e in apps]
    if None in guards or len({g[1] for g in guards}) != 1:
        ctx.undecided("C03-F1", site, "the append of a generated face is not guarded by `key not in <set of known faces>`", "")
        return
    sid = guards[0][1]
    # the same obligation for every (unrolled) append; they are judged together
    missing_add = [e for e, g in zip(apps, guards) if not any(
        (m.kind == "call" and sx.is_special(m.base, "$obj") and m.base.id == sid and m.method == "add" and len(m.args) == 1 and q.same(m.args[0], g[0])
         or m.kind == "setitem" and sx.is_special(m.base, "$obj") and m.base.id == sid and q.same(m.key, g[0])) and hr._ctx_key(m) == hr._ctx_key(e)
        for m in x.effects)]
    e = apps[0]
    key = guards[0][0]
    shrink = [m for m in x.effects if m.kind == "call" and sx.is_special(m.base, "$obj") and m.base.id == sid
              and m.method in ("remove", "discard", "pop", "clear", "difference_update", "intersection_update")]
    adds = [m for m in x.effects if m.kind == "call" and sx.is_special(m.base, "$obj") and m.base.id == sid and m.method == "add" and len(m.args) == 1
            and q.same(m.args[0], key) and hr._ctx_key(m) == hr._ctx_key(e)]
    # the known keys may be kept in a dictionary (key -> index) instead of a set
    adds += [m for m in x.effects if m.kind == "setitem" and sx.is_special(m.base, "$obj") and m.base.id == sid and q.same(m.key, key)
             and hr._ctx_key(m) == hr._ctx_key(e)]
    seeded = [m for m in x.effects if m.kind == "setitem" and sx.is_special(m.base, "$obj") and m.base.id == sid and len(m.frames) == 1
              and hr.seq_over(m.frames[0], "faces") and set(q.cond_srcs(m.conds)) <= set(q.cond_srcs(e.conds)) and m.seq < e.seq]
    if shrink:
        ctx.fail("C03-F1", ctx.site(MD, shrink[0].fn, shrink[0].node), f"the set of known face keys is shrunk ({shrink[0].method}) while the faces of the cells are generated",
                 "a face listed in the input or generated by an earlier cell must stay known: once forgotten it is appended a second time by the next cell "
                 "that has it, and the duplicate has no incident cell")
        return
    init = q._strip_conv(x.objs[sid].init)
    init_ok = isinstance(init, (ast.SetComp, ast.ListComp, ast.GeneratorExp, ast.DictComp)) and hasattr(init, "_frames") and len(init._frames) == 1 \
        and hr.seq_over(init._frames[0], "faces") and not init._conds
    init_ok = init_ok or (q._empty_container(init) and bool(seeded))
    if not adds or missing_add or not init_ok:
        ctx.undecided("C03-F1", site, "the set of known face keys is not `keys of the listed faces, plus every face appended`", "")
    else:
        ctx.ok("C03-F1", site, "known-face set starts from the listed faces, grows with every appended face, never shrinks")


# ---------------------------------------------------------------------------- X1
def x1_index_spaces(ctx):
    CONT = ("vertices", "edges", "faces", "cells")
    fn = ctx.repo.func(VOL, BCONN + ".__init__")
    x = q.summarise(ctx.repo, VOL, BCONN, fn)
    fnb, xb, maps = _border_fn(ctx)

    def scan(x_, fn_, modname, is_volume, is_m2b):
        bad = None
        for e, t in hr.all_terms(x_):
            for n in ast.walk(t):
                if isinstance(n, ast.Subscript) and isinstance(n.value, ast.Attribute) and n.value.attr in CONT and is_volume(n.value.value):
                    for m in ast.walk(n.slice):
                        base = m.value if isinstance(m, ast.Subscript) else (m.func.value if isinstance(m, ast.Call) and isinstance(m.func, ast.Attribute)
                                                                          and m.func.attr == "get" else None)
                        if base is not None and is_m2b(base):
                            bad = (e, n.value.attr)
        site = ctx.site(modname, fn_)
        ctx.check(bad is None, "C03-X1", site if bad is None else ctx.site(modname, bad[0].fn, bad[0].node),
                  f"{fn_.name}: an index already translated to the boundary numbering is used to index the {bad[1] if bad else ''} of the volume mesh",
                  "the two meshes number their elements differently: the look-up reads an unrelated element of the volume as soon as the map is not the identity",
                  note=f"{fn_.name}: boundary indices never index the volume")
    scan(x, fn, VOL, lambda t: q.field(t) == "complete_mesh", lambda b: (q.field(b) or "").startswith("m2b_"))
    if maps is not None:
        vol = au.params(fnb)[0]
        scan(xb, fnb, BORDER, lambda t: isinstance(t, ast.Name) and t.id == vol, lambda b: sx.is_special(b, "$obj") and b.id == maps[0])


# ---------------------------------------------------------------------------- Q1
def _face_order(value):
    """local positions (in the row of the source face) of the components of a face being written, e.g. (0, 2, 1); None when not recognised"""
    value = q._strip_conv(value)
    if not isinstance(value, (ast.Tuple, ast.List)) or len(value.elts) < 3:
        return None
    per_elt = []
    for el in value.elts:
        hits = [(au.norm(n.value), au.const(n.slice)) for n in ast.walk(el)
                if isinstance(n, ast.Subscript) and isinstance(au.const(n.slice), int) and not isinstance(au.const(n.slice), bool)]
        per_elt.append(hits)
    common = set.intersection(*[{b for b, _ in h} for h in per_elt]) if all(per_elt) else set()
    for base in sorted(common, key=len):
        idx = []
        for h in per_elt:
            c = [i for b, i in h if b == base]
            if len(c) != 1:
                idx = None
                break
            idx.append(c[0])
        if idx and sorted(idx) == list(range(len(idx))):
            return tuple(idx)
    return None


def _reverses(order):
    n = len(order)
    return not any(tuple((k + i) % n for i in range(n)) == tuple(order) for k in range(n))


def q1_orientation(ctx):
    """a border face is copied with the vertex order it has in the volume; it is written reversed only under a test that looks at the
    cell incident to the face (outwardness is a local property of the face and its cell)"""
    CELL_WORDS = ("cells", "face_to_cells", "other_face_side", "cell_to_face", "cell_to_cell")
    fnb, xb, maps = _border_fn(ctx)
    fnv = ctx.repo.func(VOL, BCONN + ".__init__")
    xv = q.summarise(ctx.repo, VOL, BCONN, fnv)
    for modname, fn, x in ((BORDER, fnb, xb), (VOL, fnv, xv)):
        site = ctx.site(modname, fn)
        writes = []
        for e in x.effects:
            if e.kind == "setitem" and isinstance(e.base, ast.Attribute) and e.base.attr == "faces" and sx.is_special(e.base.value, "$obj"):
                writes.append((e, x.expand(e.value)))
            elif e.kind == "call" and e.method == "append" and isinstance(e.base, ast.Attribute) and e.base.attr == "faces" \
                    and sx.is_special(e.base.value, "$obj") and len(e.args) == 1:
                writes.append((e, x.expand(e.args[0])))
        bad = None
        unread = []
        n_read = 0
        for e, v0, lconds, v in [(e, v, lc_, leaf) for e, v in writes for lc_, leaf in sx.leaves(v)]:
            order = _face_order(v)
            if order is None:
                continue
            n_read += 1
            if not _reverses(order):
                continue
            tests = [x.expand(t) for t, _ in list(e.conds) + list(lconds)]
            # what the tests depend on, through the arrays / containers they read: values stored into a container that a test mentions
            deps = list(tests)
            for _ in range(4):
                keys = {au.norm(n) for t in deps for n in ast.walk(t) if isinstance(n, (ast.Call, ast.Name, ast.Attribute, ast.Subscript))}
                more = [x.expand(t) for s_ in x.effects if s_.kind in ("setitem", "aug") and au.norm(s_.base) in keys
                        for t in (s_.value, s_.key) if isinstance(t, ast.AST)]
                more = [t for t in more if au.norm(t) not in {au.norm(d) for d in deps}]
                if not more:
                    break
                deps += more
            # the cell list counts only when one cell is looked up in it (`cells[iC]`), not when it is read as a whole
            whole = {id(n.args[0]) for t in deps for n in ast.walk(t) if isinstance(n, ast.Call) and n.args
                     and isinstance(n.args[0], ast.Attribute) and n.args[0].attr == "cells"}
            about_cell = any(isinstance(n, ast.Attribute) and n.attr in CELL_WORDS and id(n) not in whole for t in deps for n in ast.walk(t))
            aggregate = [n for t in deps for n in ast.walk(t) if isinstance(n, ast.Call)
                         and (n.func.attr if isinstance(n.func, ast.Attribute) else n.func.id if isinstance(n.func, ast.Name) else "")
                         in ("mean", "average", "median", "sum", "centroid", "barycenter")
                         and any(isinstance(m, ast.Attribute) and m.attr in ("cells", "vertices") for a in n.args for m in ast.walk(a))]
            if not about_cell and aggregate and bad is None:
                bad = (e, order, True)
                continue
            opaque = any((isinstance(n, ast.Name) and n.id.startswith(("$mu", "$after", "$u", "$gen"))) or
                         (isinstance(n, ast.Attribute) and isinstance(n.value, ast.Name) and n.value.id in ("np", "numpy"))
                         for t in deps for n in ast.walk(t))
            if not about_cell and opaque:
                unread.append(e)
            elif not about_cell and bad is None:
                bad = (e, order, bool(tests))
        if bad is not None:
            e, order, cond = bad
            ctx.fail("C03-Q1", ctx.site(modname, e.fn, e.node),
                     f"{fn.name}: a boundary face is written with its vertices in the reversed order {order} " +
                     ("under a test that does not look at the cell incident to the face" if cond else "unconditionally"),
                     "which side of a border face is outside is decided by its one incident cell; a criterion that ignores the cell "
                     "(a global reference point, the face alone) flips correctly oriented faces on non-convex domains")
        elif unread:
            ctx.undecided("C03-Q1", ctx.site(modname, unread[0].fn, unread[0].node),
                          f"{fn.name}: a boundary face is written reversed under a test computed through arrays that could not be traced to the incident cell", "")
        else:
            ctx.ok("C03-Q1", site, f"{fn.name}: {n_read} face write(s) read, none reversed without looking at the incident cell")



# ---------------------------------------------------------------------------- Q2
def q2_geometry(ctx):
    """VolumeMesh.boundary_mesh must be outward for ANY cell vertex order. Mirroring all vertex positions leaves every combinatorial
    datum (cells, faces, incidences, local indices) unchanged but swaps inside and outside, so the vertex order of a written boundary
    face must depend (through its value, the tests it is written under, or the containers those read) on the vertex positions."""
    COMB = ("cells", "face_to_cells", "other_face_side", "cell_to_face", "cell_to_cell", "in_cell_face_index", "face_id", "keyify",
            "len", "range", "enumerate", "zip", "tuple", "list", "sorted", "set", "append", "get", "int", "reversed", "index",
            "$seq", "$range", "$keys")
    fnv = ctx.repo.func(VOL, BCONN + ".__init__")
    xv = q.summarise(ctx.repo, VOL, BCONN, fnv)
    site = ctx.site(VOL, fnv)
    writes = []
    for e in xv.effects:
        if e.kind == "setitem" and isinstance(e.base, ast.Attribute) and e.base.attr == "faces" and sx.is_special(e.base.value, "$obj"):
            writes.append((e, xv.expand(e.value)))
        elif e.kind == "call" and e.method == "append" and isinstance(e.base, ast.Attribute) and e.base.attr == "faces" \
                and sx.is_special(e.base.value, "$obj") and len(e.args) == 1:
            writes.append((e, xv.expand(e.args[0])))
    if not writes:
        ctx.undecided("C03-Q2", site, "no write to the faces of the extracted boundary surface could be read", "")
        return
    n = 0
    for e, v in writes:
        deps = [v] + [xv.expand(t) for t, _ in e.conds]
        for _ in range(4):
            keys = {au.norm(k) for t in deps for k in ast.walk(t) if isinstance(k, (ast.Call, ast.Name, ast.Attribute, ast.Subscript))}
            more = [xv.expand(t) for s_ in xv.effects if s_.kind in ("setitem", "aug") and au.norm(s_.base) in keys
                    for t in (s_.value, s_.key) if isinstance(t, ast.AST)]
            more = [t for t in more if au.norm(t) not in {au.norm(d) for d in deps}]
            if not more:
                break
            deps += more
        nodes = [k for t in deps for k in ast.walk(t)]
        geometric = any(isinstance(k, ast.Attribute) and k.attr == "vertices" for k in nodes)
        if geometric:
            n += 1
            continue
        opaque = any(isinstance(k, ast.Name) and k.id.startswith(("$mu", "$after", "$u", "$gen")) for k in nodes)
        foreign = [k for k in nodes if isinstance(k, ast.Call) and
                   (k.func.attr if isinstance(k.func, ast.Attribute) else k.func.id if isinstance(k.func, ast.Name) else "?") not in COMB]
        if opaque or foreign:
            why = sorted({k.id for k in nodes if isinstance(k, ast.Name) and k.id.startswith("$")} | {au.norm(k.func) for k in foreign})
            ctx.undecided("C03-Q2", ctx.site(VOL, e.fn, e.node),
                          "the vertex order of a boundary face is computed through a value that could not be traced to the vertex positions", ", ".join(why)[:300])
            return
        ctx.fail("C03-Q2", ctx.site(VOL, e.fn, e.node),
                 "the vertex order of a face of VolumeMesh.boundary_mesh is decided from combinatorial data only "
                 "(no read of the vertex positions reaches the value or the tests it is written under)",
                 "a mirror image of the mesh has the same cells, faces and incidences but the opposite outside: for cells stored "
                 "with negative vertex order the face comes out oriented inwards")
        return
    ctx.ok("C03-Q2", site, f"{n} boundary face write(s): vertex order depends on the vertex positions")


# ----------------------------------------------------------------------- generic families (msa/rules/generic.py)
_run_specific = run


def run(ctx):
    _run_specific(ctx)
    from ..rules import generic
    generic.apply(ctx, "C03", stale_modules=())


def _generic_rule_texts():
    from ..rules import generic
    return generic.rule_texts("C03", stale=False)


RULES.update(_generic_rule_texts())
