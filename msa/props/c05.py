"""C05 - attributes are total maps with defaults; sparse and dense storage agree (structural clauses).

Every rule reads the *paths* of the methods it is about (msa/rules/hd_sx.py: local names substituted, private helpers expanded,
conditions split into atoms, literal tables unrolled) and decides its obligation on the paths / on decision tables over their
atoms (hd_tt.py) or by tabulating a pure function on a finite domain (hd_eval.py).  A path whose shape is not understood gives
`undecided`, never a violation; a violation names the recognised construct that contradicts the rule."""
from __future__ import annotations
import ast
from .. import au, sym, order
from ..core import AnalysisError
from ..rules import hd_sx, hd_tt, hd_eval
from ..rules.hd_sx import SX, TooComplex, src, walk_events

MA = "mesh.mesh_attributes"
DC = "mesh.data_container"

EXPLANATION = (
    "Static conformance of the attribute classes and their containers, decided on the symbolic paths of each method (helpers "
    "expanded, conditions split into atoms): bounds predicate of the dense storage under all orderings and its dominance over every "
    "data access, growth alignment (on every path the attributes are expanded by exactly the number of appended elements, through "
    "members that exist, for every attribute), no hand-out of the shared mutable default, fresh object per sparse entry, "
    "agreement of the accept/reject decision of the sparse and dense setters under every feasible truth assignment of their "
    "conditions, cast table and type defaults tabulated on the finite domain of attribute types, expand/clear/export state "
    "equations. Structural necessary conditions only.")

RULES = {
    "C05-O1": "ArrayAttribute rejects key iff key < 0 or key >= n_elem, and the check dominates every access to the storage",
    "C05-G1": "on every path of every public container method the attributes are expanded (attr._expand for every attribute, unconditionally) by exactly the number of elements "
              "the path appends, through resolvable members; a path that empties the element storage also drops (or empties) the attribute table",
    "C05-A1": "the stored default is handed out for an absent key only if it cannot be mutable (elemsize == 1) or through a copy; a present key reads its stored value",
    "C05-A2": "the sparse storage keeps a fresh object per entry: a vector written into the dictionary never shares storage with the "
              "value the caller passed (nor, through it, with another entry)",
    "C05-D1": "the default of each attribute type is the zero / empty value of that type (vector defaults repeat it elemsize times); "
              "default_value is computed from (type, elemsize) when none was given",
    "C05-R1": "the dense read returns the scalar `_data[key, 0]` exactly when elemsize == 1 and the whole row otherwise; __len__ is n_elem / number of stored keys",
    "C05-S1": "sparse and dense __setitem__ accept and reject the same values under every feasible truth assignment of their conditions, bounds check apart; "
              "accepted values passed the cast test (value type -> attribute type) and, for vectors, the exact-arity test",
    "C05-T1": "castable pairs are exactly reflexive + {(Bool,Int),(Bool,Float),(Int,Float)} (function tabulated over the 5 x 5 type pairs)",
    "C05-C1": "a new dense attribute is (n_elem, elemsize) rows of its default; _expand adds n default rows after the existing ones (concatenation or preallocate-copy-fill) and n to n_elem; "
              "clear restores (n_elem, elemsize) defaults / an empty dictionary and resets every field the storage is rebuilt from; dense creation is sized by the container; "
              "the sparse export is a default-filled block overwritten by every stored item at its index, computed from the current entries (no remembered export)",
}

BASIC_FIELDS = {"_data", "n_elem", "elemsize", "type", "default_value", "_default_value"}
OPAQUE = ("_can_be_casted",)


def run(ctx):
    for rule, f in (("C05-O1", o1_bounds), ("C05-G1", g1_growth), ("C05-A1", a1_default_alias), ("C05-A2", a2_stored_value_fresh),
                    ("C05-S1", s1_siblings), ("C05-T1", t1_cast_table), ("C05-C1", c1_expand_clear), ("C05-C1", c1_init), ("C05-C1", c1_creation),
                    ("C05-C1", c1_export), ("C05-D1", d1_defaults), ("C05-R1", r1_dense_read)):
        try:
            f(ctx)
        except AnalysisError:
            raise
        except Exception as e:  # noqa - a shape the reader trips on is undecided, never a verdict
            ctx.undecided(rule, ctx.site(MA, "<module>"), f"{f.__name__}: the rule could not read the code", f"{type(e).__name__}: {e}")


# ---------------------------------------------------------------------------- shared
def _paths(ctx, rule, modname, qual, cls=None, skip=OPAQUE, **kw):
    """(fn, site, paths) - paths is None (and the obligation is recorded as undecided) when the function cannot be read"""
    if cls is None and "." in qual:
        cls = qual.rsplit(".", 1)[0]
    fn = _method(ctx.repo, modname, qual)
    site = ctx.site(modname, fn)
    try:
        kw.setdefault("keep_props", ("default_value", "dtype"))
        ps = SX(ctx.repo, modname, cls, skip=skip, **kw).run(fn)
    except (TooComplex, RecursionError) as e:
        ctx.undecided(rule, site, f"{qual}: too many paths to read", str(e))
        return fn, site, None
    except AnalysisError:
        raise
    except Exception as e:  # noqa
        ctx.undecided(rule, site, f"{qual}: the path reader failed", f"{type(e).__name__}: {e}")
        return fn, site, None
    bad = sorted({n for p in ps for n in p.notes})
    if bad:
        ctx.undecided(rule, site, f"{qual}: contains a statement the path reader does not model", "; ".join(bad))
        return fn, site, None
    return fn, site, ps


def _method(repo, modname, qual):
    """FunctionDef of `Class.method`, looked up through the bases of the class when the class itself does not define it"""
    if repo.has_func(modname, qual) or "." not in qual:
        return repo.func(modname, qual)
    cname, mname = qual.rsplit(".", 1)
    mod = repo.module(modname)
    if cname in mod.classes:
        got = repo.methods(mod, mod.classes[cname]).get(mname)
        if got is not None and not any(src(d) == "abstractmethod" for d in got[1].decorator_list):
            return got[1]
    return repo.func(modname, qual)          # AnalysisError: the anchor is gone


def is_default(e):
    return au.is_self_attr(e, "default_value") or au.is_self_attr(e, "_default_value")


def _has_name(e, nm):
    return isinstance(e, ast.AST) and any(isinstance(n, ast.Name) and n.id == nm for n in ast.walk(e))


def _self_fields(e):
    return {n.attr for n in ast.walk(e) if au.is_self_attr(n)} if isinstance(e, ast.AST) else set()


def _exc_name(p):
    for ev in reversed(p.events):
        if ev.kind == "raise":
            e = ev.a.func if isinstance(ev.a, ast.Call) else ev.a
            return src(e).split(".")[-1] if e is not None else "?"
    return None


def _elemsize_ok(conds, want):
    """can the conditions about self.elemsize hold for an element size e with want(e)?  (e is a positive count)"""
    def s(node):
        if au.is_self_attr(node, "elemsize") or src(node) == "self._data.shape[1]":
            return "e"
        raise order.Unsupported(src(node))
    def is_e(x):
        return au.is_self_attr(x, "elemsize") or src(x) == "self._data.shape[1]"

    def direct(x):
        """the element size itself, or simple arithmetic on it"""
        if is_e(x):
            return True
        if isinstance(x, ast.BinOp):
            return (direct(x.left) and order.fold_const(x.right) is not None) or (direct(x.right) and order.fold_const(x.left) is not None)
        return False

    def about_e(t):
        if isinstance(t, ast.Compare):
            return any(direct(x) for x in [t.left] + list(t.comparators))
        if isinstance(t, ast.Call):
            return any(direct(a) for a in t.args)
        return direct(t)
    usable, unread = [], False
    for t, pol in conds:
        if not about_e(t):
            continue
        try:
            order.Pred(s).collect(t)
            usable.append((t, pol))
        except order.Unsupported:
            # a comparison of the element size with another quantity (the arity test) leaves the element size free
            free = isinstance(t, ast.Compare) and len(t.ops) == 1 and type(t.ops[0]) in order.CMP and \
                any(order.fold_const(x) is None and "elemsize" not in src(x) and "shape[1]" not in src(x) for x in (t.left, t.comparators[0]))
            if not free:
                unread = True
    pred = order.Pred(s)
    for e in (1, 2, 3, 4):
        if want(e) and all(bool(pred.eval(t, {"e": e})) == pol for t, pol in usable):
            return None if unread else True      # None: a condition on the element size is not understood, the answer is not known
    return False


# ---------------------------------------------------------------------------- O1
def o1_bounds(ctx):
    repo = ctx.repo
    for mname in ("__getitem__", "__setitem__"):
        fn, site, ps = _paths(ctx, "C05-O1", MA, "ArrayAttribute." + mname)
        if ps is None:
            continue
        params = au.params(fn, skip_self=True)
        if not params:
            ctx.undecided("C05-O1", site, f"ArrayAttribute.{mname} has no key parameter")
            continue
        key = params[0]

        def s(node, _k=key):
            if isinstance(node, ast.Name) and node.id == _k:
                return "key"
            t = src(node)
            if t in ("self.n_elem", "len(self)", "len(self._data)", "self._data.shape[0]"):
                return "n"
            raise order.Unsupported(t)
        pred = order.Pred(s)
        pred.symbols.update({"key", "n"})
        pred.consts.add(0)
        unknown = []

        def bounds(conds):
            out = []
            for t, pol in conds:
                if not _has_name(t, key):
                    continue
                try:
                    pred.collect(t)
                    out.append((t, pol))
                except order.Unsupported:
                    type_test = isinstance(t, ast.Call) and au.call_tail(t) in ("isinstance", "issubclass", "callable", "hasattr")
                    if not type_test:
                        unknown.append(src(t))       # a test on the key that the ordering domain cannot express: the verdict would not be sound
            return out
        info = []
        n_access = 0
        for p in ps:
            acc = []
            for ev, conds, _ in walk_events(p):
                for e in hd_sx.exprs_of(ev):
                    if any(isinstance(n, ast.Subscript) and au.is_self_attr(n.value, "_data") for n in ast.walk(e)):
                        acc.append(bounds(conds))
            if isinstance(p.ret, ast.AST) and any(isinstance(n, ast.Subscript) and au.is_self_attr(n.value, "_data") for n in ast.walk(p.ret)):
                acc.append(bounds(p.conds))
            n_access += len(acc)
            info.append((p, bounds(p.conds), acc))
        if unknown:
            ctx.undecided("C05-O1", site, f"ArrayAttribute.{mname}: the key is compared in a way the ordering domain cannot express",
                          "; ".join(sorted(set(unknown))))
            continue
        if n_access == 0:
            ctx.undecided("C05-O1", site, f"ArrayAttribute.{mname}: no access to self._data[...] found on any path")
            continue
        verdict = None
        for env in order.envs(pred.symbols, pred.consts):
            if env["n"] < 0:
                continue
            oob = env["key"] < 0 or env["key"] >= env["n"]
            w = {"key": env["key"], "n_elem": env["n"]}
            for p, bc, acc in info:
                if not all(bool(pred.eval(t, env)) == pol for t, pol in bc):
                    continue
                if oob:
                    if any(all(bool(pred.eval(t, env)) == pol for t, pol in a) for a in acc):
                        verdict = (f"ArrayAttribute.{mname} reaches self._data with a key outside the container",
                                   f"e.g. {w}: numpy would silently wrap a negative index / raise IndexError instead of OutOfBoundsError - the dense "
                                   f"storage must report every index outside the container, the container's size included")
                    elif p.end != "raise" and bc:
                        verdict = (f"ArrayAttribute.{mname} does not report a key outside the container", f"e.g. {w}: the path ends without raising")
                    elif p.end == "raise" and bc and not (_exc_name(p) or "").endswith("OutOfBoundsError"):
                        verdict = (f"ArrayAttribute.{mname}: out-of-bounds access raises {_exc_name(p)} instead of OutOfBoundsError", f"e.g. {w}")
                elif p.end == "raise" and (_exc_name(p) or "").endswith("OutOfBoundsError"):
                    verdict = (f"ArrayAttribute.{mname} rejects a key inside the container", f"e.g. {w}")
                if verdict:
                    break
            if verdict:
                break
        if verdict:
            ctx.fail("C05-O1", site, verdict[0], verdict[1])
        else:
            ctx.ok("C05-O1", site, f"{mname}: rejected iff key < 0 or key >= n_elem; the check dominates {n_access} storage access(es)")


# ---------------------------------------------------------------------------- G1
def _class_members(repo, modname, clsname):
    mod = repo.module(modname)
    cls = repo.cls(modname, clsname)
    names = set()
    for m, c in repo.mro(mod, cls):
        for st in c.body:
            if isinstance(st, ast.FunctionDef):
                names.add(st.name)
                for n in au.walk(st):
                    if au.is_self_attr(n) and isinstance(n.ctx, ast.Store):
                        names.add(n.attr)
            elif isinstance(st, (ast.Assign, ast.AnnAssign)):
                for t in au.assign_targets(st):
                    names.update(au.assigned_names(t))
    return names


class _GUndecided(Exception):
    pass


class _GFail(Exception):
    def __init__(self, construct, what):
        super().__init__(construct)
        self.construct, self.what = construct, what


P = sym.Poly


def _len_atom(e):
    """canonical polynomial of len(e)"""
    while True:
        if isinstance(e, ast.Call) and au.call_tail(e) in ("list", "tuple", "reversed", "sorted", "iter") and isinstance(e.func, ast.Name) and len(e.args) == 1 and not e.keywords:
            e = e.args[0]
        elif isinstance(e, ast.Call) and isinstance(e.func, ast.Name) and e.func.id == "enumerate" and e.args:
            e = e.args[0]
        elif isinstance(e, ast.Attribute) and e.attr in ("_data", "_elem", "_adj") and not au.is_self_attr(e):
            e = e.value
        else:
            break
    if isinstance(e, (ast.List, ast.Tuple)) and not any(isinstance(x, ast.Starred) for x in e.elts):
        return P.const(len(e.elts))
    if isinstance(e, (ast.ListComp, ast.GeneratorExp)) and len(e.generators) == 1 and not e.generators[0].ifs:
        return _len_atom(e.generators[0].iter)
    if isinstance(e, ast.BinOp) and isinstance(e.op, ast.Add):
        return _len_atom(e.left) + _len_atom(e.right)
    if isinstance(e, ast.Call) and isinstance(e.func, ast.Name) and e.func.id == "__repeat__" and len(e.args) == 2 and isinstance(e.args[0], ast.List) \
            and isinstance(e.args[1], ast.Call) and au.call_tail(e.args[1]) == "len" and e.args[1].args:
        return _len_atom(e.args[1].args[0]) * len(e.args[0].elts)     # items appended by a loop: k per element of the iterable
    if isinstance(e, ast.Subscript) and isinstance(e.value, ast.Call) and au.call_tail(e.value) == "zip" and len(e.value.args) == 1 \
            and isinstance(e.value.args[0], ast.Starred) and isinstance(au.const(e.slice), int):
        return _len_atom(e.value.args[0].value)          # one column of zip(*pairs) has one item per pair
    return P.atom(f"len({src(e)})")


def _understood(poly):
    """all atoms are lengths of a parameter (or of a plain path under it)"""
    import re
    return all(re.fullmatch(r"len\((?!self\b)[A-Za-z_][\w\.]*\)", a) for a in poly.atoms())


def _count_poly(e, conds, repo, where):
    """polynomial of an `_expand` argument: integer literals, len(x), x.size / x.__len__() of a container, sums and products"""
    def atom_of(n):
        if isinstance(n, ast.Call) and au.call_tail(n) == "len" and isinstance(n.func, ast.Name) and len(n.args) == 1:
            return _len_atom(n.args[0])
        if isinstance(n, ast.Attribute) and not au.is_self_attr(n) and isinstance(n.value, ast.Name):
            narrowed = None
            for t, pol in conds:
                if pol and isinstance(t, ast.Call) and au.call_tail(t) == "isinstance" and len(t.args) == 2 \
                        and isinstance(t.args[0], ast.Name) and t.args[0].id == n.value.id and isinstance(t.args[1], ast.Name):
                    narrowed = t.args[1].id
            if narrowed in ("DataContainer", "CornerDataContainer"):
                if n.attr not in _class_members(repo, DC, narrowed):
                    raise _GFail(f"{where}: `_expand({src(e)})` - {narrowed} has no member `{n.attr}`",
                                 f"`c1 += c2` raises AttributeError as soon as c1 carries an attribute: neither container class "
                                 f"defines `{n.attr}` (its size is len(c2))")
                if n.attr == "size":
                    return _len_atom(n.value)
            return None
        return None
    return sym.to_poly(e, atom_of=atom_of)


def _is_attr_iter(it):
    """`self._attr.values()` / `.items()` / `self._attr` (keys): returns the kind"""
    if isinstance(it, ast.Call) and isinstance(it.func, ast.Attribute) and au.is_self_attr(it.func.value, "_attr") and not it.args:
        return it.func.attr if it.func.attr in ("values", "items", "keys") else None
    if isinstance(it, ast.Call) and au.call_tail(it) in ("list", "tuple", "iter") and len(it.args) == 1:
        return _is_attr_iter(it.args[0])
    if au.is_self_attr(it, "_attr"):
        return "keys"
    return None


def _attr_loop_expand(loop, kind, outer_conds, repo, where):
    """polynomial by which ONE pass of `for attr in self._attr...` expands every attribute"""
    tgt = loop.target
    if kind == "values" and isinstance(tgt, ast.Name):
        is_recv = lambda r: isinstance(r, ast.Name) and r.id == tgt.id
        var = tgt.id
    elif kind == "items" and isinstance(tgt, ast.Tuple) and len(tgt.elts) == 2 and isinstance(tgt.elts[1], ast.Name):
        var = tgt.elts[1].id
        is_recv = lambda r: isinstance(r, ast.Name) and r.id == var
    elif kind == "keys" and isinstance(tgt, ast.Name):
        var = tgt.id
        is_recv = lambda r: isinstance(r, ast.Subscript) and au.is_self_attr(r.value, "_attr") and isinstance(r.slice, ast.Name) and r.slice.id == var
    else:
        raise _GUndecided("loop over the attributes with an unexpected target")
    per_path = []
    for b in loop.body:
        tot = P.const(0)
        for ev, conds, loops in walk_events(b):
            if ev.kind == "call" and au.call_tail(ev.a) == "_expand" and isinstance(ev.a.func, ast.Attribute) and is_recv(ev.a.func.value):
                if loops:
                    raise _GUndecided("_expand called in a nested loop")
                if len(ev.a.args) != 1 or ev.a.keywords:
                    raise _GUndecided("_expand called with an unexpected signature")
                tot = tot + _count_poly(ev.a.args[0], list(outer_conds) + conds, repo, where)
        if b.end in ("return", "raise", "break"):
            raise _GUndecided("the loop over the attributes can be left early")
        per_path.append((b, tot))
    polys = {repr(t): t for _, t in per_path}
    if len(polys) == 1:
        return per_path[0][1]
    # some attributes are expanded, some are not: benign only when the ones left out are the sparse ones (their _expand does nothing)
    full = [t for _, t in per_path if not t.is_zero()]
    if len({repr(t) for t in full}) != 1:
        raise _GUndecided("attributes are expanded by different amounts on different paths")
    for b, t in per_path:
        if not t.is_zero():
            continue
        dense_only = any(isinstance(c, ast.Call) and au.call_tail(c) == "isinstance" and len(c.args) == 2 and _has_name(c.args[0], var)
                         and ((src(c.args[1]).endswith("ArrayAttribute") and not pol) or (src(c.args[1]).split(".")[-1] == "Attribute" and pol))
                         for c, pol in b.conds)
        if dense_only:
            continue
        about_attr = [au.canon_test(sym.subst(c, {var: ast.Name(id="attr", ctx=ast.Load())}), pol) for c, pol in b.conds if _has_name(c, var)]
        if about_attr:
            raise _GFail(f"{where}: attributes for which `{' and '.join(about_attr)}` are not expanded when the container grows",
                         "dense attributes would be shorter than their container after the append (a dense attribute of an empty container "
                         "has length 0 and is skipped for ever): every index is then reported out of bounds")
        raise _GUndecided("the expansion of the attributes is conditional")
    return full[0]


def _grow_expand(p, storage, repo, where, outer=()):
    """(elements appended to self.<storage>, expansion applied to every attribute, an attribute loop was seen) along one path"""
    grow, exp, seen = P.const(0), P.const(0), False
    for ev in p.events:
        conds = list(outer) + p.conds[:ev.nconds]
        if ev.kind == "call" and isinstance(ev.a.func, ast.Attribute) and au.is_self_attr(ev.a.func.value, storage):
            t = ev.a.func.attr
            if t in ("append", "insert"):
                grow = grow + 1
            elif t == "extend" and len(ev.a.args) == 1:
                grow = grow + _len_atom(ev.a.args[0])
            elif t == "clear" and not ev.a.args:
                return None                                  # the storage is emptied in place: not a growth path
            elif t in ("pop", "remove"):
                raise _GUndecided(f"elements are removed from self.{storage}")
        elif ev.kind == "aug" and au.is_self_attr(ev.a, storage):
            if not isinstance(ev.c, ast.Add):
                raise _GUndecided(f"self.{storage} is updated with {type(ev.c).__name__}")
            grow = grow + _len_atom(ev.b)
        elif ev.kind == "store" and au.is_self_attr(ev.a, storage):
            v = ev.b
            if isinstance(v, ast.BinOp) and isinstance(v.op, ast.Add) and au.is_self_attr(v.left, storage):
                grow = grow + _len_atom(v.right)
            else:
                return None                                  # the storage is replaced (clear / reset): not a growth path
        elif ev.kind == "loop":
            kind = _is_attr_iter(ev.a)
            if kind:
                seen = True
                exp = exp + _attr_loop_expand(ev.c, kind, conds, repo, where)
                continue
            per = set()
            res = None
            for b in ev.c.body:
                r = _grow_expand(b, storage, repo, where, conds)
                if r is None:
                    raise _GUndecided("the storage is replaced inside a loop")
                if b.end in ("return", "raise", "break") and not (r[0].is_zero() and r[1].is_zero()):
                    raise _GUndecided("a loop that appends elements can be left early")
                per.add((repr(r[0]), repr(r[1])))
                res = r
                seen = seen or r[2]
            if len(per) > 1:
                raise _GUndecided("the iterations of a loop append different numbers of elements")
            if res is not None and not (res[0].is_zero() and res[1].is_zero()):
                if not isinstance(ev.c.node, ast.For):
                    raise _GUndecided("elements are appended in a while loop")
                n = _len_atom(ev.a)
                grow, exp = grow + n * res[0], exp + n * res[1]
        elif ev.kind == "call" and au.call_tail(ev.a) == "_expand":
            raise _GUndecided("_expand is called outside a loop over all the attributes")
    return grow, exp, seen


def g1_growth(ctx):
    repo = ctx.repo
    for clsname in ("DataContainer", "CornerDataContainer"):
        cls = repo.cls(DC, clsname)
        csite = ctx.site(DC, clsname)
        # the storage whose length is the size of the container
        storage = None
        got = repo.methods(repo.module(DC), cls).get("__len__")
        if got is not None:
            try:
                for p in SX(repo, DC, clsname, keep_props=()).run(got[1]):
                    r = p.ret
                    if p.end == "return" and isinstance(r, ast.Call) and au.call_tail(r) == "len" and r.args and au.is_self_attr(r.args[0]):
                        storage = r.args[0].attr
            except (TooComplex, RecursionError):
                pass
        if storage is None:
            ctx.undecided("C05-G1", csite, f"{clsname}: the list whose length is the size of the container was not identified (__len__)")
            continue
        n_sites = 0
        inherited = [(m, f) for nm, (m, f, owner) in sorted(repo.methods(repo.module(DC), cls).items())
                     if owner is not cls and not any(src(d) == "abstractmethod" for d in f.decorator_list) and m.name.endswith(DC)]
        for fmod, fn in [(repo.module(DC), st) for st in cls.body if isinstance(st, ast.FunctionDef)] + inherited:
            if fn.name == "__init__" or (fn.name.startswith("_") and not fn.name.startswith("__")):
                continue          # a private helper is read through the public methods that call it (it may leave the expansion to them)
            where = f"{clsname}.{fn.name}"
            site = ctx.site(DC, fn)
            try:
                ps = SX(repo, DC, clsname, keep_props=()).run(fn)
            except (TooComplex, RecursionError) as e:
                if any(au.is_self_attr(n, storage) for n in au.walk(fn)):
                    ctx.undecided("C05-G1", site, f"{where}: too many paths to read", str(e))
                continue
            verdicts = []
            for p in ps:
                if p.end == "raise":
                    continue
                try:
                    r = _grow_expand(p, storage, repo, where)
                except _GFail as f:
                    verdicts.append(("fail", f.construct, f.what))
                    continue
                except _GUndecided as u:
                    verdicts.append(("und", str(u), ""))
                    continue
                if r is None:
                    # the element storage is replaced: when it is emptied the attributes must go with it (or be emptied too)
                    emptied = any(ev.kind == "store" and au.is_self_attr(ev.a, storage) and
                                  (isinstance(ev.b, (ast.List, ast.Tuple)) and not ev.b.elts or src(ev.b) in ("list()", "[]")) for ev in p.events) or \
                        any(ev.kind == "call" and isinstance(ev.a.func, ast.Attribute) and ev.a.func.attr == "clear" and au.is_self_attr(ev.a.func.value, storage)
                            for ev in p.events)
                    if emptied:
                        attr_reset = any((ev.kind == "store" and au.is_self_attr(ev.a, "_attr") and (isinstance(ev.b, ast.Dict) and not ev.b.keys or src(ev.b) in ("dict()", "{}")))
                                         or (ev.kind == "call" and isinstance(ev.a.func, ast.Attribute) and ev.a.func.attr == "clear" and au.is_self_attr(ev.a.func.value, "_attr"))
                                         for ev in p.events)
                        attr_other = any(ev.kind in ("store", "aug") and au.is_self_attr(ev.a, "_attr") for ev in p.events)
                        resized = any(ev.kind in ("call", "store", "aug", "other") and lps and not (ev.kind == "call" and au.call_tail(ev.a) == "clear")
                                      for ev, _, lps in walk_events(p))      # the attributes are visited and something else than clear() is done to them
                        if attr_reset:
                            verdicts.append(("ok", "container emptied together with its attributes", ""))
                        elif attr_other or resized or p.notes:
                            verdicts.append(("und", f"{where}: the container is emptied and its attributes are handled in a way that is not read", ""))
                        else:
                            verdicts.append(("fail", f"{where}: the container is emptied but keeps its attributes, whose size is not reset",
                                             "a dense attribute keeps n_elem rows after the container was cleared: indices beyond the new size are accepted, "
                                             "the export has more rows than the container"))
                    continue
                grow, exp, seen = r
                if grow.is_zero() and exp.is_zero():
                    continue
                # an expansion spelled in a way that is not read (comprehension, map, helper outside the class ...)
                unread = [ev for ev, _, lps in walk_events(p) if ev.kind in ("call", "other", "store", "aug") and not lps and not
                          (ev.kind == "call" and isinstance(ev.a.func, ast.Attribute) and au.is_self_attr(ev.a.func.value))
                          and any(isinstance(n, ast.Attribute) and (n.attr == "_expand" or au.is_self_attr(n, "_attr")) for e in hd_sx.exprs_of(ev) for n in ast.walk(e))]
                if unread and grow != exp:
                    verdicts.append(("und", f"{where}: the attributes are handled by `{src(unread[0].a)[:60]}`, which is not read", ""))
                    continue
                if p.notes:
                    verdicts.append(("und", "; ".join(p.notes), ""))
                    continue
                if grow == exp:
                    verdicts.append(("ok", f"append of {grow} / expand {exp}", ""))
                elif not seen and exp.is_zero() and any((src(t) in ("self._attr", "len(self._attr)", "self._attr.keys()", "self._attr.values()") and not pol) or
                                                        (src(t).replace(" ", "") in ("len(self._attr)==0", "self._attr=={}") and pol) for t, pol in p.conds):
                    verdicts.append(("ok", "no attribute to expand on this path", ""))
                elif not seen and exp.is_zero() and any(_has_name(t, "self") for t, _ in p.conds):
                    verdicts.append(("und", f"{where}: the attributes are not expanded on a path that depends on the state of the container "
                                            f"({' and '.join(au.canon_test(t, pol) for t, pol in p.conds if _has_name(t, 'self'))})", ""))
                elif not seen and exp.is_zero():
                    verdicts.append(("fail", f"{where}: element storage grows by {grow} without `attr._expand(...)` for every attribute",
                                     "dense attributes would be shorter than their container after the append"))
                elif _understood(grow) and _understood(exp):
                    verdicts.append(("fail", f"{where}: attributes are expanded by {exp} while {grow} element(s) are appended",
                                     "every attribute must stay aligned with its container after an append"))
                else:
                    verdicts.append(("und", f"{where}: appended {grow}, expanded {exp} - the two counts cannot be compared", ""))
            if not verdicts:
                continue
            n_sites += 1
            fails = [v for v in verdicts if v[0] == "fail"]
            unds = [v for v in verdicts if v[0] == "und"]
            seen_c = set()
            for _, c, w in fails:
                if c not in seen_c:
                    seen_c.add(c)
                    ctx.fail("C05-G1", site, c, w)
            if not fails and unds:
                ctx.undecided("C05-G1", site, f"{where}: growth of the container could not be matched with the expansion of its attributes",
                              "; ".join(sorted({c for _, c, _ in unds})))
            if not fails and not unds:
                ctx.ok("C05-G1", site, f"{where}: " + "; ".join(sorted({c for _, c, _ in verdicts})))
        if n_sites == 0:
            ctx.undecided("C05-G1", csite, f"{clsname}: no method that appends to self.{storage} was recognised")


# ---------------------------------------------------------------------------- A1
def _unview(v):
    """strip the operations that give a view of the same array: x[:], x[...], x.view(), np.asarray(x), Vec(x), x.reshape(..), x.T"""
    while True:
        if isinstance(v, ast.Subscript) and (isinstance(v.slice, ast.Slice) and v.slice.lower is None and v.slice.upper is None and v.slice.step is None
                                             or isinstance(v.slice, ast.Constant) and v.slice.value is Ellipsis):
            v = v.value
        elif isinstance(v, ast.Call) and isinstance(v.func, ast.Attribute) and v.func.attr in ("view", "reshape", "ravel", "squeeze", "transpose") \
                and src(v.func.value) not in ("np", "numpy"):
            v = v.func.value
        elif isinstance(v, ast.Call) and au.call_tail(v) in ("asarray", "asanyarray", "Vec") and len(v.args) == 1 and not v.keywords:
            v = v.args[0]
        elif isinstance(v, ast.Attribute) and v.attr == "T":
            v = v.value
        else:
            return v


def _is_copy_of_default(v):
    """copy-making call applied to the default"""
    if isinstance(v, ast.Call):
        t = au.call_tail(v)
        if isinstance(v.func, ast.Attribute) and t in ("copy", "astype") and is_default(v.func.value):
            return True
        if t in ("copy", "deepcopy", "array") and v.args and is_default(v.args[0]):
            return True
        if t == "Vec" and len(v.args) == 1 and isinstance(v.args[0], ast.Call) and au.call_tail(v.args[0]) in ("list", "array", "copy") \
                and v.args[0].args and is_default(v.args[0].args[0]):
            return True
        if t in ("copy", "array", "deepcopy") and v.args and _is_copy_of_default(v.args[0]):
            return True
        if isinstance(v.func, ast.Attribute) and t == "copy" and _is_copy_of_default(v.func.value):
            return True
    return False


def a1_default_alias(ctx):
    fn, site, ps = _paths(ctx, "C05-A1", MA, "Attribute.__getitem__")
    if ps is None:
        return
    params = au.params(fn, skip_self=True)
    if not params:
        ctx.undecided("C05-A1", site, "Attribute.__getitem__ has no key parameter")
        return
    key = params[0]

    def membership(t):
        return isinstance(t, ast.Compare) and len(t.ops) == 1 and isinstance(t.ops[0], (ast.In, ast.NotIn)) \
            and src(t.left) == key and src(t.comparators[0]) in ("self._data", "self._data.keys()")

    def lookup(e):
        """self._data.get(key[, sentinel]) -> the sentinel source ('None' without one), else None"""
        if isinstance(e, ast.Call) and isinstance(e.func, ast.Attribute) and e.func.attr == "get" and au.is_self_attr(e.func.value, "_data") \
                and e.args and src(e.args[0]) == key and not e.keywords and len(e.args) <= 2:
            return src(e.args[1]) if len(e.args) == 2 else "None"
        return None

    def sentinel_test(t):
        """`self._data.get(key, S) is not S`: True when the comparison being TRUE means the key is present, False for the converse, None otherwise"""
        if isinstance(t, ast.Compare) and len(t.ops) == 1 and isinstance(t.ops[0], (ast.Is, ast.IsNot)):
            for a, b in ((t.left, t.comparators[0]), (t.comparators[0], t.left)):
                sn = lookup(a)
                if sn is not None and src(b) == sn and not any(is_default(x) for x in ast.walk(b)):
                    return isinstance(t.ops[0], ast.IsNot)
        return None

    def symf(node):
        if au.is_self_attr(node, "elemsize"):
            return "e"
        if isinstance(node, ast.Call) and au.call_tail(node) == "isinstance" and len(node.args) == 2 and is_default(node.args[0]) \
                and src(node.args[1]).split(".")[-1] in ("ndarray", "Vec"):
            return "arr"
        if isinstance(node, ast.Call) and au.call_tail(node) in ("isscalar",) and node.args and is_default(node.args[0]):
            raise order.Unsupported("isscalar")
        raise order.Unsupported(src(node))
    n_default = n_present = 0
    und = []
    for p in ps:
        # np.isscalar(default) is read as `not isinstance(default, np.ndarray)`
        p.conds = [(ast.parse("isinstance(self.default_value, np.ndarray)", mode="eval").body, not pol)
                   if isinstance(t, ast.Call) and au.call_tail(t) == "isscalar" and len(t.args) == 1 and is_default(t.args[0]) else (t, pol) for t, pol in p.conds]
        present = None
        for t, pol in p.conds:
            if membership(t):
                present = pol if isinstance(t.ops[0], ast.In) else not pol
            if sentinel_test(t) is not None:
                present = pol if sentinel_test(t) else not pol
            if isinstance(t, ast.Call) and src(t.func) == "__except__":
                present = False
        if p.end != "return" or p.ret is None:
            if present is False:
                ctx.fail("C05-A1", site, f"Attribute.__getitem__ {'raises ' + str(_exc_name(p)) if p.end == 'raise' else 'returns nothing'} for an absent key",
                         "an attribute must be a total map: an absent key reads the default")
                return
            continue
        v = p.ret
        stored = isinstance(v, ast.Subscript) and au.is_self_attr(v.value, "_data") and src(v.slice) == key
        stored = stored or (present is True and lookup(v) is not None and not any(is_default(x) for x in ast.walk(v)))
        getcall = isinstance(v, ast.Call) and isinstance(v.func, ast.Attribute) and v.func.attr == "get" and au.is_self_attr(v.func.value, "_data") \
            and v.args and src(v.args[0]) == key
        if present is True or (present is None and stored):
            n_present += 1
            if stored:
                ctx.ok("C05-A1", site, "a present key reads its stored value")
            elif any(is_default(x) for x in ast.walk(v)):
                ctx.fail("C05-A1", site, "Attribute.__getitem__ returns the default instead of the stored value of a present key",
                         "an attribute answers the last value written at an index")
            else:
                und.append(f"a present key reads `{src(v)}`")
            continue
        # absent key (or no membership test on the path)
        bare = is_default(_unview(v)) or (getcall and len(v.args) == 2 and is_default(_unview(v.args[1])))
        if getcall:
            n_present += 1
        if bare:
            n_default += 1
            pred = order.Pred(symf)
            usable = []
            for t, pol in p.conds:
                try:
                    order.Pred(symf).collect(t)
                    pred.collect(t)
                    usable.append((t, pol))
                except order.Unsupported:
                    pass  # a condition outside the domain is dropped: weaker path condition, alarm only if the rest does not exclude the bad case
            dropped = [au.canon_test(t, pol) for t, pol in p.conds if (t, pol) not in usable and not membership(t) and sentinel_test(t) is None
                       and (any(is_default(x) for x in ast.walk(t)) or "elemsize" in src(t))]
            if dropped:
                und.append(f"the default is returned un-copied under a condition that is not understood: {' and '.join(dropped)}")
                continue
            pred.symbols.update({"e", "?arr"})
            pred.consts.add(1)
            witness = None
            for env in order.envs(pred.symbols, pred.consts):
                if env["e"] < 1 or env["e"] != int(env["e"]):
                    continue
                if all(bool(pred.eval(t, env)) == pol for t, pol in usable) and not (env["e"] == 1 or not env["?arr"]):
                    witness = env
                    break
            ctx.check(witness is None, "C05-A1", site,
                      "Attribute.__getitem__ hands out the stored default object for every absent key, vector defaults included",
                      "for elemsize > 1 the default is one shared Vec: `attr[i] += v` on an absent i mutates it, and every other absent "
                      f"key then reads the changed value (un-copied return reachable with elemsize={witness and witness['e']}, default an array)",
                      note="default returned un-copied only when it cannot be a mutable array")
        elif _is_copy_of_default(v):
            n_default += 1
            ctx.ok("C05-A1", site, "default handed out through a copy")
        elif present is False and not any(is_default(x) for x in ast.walk(v)) and not _has_name(v, "self"):
            ctx.fail("C05-A1", site, f"Attribute.__getitem__ returns `{src(v)}` instead of the default for an absent key",
                     "an attribute must be a total map: an absent key reads the default")
            return
        else:
            und.append(f"returns `{src(v)}`")
    if und or n_default == 0 or n_present == 0:
        ctx.undecided("C05-A1", site, "Attribute.__getitem__: the lookup is not `stored value if the key is present else (a copy of) the default`",
                      "; ".join(und) or f"{n_present} present-key path(s), {n_default} default path(s) recognised")


# ---------------------------------------------------------------------------- A2
def a2_stored_value_fresh(ctx):
    from ..rules import alias
    fr = alias.Freshness(ctx.repo)
    fn, site, ps = _paths(ctx, "C05-A2", MA, "Attribute.__setitem__")
    if ps is None:
        return
    params = au.params(fn, skip_self=True)
    if len(params) < 2:
        ctx.undecided("C05-A2", site, "Attribute.__setitem__ has no (key, value) parameters")
        return
    val = params[1]
    n = 0
    und = []
    seen = set()
    for p in ps:
        if p.end == "raise":
            continue
        for ev, conds, loops in walk_events(p):
            if ev.kind == "aug" and isinstance(ev.a, ast.Subscript) and au.is_self_attr(ev.a.value, "_data"):
                und.append("in-place update of a stored entry")
            if not (ev.kind == "store" and isinstance(ev.a, ast.Subscript) and au.is_self_attr(ev.a.value, "_data")):
                continue
            # only a vector entry can be a mutable object (scalars are immutable python values)
            vec = _elemsize_ok(conds, lambda e: e > 1)
            if vec is False:
                continue
            n += 1
            v = ev.b
            if vec is None:
                if fr.aliases(v) & {val} or not fr.is_fresh(v):
                    und.append("a value is stored under a condition on the element size that is not understood")
                continue
            shares = fr.aliases(v) & {val}
            k = src(v)
            # on a path where the value is known not to be an array, Vec(value) / np.asarray(value) allocate
            not_array = any(isinstance(t, ast.Call) and au.call_tail(t) == "isinstance" and len(t.args) == 2 and src(t.args[0]) == val and
                            ((src(t.args[1]).split(".")[-1] in ("ndarray", "Vec") and not pol) or (src(t.args[1]) in ("list", "tuple") and pol)) for t, pol in conds)
            if shares and not_array and isinstance(v, ast.Call):
                ctx.ok("C05-A2", ctx.site(MA, fn, ev.node), "value is not an array on this path: the conversion allocates")
            elif shares:
                if k not in seen:
                    seen.add(k)
                    ctx.fail("C05-A2", ctx.site(MA, fn, ev.node), f"sparse __setitem__ stores `{k}`, which may share storage with the value passed by the caller",
                             "Vec(x) / np.asarray(x) of an array are views: writing the same array at two indices (or attr[j] = attr[i]) and "
                             "then updating one entry in place changes the other; the dense storage copies, so sparse and dense disagree")
            elif fr.is_fresh(v):
                ctx.ok("C05-A2", ctx.site(MA, fn, ev.node), "stored vector rebuilt from the components of the value")
            else:
                und.append(f"stores `{k}`")
    if und:
        ctx.undecided("C05-A2", site, "sparse __setitem__: cannot tell whether the stored vector is a fresh object", "; ".join(sorted(set(und))))
    elif n == 0:
        ctx.undecided("C05-A2", site, "sparse __setitem__: no path storing a vector value into self._data was recognised")


# ---------------------------------------------------------------------------- S1
def _rename(e, mapping):
    return sym.subst(e, {k: ast.Name(id=v, ctx=ast.Load()) for k, v in mapping.items()})


class _Unlist(ast.NodeTransformer):
    """len(list(x)) -> len(x), list(x)[k] -> x[k]  (the same numbers)"""
    def visit_Call(self, n):
        self.generic_visit(n)
        if isinstance(n.func, ast.Name) and n.func.id == "len" and len(n.args) == 1 and isinstance(n.args[0], ast.Call) \
                and isinstance(n.args[0].func, ast.Name) and n.args[0].func.id in ("list", "tuple") and len(n.args[0].args) == 1:
            n.args = [n.args[0].args[0]]
        return n

    def visit_Subscript(self, n):
        self.generic_visit(n)
        if isinstance(n.value, ast.Call) and isinstance(n.value.func, ast.Name) and n.value.func.id in ("list", "tuple") and len(n.value.args) == 1 \
                and not isinstance(n.slice, ast.Slice):
            n.value = n.value.args[0]
        return n


def _unlist(e):
    return _Unlist().visit(hd_sx.clone(e))


def _symbols(conds_list):
    out = set()
    for conds in conds_list:
        for t, _ in conds:
            if isinstance(t, ast.Compare):
                out.update(src(x) for x in [t.left] + list(t.comparators) if not isinstance(x, ast.Constant))
            else:
                out.add(src(t))
    return out


def _content(e):
    """the numbers a stored expression holds, container / dtype conversions stripped: Vec(list(x)), np.array(x), np.asarray(x, dtype=..) -> x"""
    while isinstance(e, ast.Call) and au.call_tail(e) in ("Vec", "array", "asarray", "list", "tuple", "copy", "astype") and (e.args or isinstance(e.func, ast.Attribute)):
        if e.args and au.call_tail(e) != "astype" and not (au.call_tail(e) == "copy" and isinstance(e.func, ast.Attribute) and src(e.func.value) not in ("np", "numpy")):
            if len(e.args) > 1 and au.call_tail(e) == "Vec":
                break
            e = e.args[0]
        elif isinstance(e.func, ast.Attribute) and src(e.func.value) not in ("np", "numpy"):
            e = e.func.value
        else:
            break
    return e


def _setter_summary(fn, ps):
    """[(conditions, outcome, path)] with parameters renamed KEY / VALUE and the bounds test taken out"""
    params = au.params(fn, skip_self=True)
    ren = {params[0]: "KEY", params[1]: "VALUE"}
    out = []
    for p in ps:
        exc = _exc_name(p) if p.end == "raise" else None
        if exc and exc.endswith("OutOfBoundsError"):
            continue
        conds = []
        for t, pol in p.conds:
            t = _unlist(_rename(t, ren))
            if _has_name(t, "KEY"):
                continue
            conds.append((t, pol))
        stores = [(src(_rename(ev.a.slice, ren)), src(_content(_rename(ev.b, ren)))) for ev, _, _ in walk_events(p)
                  if ev.kind == "store" and isinstance(ev.a, ast.Subscript) and au.is_self_attr(ev.a.value, "_data")]
        if p.end == "raise":
            outcome = ("reject", exc)
        elif stores:
            outcome = ("store",) + stores[-1]
        else:
            outcome = ("nothing",)
        out.append((conds, outcome, p))
    return out


def s1_siblings(ctx):
    repo = ctx.repo
    fa, site_a, pa = _paths(ctx, "C05-S1", MA, "Attribute.__setitem__")
    fd, site_d, pd = _paths(ctx, "C05-S1", MA, "ArrayAttribute.__setitem__")
    if pa is None or pd is None:
        return
    if len(au.params(fa, skip_self=True)) < 2 or len(au.params(fd, skip_self=True)) < 2:
        ctx.undecided("C05-S1", site_d, "__setitem__ without (key, value) parameters")
        return
    sa, sd = _setter_summary(fa, pa), _setter_summary(fd, pd)
    atoms = [t for conds, _, _ in sa + sd for t, _ in conds]
    try:
        tab = hd_tt.Table(atoms, env_ok=lambda env: env.get("self.elemsize", 1) >= 1 and env.get("self.elemsize", 1) == int(env.get("self.elemsize", 1)))
        diff = None
        n = 0
        for asg in tab.assignments():
            n += 1
            ra = [o for c, o, _ in sa if tab.consistent(c, asg)]
            rd = [o for c, o, _ in sd if tab.consistent(c, asg)]
            if len(ra) != 1 or len(rd) != 1:
                raise hd_tt.TooBig(f"{len(ra)} sparse / {len(rd)} dense paths for one assignment")
            if (ra[0][0] == "reject") != (rd[0][0] == "reject"):
                diff = ("accept", asg, ra[0], rd[0])
                break
            if ra[0][0] == "store" and rd[0][0] == "store" and ra[0] != rd[0] and diff is None:
                diff = ("value", asg, ra[0], rd[0])
    except (hd_tt.TooBig, order.Unsupported) as e:
        ctx.undecided("C05-S1", site_d, "sparse and dense __setitem__: their decisions cannot be tabulated", str(e))
        diff = "skip"
    if diff is None:
        ctx.ok("C05-S1", site_d, f"sparse and dense __setitem__ agree on {n} truth assignments of {len(tab.atoms)} conditions")
    elif diff != "skip" and diff[0] == "accept" and _symbols([c for c, _, _ in sa]) != _symbols([c for c, _, _ in sd]):
        ctx.undecided("C05-S1", site_d, "sparse and dense __setitem__ test different quantities: their decisions cannot be compared",
                      f"only sparse: {sorted(_symbols([c for c, _, _ in sa]) - _symbols([c for c, _, _ in sd]))}; "
                      f"only dense: {sorted(_symbols([c for c, _, _ in sd]) - _symbols([c for c, _, _ in sa]))}")
    elif diff != "skip" and diff[0] == "accept":
        _, asg, oa, od = diff

        def show(o):
            return f"rejects with {o[1]}" if o[0] == "reject" else ("stores the value" if o[0] == "store" else "does nothing")
        ctx.fail("C05-S1", site_d, "sparse and dense __setitem__ do not accept and reject the same values",
                 f"when {hd_tt.describe(asg)}: sparse {show(oa)}, dense {show(od)} - both storages must accept and reject "
                 f"the same values (bool->int->float widening only, exact arity)")
    elif diff != "skip":
        _, asg, oa, od = diff
        ctx.undecided("C05-S1", site_d, "sparse and dense __setitem__ store differently spelled values for the same input",
                      f"sparse `{oa[2]}` / dense `{od[2]}`")
    # absolute clauses on every accepting path of both setters
    for fn, site, summ in ((fa, site_a, sa), (fd, site_d, sd)):
        verdict = {}
        for conds, outcome, p in summ:
            if outcome[0] == "reject":
                continue
            # every path on which the write is accepted - the value is stored, or the method returns normally some other way (entry
            # removed because the value equals the default ...) - must have passed the tests
            how = "stored" if outcome[0] == "store" else "accepted (the method returns without storing it)"
            opaque = any(isinstance(n, ast.Call) and au.call_tail(n) not in ("_can_be_casted", "isinstance", "len", "list", "tuple", "type", "Type", "hasattr")
                         for t, _ in conds for n in ast.walk(t))
            vname = au.params(fn, skip_self=True)[1]
            # a call inside the stored value that is not a plain conversion may validate (and raise): the path is not fully read
            opaque = opaque or any(ev.kind == "store" and any(isinstance(n, ast.Call) and au.call_tail(n) not in ("Vec", "list", "tuple", "array", "asarray", "copy", "astype")
                                                              and _has_name(n, vname) for n in ast.walk(ev.b)) for ev, _, _ in walk_events(p))
            opaque = opaque or any(ev.kind in ("call", "assert", "other") and isinstance(ev.a, ast.AST) and _has_name(ev.a, vname) for ev, _, _ in walk_events(p)
                                   if not (ev.kind == "call" and au.call_tail(ev.a) == "_check_out_of_bounds"))
            # cast test: _can_be_casted(<type of the value>, self.type) holds
            casts = [(t, pol) for t, pol in conds if isinstance(t, ast.Call) and au.call_tail(t) == "_can_be_casted"]
            same_type = [(t, pol) for t, pol in conds if isinstance(t, ast.Compare) and len(t.ops) == 1 and isinstance(t.ops[0], (ast.Eq, ast.NotEq))
                         and "self.type" in (src(t.left), src(t.comparators[0])) and _has_name(t, "VALUE")]
            ok_cast = None
            for t, pol in casts:
                args = _cast_args(repo, t)
                if args is None:
                    continue
                a, b = args
                if au.is_self_attr(b, "type") and _has_name(a, "VALUE"):
                    ok_cast = pol if ok_cast is None else ok_cast
                    if pol:
                        ok_cast = True
                elif au.is_self_attr(a, "type") and _has_name(b, "VALUE"):
                    verdict["swapped"] = ("fail", f"{fn.name}: the cast test is _can_be_casted(attribute type, value type)",
                                          "widening is only allowed from the value's type to the attribute's type: the swapped test accepts float -> int narrowing")
            if ok_cast is not True and not any(pol == isinstance(t.ops[0], ast.Eq) for t, pol in same_type):
                if casts or same_type or opaque:
                    verdict.setdefault("cast", ("und", f"{fn.name}: a value is stored on a path where the cast test was not recognised", ""))
                else:
                    extra = [au.canon_test(t, pol) for t, pol in conds if "elemsize" not in src(t)]
                    verdict["cast"] = ("fail", f"{fn.name}: a value is {how} without any test of its type against the attribute's type"
                                       + (f" when {' and '.join(extra)}" if extra and outcome[0] != "store" else ""),
                                       "only bool->int->float widening is allowed, and sparse and dense storage must reject the same values: a test that "
                                       "compares values (==) crosses types (0 == False == 0.0 == 0j)")
            # exact arity for vectors
            vecp = _elemsize_ok(conds, lambda e: e > 1) if outcome[0] == "store" else False
            if vecp is None:
                verdict.setdefault("arity", ("und", f"{fn.name}: a value is stored under a condition on the element size that is not understood", ""))
            if vecp:
                ar = []
                for t, pol in conds:
                    if isinstance(t, ast.Compare) and len(t.ops) == 1 and type(t.ops[0]) in order.CMP:
                        sides = [t.left, t.comparators[0]]
                        if any(au.is_self_attr(x, "elemsize") for x in sides) and any(_has_name(x, "VALUE") for x in sides):
                            ar.append((t, pol))
                if not ar:
                    mixed = any(_has_name(t, "VALUE") and "elemsize" in src(t) and not (isinstance(t, ast.Call) and au.call_tail(t) == "_can_be_casted") for t, _ in conds)
                    if opaque or mixed:
                        verdict.setdefault("arity", ("und", f"{fn.name}: a vector is stored on a path where the arity test was not recognised", ""))
                    else:
                        verdict["arity"] = ("fail", f"{fn.name}: a vector is stored without comparing its number of components with elemsize",
                                            "a vector attribute accepts exactly elemsize components")
                else:
                    def s(node):
                        return "e" if au.is_self_attr(node, "elemsize") else ("L" if _has_name(node, "VALUE") else (_ for _ in ()).throw(order.Unsupported(src(node))))
                    try:
                        pred = order.Pred(s)
                        for t, _ in ar:
                            pred.collect(t)
                        w = None
                        for env in order.envs(pred.symbols, pred.consts):
                            if all(bool(pred.eval(t, env)) == pol for t, pol in ar) and env["L"] != env["e"]:
                                w = env
                                break
                        if w is not None:
                            verdict["arity"] = ("fail", f"{fn.name}: a vector whose number of components differs from elemsize is accepted",
                                                f"e.g. {w['L']} components for elemsize {w['e']}: the arity must be exact")
                    except order.Unsupported as e:
                        verdict.setdefault("arity", ("und", f"{fn.name}: arity test not understood", str(e)))
        if not verdict:
            ctx.ok("C05-S1", site, f"{fn.name}: every stored value passed the cast test (value type, attribute type) and the exact-arity test")
        for kind, c, w in verdict.values():
            (ctx.fail if kind == "fail" else ctx.undecided)("C05-S1", site, c, w)


def _cast_args(repo, call):
    """(from, to) arguments of a _can_be_casted call, keywords mapped through the definition"""
    fn = repo.func(MA, "_BaseAttribute._can_be_casted")
    ps = [p for p in au.params(fn) if p not in ("self", "cls")]
    args = list(call.args)
    m = dict(zip(ps, args))
    for k in call.keywords:
        if k.arg in ps:
            m[k.arg] = k.value
    if len(ps) < 2 or ps[0] not in m or ps[1] not in m:
        return None
    return m[ps[0]], m[ps[1]]


# ---------------------------------------------------------------------------- T1 / D1: tabulation on the finite domain of types
def _type_members(repo):
    cls = repo.cls(MA, "_BaseAttribute.Type")
    out = []
    for st in cls.body:
        if isinstance(st, ast.Assign) and len(st.targets) == 1 and isinstance(st.targets[0], ast.Name):
            out.append(st.targets[0].id)
    return out


_ABSENT = object()


def _module_value(mod, nm, ev):
    """value of a module-level name after ALL the module-level statements that bind or modify it, in order: `T = dict()` ...
    `T.update({...})`, `T[k] = v`, `T |= {...}`, `L.append(x)`.  A module-level statement that touches the name in another way
    (inside if / for / try / with, deleted, rebound by unpacking ...) makes the value unknown (hd_eval.Unknown)."""
    val = _ABSENT

    def mentions(node):
        return any(isinstance(n, ast.Name) and n.id == nm for n in ast.walk(node))
    if not any(isinstance(n, ast.Name) and n.id == nm and isinstance(n.ctx, ast.Store) for st in mod.tree.body
               if not isinstance(st, (ast.FunctionDef, ast.AsyncFunctionDef, ast.ClassDef)) for n in ast.walk(st)):
        return _ABSENT                   # not a name of the module (a builtin, an import ...)
    for st in mod.tree.body:
        if isinstance(st, (ast.FunctionDef, ast.AsyncFunctionDef, ast.ClassDef, ast.Import, ast.ImportFrom)):
            continue                     # reads inside functions / classes happen after the module is loaded
        if not mentions(st):
            continue
        if isinstance(st, ast.Assign) and len(st.targets) == 1 and isinstance(st.targets[0], ast.Name) and st.targets[0].id == nm:
            val = ev.expr(st.value, {})
        elif isinstance(st, ast.AnnAssign) and isinstance(st.target, ast.Name) and st.target.id == nm:
            if st.value is not None:
                val = ev.expr(st.value, {})
        elif isinstance(st, ast.Assign) and len(st.targets) == 1 and isinstance(st.targets[0], ast.Subscript) and isinstance(st.targets[0].value, ast.Name) \
                and st.targets[0].value.id == nm and isinstance(val, (dict, list)):
            val[ev.expr(st.targets[0].slice, {})] = ev.expr(st.value, {})
        elif isinstance(st, ast.AugAssign) and isinstance(st.target, ast.Name) and st.target.id == nm and val is not _ABSENT \
                and isinstance(st.op, (ast.BitOr, ast.Add)):
            rhs = ev.expr(st.value, {})
            if isinstance(val, dict) and isinstance(rhs, dict) and isinstance(st.op, ast.BitOr):
                val = {**val, **rhs}
            elif isinstance(val, (set, frozenset)) and isinstance(rhs, (set, frozenset)) and isinstance(st.op, ast.BitOr):
                val = val | rhs
            elif isinstance(val, (list, tuple)) and type(rhs) is type(val) and isinstance(st.op, ast.Add):
                val = val + rhs
            else:
                raise hd_eval.Unknown(f"module-level update of {nm}")
        elif isinstance(st, ast.Expr) and isinstance(st.value, ast.Call) and isinstance(st.value.func, ast.Attribute) and isinstance(st.value.func.value, ast.Name) \
                and st.value.func.value.id == nm and st.value.func.attr in ("update", "add", "append", "extend", "setdefault", "insert") \
                and isinstance(val, (dict, list, set)) and not st.value.keywords:
            args = [ev.expr(a, {}) for a in st.value.args]
            try:
                getattr(val, st.value.func.attr)(*args)
            except Exception as e:  # noqa
                raise hd_eval.Unknown(f"module-level update of {nm}: {e}")
        elif isinstance(st, ast.Assign) and not any(isinstance(n, ast.Name) and n.id == nm and isinstance(n.ctx, ast.Store) for t in st.targets for n in ast.walk(t)) \
                and not any(isinstance(n, ast.Call) and mentions(n) for n in ast.walk(st.value)):
            continue                     # the name is only read (another table built from it)
        else:
            raise hd_eval.Unknown(f"the module-level table {nm} is modified by a statement that is not read (line {getattr(st, 'lineno', 0)})")
    return val


def _evaluator(repo, methods=None):
    members = _type_members(repo)
    enum = hd_eval.Enum("Type", members)
    mod = repo.module(MA)
    ev = hd_eval.Ev(None, methods=methods or {})

    def class_ns(qual):
        def lookup(nm):
            raise KeyError(nm)
        attrs = {"Type": enum}
        for m, c in repo.mro(mod, mod.classes[qual]):
            for st in c.body:
                if isinstance(st, ast.Assign) and len(st.targets) == 1 and isinstance(st.targets[0], ast.Name) and st.targets[0].id not in attrs:
                    try:
                        attrs[st.targets[0].id] = ev.expr(st.value, {})
                    except (hd_eval.Unknown, hd_eval.Raised):
                        pass
        return hd_eval.NS(qual, attrs)
    cache = {}

    def g(nm):
        if nm in cache:
            return cache[nm]
        if nm in mod.classes and nm in ("Attribute", "_BaseAttribute", "ArrayAttribute"):
            cache[nm] = hd_eval.NS(nm, {"Type": enum})       # placeholder while class constants are evaluated (they may refer to the class)
            cache[nm] = class_ns(nm)
            return cache[nm]
        if nm == "Type":
            return enum
        if nm == "Vec":
            return hd_eval.VecV
        if nm in ("np", "numpy"):
            return hd_eval.NUMPY
        for st in mod.tree.body:
            if isinstance(st, ast.FunctionDef) and st.name == nm:
                return hd_eval.Func(st)
        val = _module_value(mod, nm, ev)
        if val is not _ABSENT:
            cache[nm] = val
            return val
        if nm == "itertools":
            import itertools
            return hd_eval.NS("itertools", {k: getattr(itertools, k) for k in ("combinations", "permutations", "product", "chain", "accumulate", "pairwise", "islice")})
        raise KeyError(nm)
    ev.g = g
    # members of the enumeration: the first listed value of each (MultiValueEnum) and the methods / properties of the class
    tcls = repo.cls(MA, "_BaseAttribute.Type")
    ev.member_values = {}
    for st in tcls.body:
        if isinstance(st, ast.Assign) and len(st.targets) == 1 and isinstance(st.targets[0], ast.Name):
            first = st.value.elts[0] if isinstance(st.value, ast.Tuple) and st.value.elts else st.value
            if isinstance(first, ast.Name) and first.id in ("bool", "int", "float", "complex", "str"):
                ev.member_values[st.targets[0].id] = {"bool": bool, "int": int, "float": float, "complex": complex, "str": str}[first.id]
        elif isinstance(st, ast.FunctionDef):
            ev.methods.setdefault(st.name, st)
    return ev, enum, members


def t1_cast_table(ctx):
    repo = ctx.repo
    fn = repo.func(MA, "_BaseAttribute._can_be_casted")
    site = ctx.site(MA, fn)
    ps = [p for p in au.params(fn) if p not in ("self", "cls")]
    if len(ps) < 2:
        ctx.undecided("C05-T1", site, "_can_be_casted does not take (from, to) types")
        return
    ev, enum, members = _evaluator(repo)
    want = {("Bool", "Int"), ("Bool", "Float"), ("Int", "Float")}
    need = {"Bool", "Int", "Float", "Complex", "String"}
    if set(members) != need:
        ctx.undecided("C05-T1", site, f"the attribute types are {sorted(members)}; the specification of the cast table knows {sorted(need)}")
        return
    wrong = []
    try:
        for a in members:
            for b in members:
                ev.steps = 20000
                try:
                    r = ev.call(fn, {ps[0]: hd_eval.Member("Type", a), ps[1]: hd_eval.Member("Type", b)})
                except hd_eval.Raised as e:
                    raise hd_eval.Unknown(f"raises {e.exc} for ({a}, {b})")
                if not isinstance(r, bool):
                    raise hd_eval.Unknown(f"returns a non-boolean for ({a}, {b})")
                if r != (a == b or (a, b) in want):
                    wrong.append((a, b, r))
    except (hd_eval.Unknown, RecursionError) as e:
        ctx.undecided("C05-T1", site, "_can_be_casted cannot be tabulated over the pairs of attribute types", str(e))
        return
    if not wrong:
        ctx.ok("C05-T1", site, "cast table tabulated over 25 type pairs: reflexive + bool->int->float widening")
        return
    allowed = sorted((a, b) for a, b, r in wrong if r)
    refused = sorted((a, b) for a, b, r in wrong if not r)
    if allowed:
        ctx.fail("C05-T1", site, f"cast table allows {allowed}", "only bool->int->float widening is allowed (float -> int narrowing, casts from/to complex or string are not)")
    if refused:
        ctx.fail("C05-T1", site, f"cast table refuses {refused}", "identical types and bool->int->float widening must be accepted")


def d1_defaults(ctx):
    repo = ctx.repo
    fn = repo.func(MA, "_BaseAttribute.Type.default_value")
    site = ctx.site(MA, fn)
    ps = au.params(fn)
    want = {"Bool": False, "Int": 0, "Float": 0.0, "Complex": 0j, "String": ""}
    ev, enum, members = _evaluator(repo, methods={"default_value": fn})
    if len(ps) < 2 or set(members) != set(want):
        ctx.undecided("C05-D1", site, "Type.default_value(self, n) / the list of attribute types has changed")
    else:
        got, vec_bad, unknown = {}, [], None
        try:
            for m in members:
                ev.steps = 20000
                try:
                    got[m] = ev.call(fn, {ps[0]: hd_eval.Member("Type", m), ps[1]: 1})
                except hd_eval.Raised as e:
                    got[m] = f"<raises {e.exc}>"
                for k in (2, 3):
                    try:
                        v = ev.call(fn, {ps[0]: hd_eval.Member("Type", m), ps[1]: k})
                    except hd_eval.Raised as e:
                        v = f"<raises {e.exc}>"
                    if not (isinstance(v, hd_eval.VecV) and v == hd_eval.VecV([want[m]] * k)):
                        vec_bad.append((m, k, v))
            # default of the parameter n
            ev.steps = 20000
            d0 = ev.call(fn, {ps[0]: hd_eval.Member("Type", "Int")})
        except (hd_eval.Unknown, RecursionError) as e:
            unknown = str(e)
        if unknown:
            ctx.undecided("C05-D1", site, "Type.default_value cannot be tabulated over the attribute types", unknown)
        else:
            ok = all(type(got[k]) is type(want[k]) and got[k] == want[k] for k in want)
            ctx.check(ok, "C05-D1", site, f"scalar defaults per type are {got}", f"expected the zero / empty value of each type: {want}", note="5 type defaults")
            scalar_bad = {m for m in want if not (type(got[m]) is type(want[m]) and got[m] == want[m])}
            vec_bad = [x for x in vec_bad if x[0] not in scalar_bad]
            ctx.check(not vec_bad, "C05-D1", site,
                      "vector default is not the scalar default repeated n times" + (f": default_value({vec_bad[0][1]}) of {vec_bad[0][0]} is {vec_bad[0][2]}" if vec_bad else ""),
                      "a vector attribute defaults to elemsize copies of the scalar default", note="vector default = n copies")
    # the property: the given default, else type.default_value(elemsize)
    fn, site, paths = _paths(ctx, "C05-D1", MA, "_BaseAttribute.default_value")
    if paths is None:
        return

    def is_none_test(t):
        return isinstance(t, ast.Compare) and len(t.ops) == 1 and isinstance(t.ops[0], (ast.Is, ast.IsNot, ast.Eq, ast.NotEq)) \
            and au.is_self_attr(t.left, "_default_value") and isinstance(t.comparators[0], ast.Constant) and t.comparators[0].value is None
    und, bad, n = [], [], 0
    for p in paths:
        if p.end != "return" or p.ret is None:
            if p.end != "raise":
                bad.append("a path returns nothing")
            continue
        none = None
        for t, pol in p.conds:
            if is_none_test(t):
                none = pol if isinstance(t.ops[0], (ast.Is, ast.Eq)) else not pol
        v = p.ret
        if none is True:
            n += 1
            if isinstance(v, ast.Call) and src(v.func) == "self.type.default_value" and len(v.args) + len(v.keywords) == 1 \
                    and au.is_self_attr((v.args + [k.value for k in v.keywords])[0], "elemsize"):
                pass
            elif isinstance(v, ast.Call) and src(v.func) == "self.type.default_value":
                bad.append(f"without a given default the property answers `{src(v)}`")
            else:
                und.append(f"without a given default the property answers `{src(v)}`")
        elif none is False:
            n += 1
            if not au.is_self_attr(v, "_default_value"):
                und.append(f"with a given default the property answers `{src(v)}`")
        else:
            und.append(f"answers `{src(v)}` without testing whether a default was given")
    if bad:
        ctx.fail("C05-D1", site, "default_value property is not `the given default, else type.default_value(elemsize)`", "; ".join(bad))
    elif und or n < 2:
        ctx.undecided("C05-D1", site, "default_value property: not recognised as `the given default, else type.default_value(elemsize)`", "; ".join(und))
    else:
        ctx.ok("C05-D1", site, "default from (type, elemsize) when none was given")


# ---------------------------------------------------------------------------- R1
def r1_dense_read(ctx):
    fn, site, ps = _paths(ctx, "C05-R1", MA, "ArrayAttribute.__getitem__")
    if ps is not None:
        params = au.params(fn, skip_self=True)
        key = params[0] if params else None
        bad, und, n = [], [], 0
        for p in ps:
            if p.end != "return" or p.ret is None:
                if p.end == "fall":
                    und.append("a path returns nothing")
                continue
            v = p.ret
            form = None
            if isinstance(v, ast.Subscript) and au.is_self_attr(v.value, "_data"):
                sl = v.slice
                if isinstance(sl, ast.Tuple) and len(sl.elts) == 2 and src(sl.elts[0]) == key:
                    second = sl.elts[1]
                    if au.const(second) == 0:
                        form = "scalar"
                    elif isinstance(second, ast.Slice) and second.lower is None and second.upper is None and second.step is None \
                            or isinstance(second, ast.Constant) and second.value is Ellipsis or src(second) in ("slice(None)", "slice(None, None)", "slice(None, None, None)"):
                        form = "row"
                elif src(sl) == key:
                    form = "row"
            elif isinstance(v, ast.Subscript) and isinstance(v.value, ast.Subscript) and au.is_self_attr(v.value.value, "_data") \
                    and src(v.value.slice) == key and au.const(v.slice) == 0:
                form = "scalar"
            if form is None:
                und.append(f"returns `{src(v)}`")
                continue
            n += 1
            can1, canv = _elemsize_ok(p.conds, lambda e: e == 1), _elemsize_ok(p.conds, lambda e: e > 1)
            other = [au.canon_test(t, pol) for t, pol in p.conds if "elemsize" not in src(t) and "self._data.shape[1]" not in src(t) and not _has_name(t, key)]
            if can1 is None or canv is None:
                und.append(f"`{src(v)}` is returned under a condition on the element size that is not understood")
                continue
            if can1 and canv and other:
                und.append(f"`{src(v)}` is returned when {' and '.join(other)}")
                continue
            if form == "scalar" and canv:
                bad.append("the first component only is returned for a vector attribute (elemsize > 1)")
            if form == "row" and can1:
                bad.append("a whole row (array of one element) is returned for a scalar attribute (elemsize == 1)")
        if bad:
            ctx.fail("C05-R1", site, "dense __getitem__ is not `_data[key, 0] if elemsize == 1 else _data[key, :]`",
                     "; ".join(sorted(set(bad))) + " - a scalar attribute must read back the scalar that was written, a vector attribute the whole vector, like the sparse storage")
        elif und or n == 0:
            ctx.undecided("C05-R1", site, "dense __getitem__: the returned value is not a recognised read of self._data at the key", "; ".join(sorted(set(und))))
        else:
            ctx.ok("C05-R1", site, "scalar iff elemsize == 1")
    for qual, okset, what in (("ArrayAttribute.__len__", ("self.n_elem", "len(self._data)", "self._data.shape[0]"), "n_elem"),
                              ("Attribute.__len__", ("len(self._data)", "len(self._data.keys())"), "the number of stored keys")):
        fn, site, ps = _paths(ctx, "C05-R1", MA, qual)
        if ps is None:
            continue
        rets = [src(p.ret) for p in ps if p.end == "return"]
        if rets and all(r in okset for r in rets):
            ctx.ok("C05-R1", site, f"len is {what}")
        elif rets and all(isinstance(p.ret, ast.Constant) for p in ps if p.end == "return"):
            ctx.fail("C05-R1", site, f"{qual} returns a constant", f"the length of the attribute is {what}")
        else:
            ctx.undecided("C05-R1", site, f"{qual} is not recognised as {what}", "; ".join(rets))


# ---------------------------------------------------------------------------- C1
def _is_property(repo, clsname, member):
    mod = repo.module(MA)
    for m, f, c in repo.methods(mod, mod.classes[clsname]).values():
        if f.name == member and any(src(d) in ("property", "cached_property", "functools.cached_property") for d in f.decorator_list):
            return True
    return False


def _np_call(e, tails):
    return isinstance(e, ast.Call) and au.call_tail(e) in tails


def _rows(e, want_atom, names):
    """is the row count `e` the wanted quantity?  True / (False, text) when it is recognisably another count / None when unknown.
    names: source texts that denote the wanted quantity"""
    while isinstance(e, ast.Call) and isinstance(e.func, ast.Name) and e.func.id == "int" and len(e.args) == 1:
        e = e.args[0]
    pl = sym.to_poly(e, atom_of=lambda x: want_atom if src(x) in names else None)
    if pl == P.atom(want_atom):
        return True
    if pl.atoms() <= {want_atom}:
        return False, f"`{src(e)}` rows"
    return None


def _fills_of(p):
    """block expression (as built) -> value the whole block is filled with afterwards on the path: np.copyto(b, v), b.fill(v), b[:] = v, b[...] = v"""
    out = {}
    for ev, _, loops in walk_events(p):
        if loops:
            continue
        if ev.kind == "call" and au.call_tail(ev.a) == "copyto" and len(ev.a.args) >= 2:
            out[src(hd_sx.unwrap_after(ev.a.args[0]))] = ev.a.args[1]
        elif ev.kind == "call" and isinstance(ev.a.func, ast.Attribute) and ev.a.func.attr == "fill" and len(ev.a.args) == 1:
            out[src(hd_sx.unwrap_after(ev.a.func.value))] = ev.a.args[0]
        elif ev.kind == "store" and isinstance(ev.a, ast.Subscript) and (
                isinstance(ev.a.slice, ast.Slice) and ev.a.slice.lower is None and ev.a.slice.upper is None and ev.a.slice.step is None
                or isinstance(ev.a.slice, ast.Constant) and ev.a.slice.value is Ellipsis):
            out[src(hd_sx.unwrap_after(ev.a.value))] = ev.b
    return out


def _default_block(e, rows_ok, fills=None):
    """e is np.full((rows, self.elemsize), self.default_value, ...) - or np.empty / np.zeros of that shape filled afterwards (fills) -:
    True / (False, why) when it is recognisably another block / None when it is not such a call or one of its arguments is not understood"""
    e = hd_sx.unwrap_after(e)
    if not _np_call(e, ("full", "empty", "zeros", "ones")):
        return None
    args = list(e.args)
    kw = {k.arg: k.value for k in e.keywords}
    shape = args[0] if args else kw.get("shape")
    if au.call_tail(e) == "full":
        fill = args[1] if len(args) > 1 else kw.get("fill_value")
    else:
        fill = (fills or {}).get(src(e))
        if fill is None:
            if au.call_tail(e) == "empty":
                return None
            fill = ast.Constant(value=0 if au.call_tail(e) == "zeros" else 1)
    if not isinstance(shape, (ast.Tuple, ast.List)) or len(shape.elts) != 2 or fill is None:
        return None
    if not is_default(fill):
        if any(is_default(x) for x in ast.walk(fill)):
            return None
        if isinstance(fill, ast.Constant) or (isinstance(fill, ast.Call) and "default_value" in src(fill.func)):
            return False, f"filled with `{src(fill)}` instead of the attribute's default"
        return None
    if not (au.is_self_attr(shape.elts[1], "elemsize") or src(shape.elts[1]) == "self._data.shape[1]"):
        if isinstance(shape.elts[1], ast.Constant):
            return False, f"rows of {src(shape.elts[1])} components instead of elemsize"
        return None
    r = rows_ok(shape.elts[0])
    if r is True or r is None:
        return r
    return False, r[1]


def _nothing_to_add(conds, n):
    """the path is taken only when the number of new elements is zero (or negative)"""
    def s(node):
        if isinstance(node, ast.Name) and node.id == n:
            return "n"
        raise order.Unsupported(src(node))
    for t, pol in conds:
        if not _has_name(t, n):
            continue
        if isinstance(t, ast.Name) and not pol:
            return True
        try:
            pred = order.Pred(s).collect(t)
            if not any(bool(pred.eval(t, env)) == pol for env in order.envs(pred.symbols | {"n"}, pred.consts | {0}) if env["n"] >= 1 and env["n"] == int(env["n"])):
                return True
        except order.Unsupported:
            pass
    return False


def _preallocated(p, d, n):
    """`grown = np.zeros/empty/full((n_elem + n, elemsize)); grown[:n_elem] = self._data; grown[n_elem:] = default; self._data = grown`
    True when the path is that, (construct, what) when a recognised part of it is wrong, None when the shape is another one"""
    blk = hd_sx.unwrap_after(d)
    if not _np_call(blk, ("zeros", "empty", "full")) or not blk.args or not isinstance(blk.args[0], (ast.Tuple, ast.List)) or len(blk.args[0].elts) != 2:
        return None
    at = lambda e: "N" if src(e) in ("self.n_elem", "len(self._data)", "self._data.shape[0]") else None
    rows = sym.to_poly(blk.args[0].elts[0], atom_of=at)
    if rows != P.atom("N") + P.atom(n):
        return None if not rows.atoms() <= {"N", n} else (f"_expand allocates `{rows}` rows instead of n_elem + {n}", "one row per element of the container")
    filled = au.call_tail(blk) == "full" and len(blk.args) > 1 and is_default(blk.args[1])
    key = src(blk)
    head = tail = None
    for ev, _, loops in walk_events(p):
        if ev.kind != "store" or not isinstance(ev.a, ast.Subscript) or src(hd_sx.unwrap_after(ev.a.value)) != key or loops:
            continue
        sl = ev.a.slice.elts[0] if isinstance(ev.a.slice, ast.Tuple) and ev.a.slice.elts else ev.a.slice
        if not isinstance(sl, ast.Slice) or sl.step is not None:
            return None
        lo = sym.to_poly(sl.lower, atom_of=at) if sl.lower is not None else P.const(0)
        hi = sym.to_poly(sl.upper, atom_of=at) if sl.upper is not None else P.atom("N") + P.atom(n)
        if not (lo.atoms() | hi.atoms()) <= {"N", n}:
            return None
        if au.is_self_attr(hd_sx.unwrap_after(ev.b), "_data") or (isinstance(ev.b, ast.Subscript) and au.is_self_attr(ev.b.value, "_data")):
            head = (lo, hi)
        elif is_default(ev.b):
            tail = (lo, hi)
        else:
            return None
    if head is None:
        return None
    if head != (P.const(0), P.atom("N")):
        return (f"_expand copies the existing rows to [{head[0]}:{head[1]}] of the new storage", "existing values must be kept in place")
    if tail is None:
        if filled:
            return True
        return ("_expand leaves the new rows as allocated (zeros / uninitialised) instead of filling them with the attribute's default",
                "new elements must read the default value (a custom default is not zero)")
    if tail != (P.atom("N"), P.atom("N") + P.atom(n)):
        return (f"_expand fills rows [{tail[0]}:{tail[1]}] with the default instead of the n new rows [n_elem : n_elem + {n}]",
                "new elements must read the default value: the slice is taken after n_elem was advanced, it is empty")
    return True


def c1_expand_clear(ctx):
    repo = ctx.repo
    # ---- dense _expand
    fn, site, ps = _paths(ctx, "C05-C1", MA, "ArrayAttribute._expand")
    rebuilt_from = set()
    if ps is not None:
        params = au.params(fn, skip_self=True)
        n = params[0] if params else None
        bad, und = [], []
        for p in ps:
            if p.end == "raise" or _nothing_to_add(p.conds, n):
                continue
            fin_n = p.heap.get("self.n_elem")
            if fin_n is None and _is_property(repo, "ArrayAttribute", "n_elem"):
                pass                                    # the size is derived from the storage
            elif fin_n is None:
                bad.append(("_expand does not add n to self.n_elem", "the bounds check would reject the new elements"))
            else:
                pn = sym.to_poly(fin_n, atom_of=lambda e: "N" if au.is_self_attr(e, "n_elem") else None)
                new_len = isinstance(fin_n, ast.Call) and au.call_tail(fin_n) == "len" and fin_n.args and p.heap.get("self._data") is not None \
                    and src(fin_n.args[0]) == src(p.heap["self._data"])
                new_len = new_len or (p.heap.get("self._data") is not None and src(fin_n) == src(p.heap["self._data"]) + ".shape[0]")
                if pn == P.atom("N") + P.atom(n) or new_len:
                    pass
                elif pn.atoms() <= {"N", n}:
                    bad.append((f"_expand sets self.n_elem to `{src(fin_n)}` instead of n_elem + {n}", "the bounds check would reject the new elements (or accept too many)"))
                else:
                    und.append(f"self.n_elem becomes `{src(fin_n)}`")
            d = p.heap.get("self._data")
            if d is None:
                muts = [ev for ev, _, _ in walk_events(p) if ev.kind in ("call", "aug", "store", "loop", "other") and any(
                    au.is_self_attr(x) and x.attr not in ("n_elem",) for e in hd_sx.exprs_of(ev) for x in ast.walk(e))]
                if muts or _is_property(repo, "ArrayAttribute", "_data"):
                    und.append("the storage is not rebound to `old rows + new rows` (updated in place / kept in another field)")
                else:
                    bad.append(("_expand does not add rows to self._data", "new elements must read the default value"))
                continue
            parts = None
            if _np_call(d, ("concatenate", "vstack")) and d.args and isinstance(d.args[0], (ast.Tuple, ast.List)) and len(d.args[0].elts) == 2:
                parts = d.args[0].elts
            elif _np_call(d, ("append",)) and len(d.args) >= 2 and src(d.func).split(".")[0] in ("np", "numpy"):
                parts = d.args[:2]
            elif isinstance(d, ast.Subscript) and src(d.value) in ("np.r_", "numpy.r_") and isinstance(d.slice, ast.Tuple) and len(d.slice.elts) == 2:
                parts = d.slice.elts
            if parts is None:
                pre = _preallocated(p, d, n)
                if pre is not None:
                    if pre is not True:
                        bad.append(pre)
                    continue
                written_here = {ev.a.attr for q_ in ps for ev, _, _ in walk_events(q_) if ev.kind in ("store", "aug") and au.is_self_attr(ev.a)}
                fields = {f for f in _self_fields(d) if f not in BASIC_FIELDS and f in written_here}
                if fields:
                    rebuilt_from |= fields
                else:
                    und.append(f"self._data becomes `{src(d)}`")
                continue
            old, blk = parts
            r = _default_block(blk, lambda e: _rows(e, "n", (n,)), _fills_of(p))
            if au.is_self_attr(blk, "_data") and _default_block(old, lambda e: True, _fills_of(p)) is not None:
                bad.append(("_expand puts the new rows before the existing ones", "existing values must be kept in place"))
            elif not au.is_self_attr(old, "_data"):
                und.append(f"rows are appended after `{src(old)}`")
            elif r is None:
                und.append(f"the appended block is `{src(blk)}`")
            elif r is not True:
                bad.append((f"_expand adds a block with {r[1]}", "new elements must read the default value, one row per new element"))
        bad = [b if isinstance(b, tuple) else (b, "") for b in bad]
        for c, w in dict(bad).items():
            ctx.fail("C05-C1", site, c, w)
        if not bad and und:
            ctx.undecided("C05-C1", site, "ArrayAttribute._expand: not recognised as `append n default rows, n_elem += n`", "; ".join(sorted(set(map(str, und)))))
        elif not bad and not rebuilt_from:
            ctx.ok("C05-C1", site, "_expand appends n default rows and adds n to n_elem")
    # ---- dense clear
    fn, site, ps = _paths(ctx, "C05-C1", MA, "ArrayAttribute.clear")
    if ps is not None:
        bad, und = [], []
        written = set()
        for p in ps:
            if p.end == "raise":
                continue
            for ev, _, _ in walk_events(p):
                if ev.kind in ("store", "aug") and au.is_self_attr(ev.a):
                    written.add(ev.a.attr)
                if ev.kind in ("store", "aug") and isinstance(ev.a, ast.Subscript) and au.is_self_attr(ev.a.value):
                    written.add(ev.a.value.attr)
                if ev.kind == "call" and isinstance(ev.a.func, ast.Attribute) and au.is_self_attr(ev.a.func.value):
                    written.add(ev.a.func.value.attr)
            if "self.n_elem" in p.heap:
                rn = _rows(p.heap["self.n_elem"], "N", ("self.n_elem", "len(self)", "len(self._data)", "self._data.shape[0]"))
                if rn is None:
                    und.append(f"n_elem becomes `{src(p.heap['self.n_elem'])}`")
                elif rn is not True:
                    bad.append((f"ArrayAttribute.clear changes n_elem to `{src(p.heap['self.n_elem'])}`", "after clear every index of the container must still read the default"))
            d = p.heap.get("self._data")
            fills = []
            for ev, _, _ in walk_events(p):
                if ev.kind == "call" and isinstance(ev.a.func, ast.Attribute) and ev.a.func.attr == "fill" and au.is_self_attr(ev.a.func.value, "_data") and len(ev.a.args) == 1:
                    fills.append(ev.a.args[0])
                if ev.kind == "store" and isinstance(ev.a, ast.Subscript) and au.is_self_attr(ev.a.value, "_data") \
                        and (isinstance(ev.a.slice, ast.Slice) and ev.a.slice.lower is None and ev.a.slice.upper is None
                             or isinstance(ev.a.slice, ast.Constant) and ev.a.slice.value is Ellipsis):
                    fills.append(ev.b)
            rebound = any(ev.kind == "store" and au.is_self_attr(ev.a, "_data") for ev, _, _ in walk_events(p))
            if rebound and d is not None:
                r = _default_block(d, lambda e: _rows(e, "N", ("self.n_elem", "len(self)", "len(self._data)", "self._data.shape[0]")), _fills_of(p))
                if r is None and isinstance(d, ast.Call) and au.call_tail(d) == "full_like" and len(d.args) >= 2 and au.is_self_attr(d.args[0], "_data"):
                    r = True if is_default(d.args[1]) else (False, f"filled with `{src(d.args[1])}` instead of the attribute's default")
                if r is None:
                    und.append(f"self._data becomes `{src(d)}`")
                elif r is not True:
                    bad.append((f"ArrayAttribute.clear rebuilds the storage with {r[1]}", "after clear every index of the container must read the default"))
            elif fills:
                for f in fills:
                    if is_default(f):
                        continue
                    if isinstance(f, ast.Constant) or (isinstance(f, ast.Call) and "default_value" in src(f.func)) or _self_fields(f) - {"default_value", "_default_value"}:
                        bad.append((f"ArrayAttribute.clear fills the storage with `{src(f)}` instead of the attribute's default",
                                    "an attribute created with a custom default must read that default at every index after clear, like the sparse storage"))
                    else:
                        und.append(f"the storage is filled with `{src(f)}`")
            else:
                und.append("no reset of self._data recognised")
        missing = sorted(rebuilt_from - written)
        if missing:
            ctx.fail("C05-C1", site, f"_expand rebuilds the storage from self.{missing[0]}, which clear() leaves untouched",
                     "values written before clear() come back when the container grows afterwards: after clear every index must read the default")
        for c, w in dict(bad).items():
            ctx.fail("C05-C1", site, c, w)
        if not bad and not missing and und:
            ctx.undecided("C05-C1", site, "ArrayAttribute.clear: not recognised as `storage = (n_elem, elemsize) rows of the default`", "; ".join(sorted(set(und))))
        elif not bad and not missing:
            ctx.ok("C05-C1", site, "clear restores (n_elem, elemsize) defaults")
    # ---- sparse clear
    fn, site, ps = _paths(ctx, "C05-C1", MA, "Attribute.clear")
    if ps is not None:
        ok = und = False
        for p in ps:
            if p.end == "raise":
                continue
            d = p.heap.get("self._data")
            cleared = any(ev.kind == "call" and isinstance(ev.a.func, ast.Attribute) and ev.a.func.attr == "clear" and au.is_self_attr(ev.a.func.value, "_data")
                          for ev, _, _ in walk_events(p))
            if cleared or isinstance(d, ast.Dict) and not d.keys or isinstance(d, ast.Call) and src(d.func) in ("dict", "OrderedDict", "collections.OrderedDict") and not d.args and not d.keywords:
                ok = True
            else:
                und = True
        if ok and not und:
            ctx.ok("C05-C1", site, "sparse clear empties the dictionary")
        else:
            ctx.undecided("C05-C1", site, "Attribute.clear: not recognised as emptying the dictionary")


def c1_init(ctx):
    """a new dense attribute reads its default everywhere: storage = n_elem rows of elemsize defaults, n_elem = the given size"""
    fn, site, ps = _paths(ctx, "C05-C1", MA, "ArrayAttribute.__init__")
    if ps is None:
        return
    params = au.params(fn, skip_self=True)
    if len(params) < 2:
        ctx.undecided("C05-C1", site, "ArrayAttribute.__init__ without (type, n_elem) parameters")
        return
    size = params[1]
    bad, und, n_ok = [], [], 0
    for p in ps:
        if p.end == "raise":
            continue
        d, ne, es = p.heap.get("self._data"), p.heap.get("self.n_elem"), p.heap.get("self.elemsize")
        if ne is not None and src(ne) != size and not (isinstance(ne, ast.Call) and au.call_tail(ne) == "int" and len(ne.args) == 1 and src(ne.args[0]) == size):
            (bad if isinstance(ne, ast.Constant) else und).append((f"a new dense attribute has n_elem `{src(ne)}` instead of the size it was given", "the bounds check must accept exactly the indices of the container"))
        if d is None:
            und.append(("self._data is not set", ""))
            continue
        blk = d
        # the block is spelled with the parameters or with the fields they were stored in
        names_rows = (size, "self.n_elem") + ((src(ne),) if ne is not None else ())
        r = None
        blk = hd_sx.unwrap_after(blk)
        if _np_call(blk, ("full", "empty", "zeros", "ones")):
            blk2 = hd_sx.clone(blk)
            shape = blk2.args[0] if blk2.args else None
            if isinstance(shape, (ast.Tuple, ast.List)) and len(shape.elts) == 2 and es is not None and src(shape.elts[1]) == src(es):
                shape.elts[1] = ast.parse("self.elemsize", mode="eval").body
            r = _default_block(blk2, lambda e: _rows(e, "S", names_rows), {src(blk2): v_ for k_, v_ in _fills_of(p).items() if k_ == src(blk)})
        if r is True:
            n_ok += 1
        elif r is None:
            und.append((f"the storage of a new dense attribute is `{src(d)[:80]}`", ""))
        else:
            bad.append((f"a new dense attribute is built as a block with {r[1]}", "every index of the container must read the default until it is written"))
    for c, w in dict(x for x in bad if isinstance(x, tuple)).items():
        ctx.fail("C05-C1", site, c, w)
    if not bad and (und or n_ok == 0):
        ctx.undecided("C05-C1", site, "ArrayAttribute.__init__: not recognised as `storage = (n_elem, elemsize) rows of the default`", "; ".join(sorted({c for c, _ in und})))
    elif not bad:
        ctx.ok("C05-C1", site, "a new dense attribute is (n_elem, elemsize) rows of the default")


def c1_creation(ctx):
    """dense attributes are created with the container's current size"""
    repo = ctx.repo
    fn, site, ps = _paths(ctx, "C05-C1", DC, "_BaseDataContainer.create_attribute", cls="_BaseDataContainer")
    if ps is None:
        return
    init = repo.func(MA, "ArrayAttribute.__init__")
    ips = au.params(init, skip_self=True)
    size_params = [p for p in au.params(fn, skip_self=True)]
    bad, und, n = [], [], 0
    for p in ps:
        if p.end == "raise":
            continue
        for ev, conds, _ in walk_events(p):
            for e in hd_sx.exprs_of(ev) + ([p.ret] if ev is p.events[-1] and isinstance(p.ret, ast.AST) else []):
                for c in ast.walk(e):
                    if not (isinstance(c, ast.Call) and au.call_tail(c) == "ArrayAttribute"):
                        continue
                    m = dict(zip(ips, c.args))
                    m.update({k.arg: k.value for k in c.keywords if k.arg})
                    N = m.get(ips[1]) if len(ips) > 1 else None
                    if N is None:
                        und.append("ArrayAttribute(...) without a size")
                        continue
                    n += 1
                    s = src(N)
                    if s in ("len(self)", "self.size"):
                        continue
                    # an explicit size given by the caller
                    explicit = [src(t) for t, pol in conds if isinstance(t, ast.Compare) and len(t.ops) == 1 and isinstance(t.comparators[0], ast.Constant)
                                and t.comparators[0].value is None and isinstance(t.left, ast.Name) and t.left.id in size_params
                                and pol == isinstance(t.ops[0], (ast.IsNot, ast.NotEq)) and _has_name(N, t.left.id)]
                    if explicit:
                        continue
                    if isinstance(N, ast.Constant) or (isinstance(N, ast.Name) and N.id in size_params) or (isinstance(N, ast.Call) and au.call_tail(N) == "int" and not _has_name(N, "self")):
                        bad.append(f"a dense attribute is created with `{s}` rows although no size was given")
                    else:
                        und.append(f"a dense attribute is created with `{s}` rows")
    if bad:
        ctx.fail("C05-C1", site, "dense attributes are not created with the container's current size", "; ".join(sorted(set(bad))))
    elif und or n == 0:
        ctx.undecided("C05-C1", site, "create_attribute: the size given to ArrayAttribute was not recognised as len(self)", "; ".join(sorted(set(und))))
    else:
        ctx.ok("C05-C1", site, "dense attributes sized by the container")


def _strip_array(e):
    """strip shape / dtype wrappers: np.array(x), np.asarray(x), list(x), x.reshape(..), x.astype(..)"""
    while True:
        if isinstance(e, ast.Call) and isinstance(e.func, ast.Attribute) and e.func.attr in ("reshape", "astype", "squeeze", "copy") \
                and src(e.func.value) not in ("np", "numpy"):
            e = e.func.value
        elif isinstance(e, ast.Call) and au.call_tail(e) in ("array", "asarray", "list", "tuple", "stack", "vstack") and e.args:
            e = e.args[0]
        else:
            return e


def c1_export(ctx):
    """sparse export: full(container_size, default) then every stored item written at its index; computed from the current entries"""
    fn, site, ps = _paths(ctx, "C05-C1", MA, "Attribute.as_array")
    if ps is None:
        return
    params = au.params(fn, skip_self=True)
    size = params[0] if params else None
    bad, und, n_ok = [], [], 0
    for p in ps:
        if p.end != "return" or p.ret is None:
            if p.end == "fall":
                und.append("a path returns nothing")
            continue
        fulls = [c for c in ast.walk(p.ret) if _np_call(c, ("full",))] or [c for c in ast.walk(p.ret) if _np_call(c, ("empty", "zeros"))]
        reads_data = any(au.is_self_attr(x, "_data") for ev, _, _ in walk_events(p) for e in hd_sx.exprs_of(ev) for x in ast.walk(e)) \
            or any(au.is_self_attr(x, "_data") for t, _ in p.conds for x in ast.walk(t)) or any(au.is_self_attr(x, "_data") for x in ast.walk(p.ret))
        memo = sorted(_self_fields(p.ret) - BASIC_FIELDS)
        if memo and not fulls and not reads_data:
            bad.append((f"sparse as_array answers from self.{memo[0]}, an array kept from an earlier call, without reading the stored entries",
                        "__getitem__ hands out the stored vectors themselves: an in-place update (attr[i][j] = x) changes an entry without "
                        "passing through __setitem__, so a remembered export is stale while entry-by-entry reads (and the dense storage) see the new value"))
            continue
        if not fulls:
            und.append(f"returns `{src(p.ret)[:80]}`")
            continue
        blk = fulls[0]
        r = _default_block(blk, lambda e: _rows(e, "S", (size,)), _fills_of(p))
        if r is not True:
            if r is None:
                und.append("the exported array is not np.full((size, elemsize), default)")
            else:
                bad.append((f"sparse as_array starts from a block with {r[1]}", "indices never written must read the default in the export"))
            continue
        key_blk = src(blk)
        scatter = None
        for ev, conds, loops in walk_events(p):
            if not (ev.kind == "store" and isinstance(ev.a, ast.Subscript) and src(ev.a.value) == key_blk):
                continue
            idx = ev.a.slice.elts[0] if isinstance(ev.a.slice, ast.Tuple) and ev.a.slice.elts else ev.a.slice
            if loops:
                lp = loops[-1]
                it = src(lp.iter)
                if it == "self._data.items()" and isinstance(lp.target, ast.Tuple) and len(lp.target.elts) == 2 and all(isinstance(x, ast.Name) for x in lp.target.elts):
                    i, x = (e.id for e in lp.target.elts)
                    val_ok = src(_strip_array(ev.b)) == x
                elif it in ("self._data", "self._data.keys()") and isinstance(lp.target, ast.Name):
                    i = lp.target.id
                    val_ok = src(_strip_array(ev.b)) == f"self._data[{i}]"
                else:
                    scatter = ("und", f"stores inside a loop over `{it}`")
                    continue
                guarded = bool(ev.nconds) and any(_has_name(t, i) for t, _ in conds[-ev.nconds:])
                ri = _rows(idx, "I", (i,))
                if ri is True and val_ok and not guarded:
                    scatter = ("ok",)
                elif ri not in (True, None):
                    scatter = ("bad", f"the item stored under a key is written at index `{src(idx).replace(i, 'key')}`")
                elif not val_ok and ri is True:
                    scatter = ("und", f"writes `{src(ev.b)}` at the key")
                else:
                    scatter = ("und", "the per-item store is conditional or not indexed by the key")
            else:
                # vectorised scatter: out[list(keys), :] = array(list(values))
                ki, vi = _strip_array(idx), _strip_array(ev.b)
                if src(ki) in ("self._data.keys()", "self._data") and src(vi) == "self._data.values()":
                    scatter = ("ok",)
                else:
                    scatter = ("und", f"block assignment `[{src(idx)[:40]}] = {src(ev.b)[:40]}`")
        if scatter is None:
            # nothing stored: fine only on a path where the dictionary is known to be empty
            empty = any(src(t) in ("len(self._data)", "self._data") and not pol or
                        (isinstance(t, ast.Compare) and "len(self._data)" in src(t)) for t, pol in p.conds)
            handed = any(ev.kind in ("call", "other", "loop") for ev, _, _ in walk_events(p))
            if empty:
                n_ok += 1
            elif handed:
                und.append("the stored items are written in a way that is not read")
            else:
                bad.append(("sparse as_array does not write the stored items into the exported array",
                            "array export of the sparse storage must give the same answers as reading entry by entry"))
        elif scatter[0] == "ok":
            n_ok += 1
        elif scatter[0] == "bad":
            bad.append((f"sparse as_array: {scatter[1]}", "array export of the sparse storage must give the same answers as reading entry by entry"))
        else:
            und.append(scatter[1])
    for c, w in dict(bad).items():
        ctx.fail("C05-C1", site, c, w)
    if not bad and (und or n_ok == 0):
        ctx.undecided("C05-C1", site, "sparse as_array: not recognised as `full(default)` overwritten by every stored item at its index", "; ".join(sorted(set(und))))
    elif not bad:
        ctx.ok("C05-C1", site, "sparse export = default block overwritten by every stored item")



# ----------------------------------------------------------------------- generic families (msa/rules/generic.py)
_run_specific = run


def run(ctx):
    _run_specific(ctx)
    from ..rules import generic
    generic.apply(ctx, "C05", stale_modules=())


def _generic_rule_texts():
    from ..rules import generic
    return generic.rule_texts("C05", stale=False)


RULES.update(_generic_rule_texts())
