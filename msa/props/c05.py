"""C05 - attributes are total maps with defaults; sparse and dense storage agree (structural clauses)."""
from __future__ import annotations
import ast
from .. import au, sym, order
from ..flow import Flow
from ..rules import common

MA = "mesh.mesh_attributes"
DC = "mesh.data_container"

EXPLANATION = (
    "Static conformance of the attribute classes and their containers: bounds predicate of the dense storage under all "
    "orderings and its dominance over every data access, growth alignment (every element append expands every attribute by "
    "the number of appended elements, through members that exist), no hand-out of the shared mutable default, sibling "
    "agreement of the accept/reject behaviour of the sparse and dense setters, cast table, expand/clear shape pairing. "
    "Structural necessary conditions only.")

RULES = {
    "C05-O1": "ArrayAttribute rejects key iff key < 0 or key >= n_elem, and the check dominates every access to the storage",
    "C05-G1": "every method that extends element storage calls attr._expand(k) for every attribute in the same block, k = number of appended elements, through resolvable members",
    "C05-A1": "the stored default is handed out for an absent key only if it cannot be mutable (elemsize == 1) or through a copy",
    "C05-A2": "the sparse storage keeps a fresh object per entry: a vector written into the dictionary never shares storage with the "
              "value the caller passed (nor, through it, with another entry)",
    "C05-D1": "the default of each attribute type is the zero / empty value of that type (vector defaults repeat it elemsize times); "
              "default_value is computed from (type, elemsize) when none was given",
    "C05-R1": "the dense read returns the scalar `_data[key, 0]` exactly when elemsize == 1 and the whole row otherwise; __len__ is n_elem / number of stored keys",
    "C05-S1": "sparse and dense __setitem__ have the same ordered (guard, exception) list and store the same values, bounds check apart",
    "C05-T1": "castable pairs are exactly reflexive + {(Bool,Int),(Bool,Float),(Int,Float)}",
    "C05-C1": "_expand adds n rows and n to n_elem; clear keeps (n_elem, elemsize); dense creation is sized by the container",
}


def run(ctx):
    o1_bounds(ctx)
    g1_growth(ctx)
    a1_default_alias(ctx)
    a2_stored_value_fresh(ctx)
    s1_siblings(ctx)
    t1_cast_table(ctx)
    c1_expand_clear(ctx)
    d1_defaults(ctx)
    r1_dense_read(ctx)


# ---------------------------------------------------------------------------- O1
def o1_bounds(ctx):
    repo = ctx.repo
    fn = repo.func(MA, "ArrayAttribute._check_out_of_bounds")
    site = ctx.site(MA, fn)
    ps = au.params(fn, skip_self=True)
    ifs = [st for st in fn.body if isinstance(st, ast.If)]
    if len(ps) != 1 or len(ifs) != 1 or not any(isinstance(s, ast.Raise) for s in ifs[0].body):
        ctx.fail("C05-O1", site, "_check_out_of_bounds is not a single `if <test>: raise` on its key", "")
        return
    key = ps[0]

    def s(node):
        if isinstance(node, ast.Name) and node.id == key:
            return "key"
        if au.is_self_attr(node, "n_elem"):
            return "n"
        raise order.Unsupported(au.src(node))
    try:
        w, n = order.compare(ifs[0].test, "key < 0 or key >= n", s)
    except order.Unsupported as e:
        ctx.fail("C05-O1", site, "bounds test uses an operand other than the key and self.n_elem", str(e))
        return
    ctx.check(w is None, "C05-O1", site,
              f"bounds test `{au.src(ifs[0].test)}` is not `key < 0 or key >= n_elem`",
              f"differs for {w}: the dense storage must report every index outside the container, the container's size included",
              note=f"{n} orderings")
    exc = [au.src(r.exc.func) for r in au.walk(ifs[0]) if isinstance(r, ast.Raise) and isinstance(r.exc, ast.Call)]
    ctx.check(any(x.endswith("OutOfBoundsError") for x in exc), "C05-O1", site, "out-of-bounds access does not raise OutOfBoundsError", "")
    # dominance: in __getitem__/__setitem__ every access to self._data is preceded on all paths by the check
    for name in ("__getitem__", "__setitem__"):
        f = repo.func(MA, "ArrayAttribute." + name)
        fs = ctx.site(MA, f)
        kp = au.params(f, skip_self=True)[0]
        bad = []

        def stmt(state, st, _kp=kp, _bad=bad):
            for n in au.walk_ordered(st) if not hasattr(st, "loop") else []:
                if isinstance(n, ast.Call) and isinstance(n.func, ast.Attribute) and au.is_self_attr(n.func, "_check_out_of_bounds") \
                        and n.args and au.src(n.args[0]) == _kp:
                    state = state | {"checked"}
                if isinstance(n, ast.Subscript) and au.is_self_attr(n.value, "_data") and "checked" not in state:
                    _bad.append(n)
            return state
        Flow(stmt, lambda s_, e: stmt(s_, ast.Expr(value=e))).run(f.body, frozenset())
        ctx.check(not bad, "C05-O1", fs, f"ArrayAttribute.{name} reaches self._data without the bounds check on its key",
                  "numpy would silently wrap a negative index / raise IndexError instead of OutOfBoundsError",
                  note=f"{name}: check dominates storage access")


# ---------------------------------------------------------------------------- G1
def _root(e):
    """strip list(...), ._data/._elem/._adj wrappers: returns the source of the root collection."""
    while True:
        if isinstance(e, ast.Call) and au.call_tail(e) in ("list", "tuple") and len(e.args) == 1:
            e = e.args[0]
        elif isinstance(e, ast.Attribute) and e.attr in ("_data", "_elem", "_adj"):
            e = e.value
        else:
            return au.src(e)


def _class_members(repo, modname, clsname):
    mod = repo.module(modname)
    cls = repo.cls(modname, clsname)
    names = set()
    for m, c in repo.mro(mod, cls):
        for st in c.body:
            if isinstance(st, ast.FunctionDef):
                names.add(st.name)
                for n in au.walk(st):
                    if au.is_self_attr(n) and isinstance(n.ctx, ast.Store):
                        names.add(n.attr)
            elif isinstance(st, (ast.Assign, ast.AnnAssign)):
                for t in au.assign_targets(st):
                    names.update(au.assigned_names(t))
    return names


def g1_growth(ctx):
    repo = ctx.repo
    n_sites = 0
    for clsname, storages in [("DataContainer", ("_data",)), ("CornerDataContainer", ("_elem", "_adj"))]:
        cls = repo.cls(DC, clsname)
        members = _class_members(repo, DC, clsname)
        for fn in [st for st in cls.body if isinstance(st, ast.FunctionDef) and st.name != "__init__"]:
            # growth statements of the primary storage
            grows = []
            for st in au.stmts(fn.body):
                if isinstance(st, ast.AugAssign) and au.is_self_attr(st.target, storages[0]) and isinstance(st.op, ast.Add):
                    grows.append((st, "len(%s)" % _root(st.value)))
                elif isinstance(st, ast.Expr) and isinstance(st.value, ast.Call) and au.call_tail(st.value) in ("append",) \
                        and isinstance(st.value.func, ast.Attribute) and au.is_self_attr(st.value.func.value, storages[0]):
                    loops = [a for a in au.ancestors(st) if isinstance(a, ast.For)]
                    if loops:
                        grows.append((loops[0], "len(%s)" % _root(loops[0].iter)))
                    else:
                        grows.append((st, "1"))
                elif isinstance(st, ast.Expr) and isinstance(st.value, ast.Call) and au.call_tail(st.value) == "extend" \
                        and isinstance(st.value.func, ast.Attribute) and au.is_self_attr(st.value.func.value, storages[0]):
                    grows.append((st, "len(%s)" % _root(st.value.args[0])))
            for gst, count in grows:
                n_sites += 1
                site = ctx.site(DC, fn, gst)
                blk, _ = au.enclosing_block(gst)
                exp = None
                for s in blk or []:
                    if isinstance(s, ast.For) and au.src(s.iter) in ("self._attr.values()",) and isinstance(s.target, ast.Name):
                        for c in au.calls(s):
                            if au.call_tail(c) == "_expand" and isinstance(c.func.value, ast.Name) and c.func.value.id == s.target.id \
                                    and len(c.args) == 1 and not au.guards(c, stop=s):
                                exp = c
                if exp is None:
                    ctx.fail("C05-G1", site, f"{clsname}.{fn.name}: element storage grows without `for attr in self._attr.values(): attr._expand(k)` in the same block",
                             "dense attributes would be shorter than their container after the append")
                    continue
                arg = exp.args[0]
                # canonical count of the expand argument
                if au.const(arg) == 1:
                    got = "1"
                elif isinstance(arg, ast.Call) and au.call_tail(arg) == "len" and arg.args:
                    got = "len(%s)" % _root(arg.args[0])
                elif isinstance(arg, ast.Attribute) and isinstance(arg.value, ast.Name):
                    # member access on the appended object: must resolve on the class it is narrowed to
                    narrowed = _narrowed_class(exp, arg.value.id)
                    if narrowed in ("DataContainer", "CornerDataContainer"):
                        mem = _class_members(repo, DC, narrowed)
                        if arg.attr not in mem:
                            ctx.fail("C05-G1", ctx.site(DC, fn, exp),
                                     f"{clsname}.{fn.name}: `_expand({au.src(arg)})` - {narrowed} has no member `{arg.attr}`",
                                     f"`c1 += c2` raises AttributeError as soon as c1 carries an attribute: neither container class "
                                     f"defines `{arg.attr}` (its size is len(c2))")
                            continue
                        got = "len(%s)" % arg.value.id if arg.attr == "size" else au.src(arg)
                    else:
                        got = au.src(arg)
                else:
                    got = au.src(arg)
                ctx.check(got == count, "C05-G1", ctx.site(DC, fn, exp),
                          f"{clsname}.{fn.name}: attributes are expanded by {au.src(arg)} while {count} element(s) are appended",
                          "every attribute must stay aligned with its container after an append",
                          note=f"append of {count} / expand {got}")
            # secondary storage grows with the primary (same block) - parallel arrays, see C02-P1
    ctx.require_count("C05-G1 growth sites", n_sites, 6)


def _narrowed_class(node, name):
    for t, pol in au.guards(node):
        if pol and isinstance(t, ast.Call) and au.call_tail(t) == "isinstance" and len(t.args) == 2 \
                and isinstance(t.args[0], ast.Name) and t.args[0].id == name and isinstance(t.args[1], ast.Name):
            return t.args[1].id
    return None


# ---------------------------------------------------------------------------- A1
def path_condition(node, fn):
    """[(test, polarity)] that hold whenever `node` executes: enclosing guards plus the negation of every
    preceding early exit (`if T: ... return/raise` without else) in the enclosing blocks."""
    from ..flow import always_terminates
    conds = list(au.guards(node, stop=fn))
    cur = au.enclosing_stmt(node)
    while cur is not None and cur is not fn:
        blk, owner = au.enclosing_block(cur)
        if blk is None:
            break
        for s in blk[:[id(x) for x in blk].index(id(cur))]:
            if isinstance(s, ast.If) and not s.orelse and always_terminates(s.body):
                conds.append((s.test, False))
        cur = owner
    return conds


def a1_default_alias(ctx):
    fn = ctx.repo.func(MA, "Attribute.__getitem__")
    site = ctx.site(MA, fn)
    b = sym.Bindings(fn)

    def is_default(e):
        return au.is_self_attr(e, "default_value") or au.is_self_attr(e, "_default_value")

    def symf(node):
        if au.is_self_attr(node, "elemsize"):
            return "e"
        r = b.resolve(node, at=node)
        if isinstance(r, ast.Call) and au.call_tail(r) == "isinstance" and len(r.args) == 2 and is_default(b.resolve(r.args[0], at=node)) \
                and au.src(r.args[1]).split(".")[-1] in ("ndarray", "Vec"):
            return "arr"
        return au.src(node)
    rets = [st for st in au.stmts(fn.body) if isinstance(st, ast.Return) and st.value is not None]
    n = 0
    for r in rets:
        v = b.resolve(r.value, at=r)
        if not any(is_default(x) for x in au.walk(v)):
            continue
        n += 1
        fresh = isinstance(v, ast.Call) and au.call_tail(v) in ("copy", "deepcopy", "array")
        if fresh:
            ctx.ok("C05-A1", ctx.site(MA, fn, r), "default handed out through a copy")
            continue
        conds = path_condition(r, fn)
        pred = order.Pred(symf)
        usable = []
        for t, pol in conds:
            try:
                pred.collect(t)
                usable.append((t, pol))
            except order.Unsupported:
                pass  # a condition the domain cannot express is dropped (weaker path condition: sound for alarms only if
                      # the remaining conditions already exclude the bad case, which is what is checked)
        conds = usable
        pred.symbols.update({"e", "?arr"})
        pred.consts.add(1)
        witness = None
        for env in order.envs(pred.symbols, pred.consts):
            if env["e"] < 1 or env["e"] != int(env["e"]):
                continue
            holds = all(bool(pred.eval(t, env)) == pol for t, pol in conds)
            if holds and not (env["e"] == 1 or not env["?arr"]):
                witness = {k: v_ for k, v_ in env.items() if k in ("e", "?arr")}
                break
        ctx.check(witness is None, "C05-A1", ctx.site(MA, fn, r),
                  "Attribute.__getitem__ hands out the stored default object for every absent key, vector defaults included",
                  "for elemsize > 1 the default is one shared Vec: `attr[i] += v` on an absent i mutates it, and every other absent "
                  f"key then reads the changed value (un-copied return reachable with elemsize={witness and witness['e']}, default an array)",
                  note="default returned un-copied only when it cannot be a mutable array")
    if n == 0:
        ctx.fail("C05-A1", site, "Attribute.__getitem__ no longer returns the default for absent keys", "an attribute must be a total map")
    # the lookup itself: `if key in self._data: return self._data[key]`
    ok = any(isinstance(st, ast.If) and isinstance(st.test, ast.Compare) and isinstance(st.test.ops[0], ast.In)
             and au.is_self_attr(st.test.comparators[0], "_data") and any(isinstance(s, ast.Return) and isinstance(s.value, ast.Subscript)
             and au.is_self_attr(s.value.value, "_data") and au.same(s.value.slice, st.test.left) for s in st.body) for st in fn.body)
    ctx.check(ok, "C05-A1", site, "Attribute.__getitem__ does not return the stored value of a present key", "")


# ---------------------------------------------------------------------------- S1
def _raise_summary(fn, skip_calls=("_check_out_of_bounds",)):
    key, val = au.params(fn, skip_self=True)[:2]
    ren = {key: "KEY", val: "VALUE"}
    out, stores = [], []

    def n(e):
        return au.norm(sym.subst(e, {k: ast.Name(id=v, ctx=ast.Load()) for k, v in ren.items()}))
    b = sym.Bindings(fn)
    for st in au.stmts(fn.body):
        if isinstance(st, ast.Raise) and st.exc is not None:
            gs = [(n(b.resolve(t, at=st)), pol) for t, pol in au.guards(st, stop=fn)]
            exc = au.src(st.exc.func) if isinstance(st.exc, ast.Call) else au.src(st.exc)
            out.append((tuple(gs), exc.split(".")[-1]))
        if isinstance(st, ast.Assign) and isinstance(st.targets[0], ast.Subscript) and au.is_self_attr(st.targets[0].value, "_data"):
            gs = [(n(t), pol) for t, pol in au.guards(st, stop=fn)]
            stores.append((tuple(gs), n(st.targets[0].slice), n(b.resolve(st.value, at=st))))
    return out, stores


def s1_siblings(ctx):
    repo = ctx.repo
    a = repo.func(MA, "Attribute.__setitem__")
    d = repo.func(MA, "ArrayAttribute.__setitem__")
    ra, sa = _raise_summary(a)
    rd, sd = _raise_summary(d)
    site = ctx.site(MA, d)
    ctx.check(ra == rd and len(ra) >= 3, "C05-S1", site,
              "sparse and dense __setitem__ reject different values (ordered (guard, exception) lists differ)",
              f"sparse: {[(len(g), e) for g, e in ra]} dense: {[(len(g), e) for g, e in rd]} - both storages must accept and reject "
              f"the same values (bool->int->float widening only, exact arity)", note=f"{len(ra)} rejecting paths agree")
    ctx.check(sa == sd and len(sa) >= 2, "C05-S1", site,
              "sparse and dense __setitem__ store different values for the same input", "both storages must hold the same answers")
    # both must consult the cast table with (value type, attribute type) in that order
    for fn in (a, d):
        cs = [c for c in au.calls(fn) if au.call_tail(c) == "_can_be_casted"]
        ok = len(cs) >= 2 and all(len(c.args) == 2 and au.is_self_attr(c.args[1], "type") for c in cs)
        ctx.check(ok, "C05-S1", ctx.site(MA, fn), f"{fn.name}: cast check is not _can_be_casted(type of value, self.type) on both arities",
                  "widening is only allowed from the value's type to the attribute's type")


# ---------------------------------------------------------------------------- T1
def t1_cast_table(ctx):
    fn = ctx.repo.func(MA, "_BaseAttribute._can_be_casted")
    site = ctx.site(MA, fn)
    ps = au.params(fn)
    pairs = None
    for n in au.walk(fn):
        if isinstance(n, ast.Set) and n.elts and all(isinstance(e, ast.Tuple) and len(e.elts) == 2 for e in n.elts):
            pairs = {tuple(au.src(x).split(".")[-1] for x in e.elts) for e in n.elts}
    want = {("Bool", "Int"), ("Bool", "Float"), ("Int", "Float")}
    ctx.check(pairs == want, "C05-T1", site, f"cast table is {sorted(pairs) if pairs else None}",
              f"only bool->int->float widening is allowed: expected {sorted(want)}", note="cast table")
    refl = any(isinstance(st, ast.If) and isinstance(st.test, ast.Compare) and isinstance(st.test.ops[0], ast.Eq)
               and {au.src(st.test.left), au.src(st.test.comparators[0])} == set(ps[:2])
               and isinstance(st.body[0], ast.Return) and au.const(st.body[0].value) is True for st in fn.body)
    ctx.check(refl, "C05-T1", site, "identical types are no longer accepted first", "")
    rets = [st for st in fn.body if isinstance(st, ast.Return)]
    ok = rets and isinstance(rets[-1].value, ast.Compare) and isinstance(rets[-1].value.ops[0], ast.In) \
        and isinstance(rets[-1].value.left, ast.Tuple) and [au.src(x) for x in rets[-1].value.left.elts] == ps[:2]
    ctx.check(bool(ok), "C05-T1", site, "cast decision is not `(ta, tb) in casts` in (from, to) order",
              "swapping the pair would allow float -> int narrowing")


# ---------------------------------------------------------------------------- C1
def c1_expand_clear(ctx):
    repo = ctx.repo
    fn = repo.func(MA, "ArrayAttribute._expand")
    site = ctx.site(MA, fn)
    n = au.params(fn, skip_self=True)[0]
    rows = None
    for c in au.calls(fn):
        if au.call_tail(c) == "full" and c.args and isinstance(c.args[0], ast.Tuple) and len(c.args[0].elts) == 2:
            rows = (au.src(c.args[0].elts[0]), au.src(c.args[0].elts[1]), au.src(c.args[1]) if len(c.args) > 1 else None)
    ctx.check(rows is not None and rows[0] == n and rows[1] == "self.elemsize" and rows[2] == "self.default_value", "C05-C1", site,
              f"_expand adds a block of shape/value {rows} instead of ({n}, self.elemsize) filled with the default",
              "new elements must read the default value")
    inc = [st for st in fn.body if isinstance(st, ast.AugAssign) and au.is_self_attr(st.target, "n_elem")
           and isinstance(st.op, ast.Add) and au.src(st.value) == n]
    ctx.check(len(inc) == 1, "C05-C1", site, "_expand does not add n to self.n_elem exactly once",
              "the bounds check would reject the new elements (or accept too many)")
    cat = [c for c in au.calls(fn) if au.call_tail(c) == "concatenate"]
    ok = len(cat) == 1 and isinstance(cat[0].args[0], (ast.Tuple, ast.List)) and au.is_self_attr(cat[0].args[0].elts[0], "_data")
    ctx.check(bool(ok), "C05-C1", site, "_expand does not append the new rows after the existing ones", "existing values must be kept in place")
    fn = repo.func(MA, "ArrayAttribute.clear")
    site = ctx.site(MA, fn)
    shape = None
    for c in au.calls(fn):
        if au.call_tail(c) == "full" and c.args and isinstance(c.args[0], ast.Tuple):
            shape = [au.src(x) for x in c.args[0].elts] + [au.src(c.args[1]) if len(c.args) > 1 else None]
    touches_n = any(au.is_self_attr(t, "n_elem") for st in au.stmts(fn.body) for t in au.assign_targets(st))
    ctx.check(shape == ["self.n_elem", "self.elemsize", "self.default_value"] and not touches_n, "C05-C1", site,
              f"ArrayAttribute.clear rebuilds storage of shape/value {shape} (or changes n_elem)",
              "after clear every index of the container must read the default")
    fn = repo.func(MA, "Attribute.clear")
    ok = any(isinstance(st, ast.Assign) and au.is_self_attr(st.targets[0], "_data") and
             (isinstance(st.value, ast.Dict) and not st.value.keys or au.src(st.value) == "dict()") for st in fn.body)
    ctx.check(ok, "C05-C1", ctx.site(MA, fn), "Attribute.clear does not empty the dictionary", "")
    # dense creation sized by the container
    fn = repo.func(DC, "_BaseDataContainer.create_attribute")
    ok = False
    for c in au.calls(fn):
        if au.call_tail(c) == "ArrayAttribute" and len(c.args) >= 2:
            a = c.args[1]
            if isinstance(a, ast.IfExp):
                ok = au.src(a.body) == "len(self)" and au.src(a.test) == "size is None"
            else:
                ok = au.src(a) == "len(self)"
    ctx.check(ok, "C05-C1", ctx.site(DC, fn), "dense attributes are not created with the container's current size", "")
    # sparse export: full(container_size, default) then every stored item written at its index
    fn = repo.func(MA, "Attribute.as_array")
    site = ctx.site(MA, fn)
    ok = False
    for st in au.stmts(fn.body):
        if isinstance(st, ast.For) and au.src(st.iter) == "self._data.items()" and isinstance(st.target, ast.Tuple):
            i, x = (e.id for e in st.target.elts)
            ok = any(isinstance(s, ast.Assign) and isinstance(s.targets[0], ast.Subscript) and au.src(s.value) == x
                     and au.src(s.targets[0].slice.elts[0] if isinstance(s.targets[0].slice, ast.Tuple) else s.targets[0].slice) == i
                     for s in st.body)
    full = [c for c in au.calls(fn) if au.call_tail(c) == "full"]
    ok = ok and len(full) == 1 and len(full[0].args) >= 2 and au.src(full[0].args[1]) == "self.default_value"
    ctx.check(ok, "C05-C1", site, "sparse as_array is not `full(default)` overwritten by every stored item at its index",
              "array export of the sparse storage must give the same answers as reading entry by entry")


# ---------------------------------------------------------------------------- A2
def a2_stored_value_fresh(ctx):
    from ..rules import alias
    fr = alias.Freshness(ctx.repo)
    fn = ctx.repo.func(MA, "Attribute.__setitem__")
    site = ctx.site(MA, fn)
    key, val = au.params(fn, skip_self=True)[:2]
    b = sym.Bindings(fn)
    n = 0
    for st in au.stmts(fn.body):
        if isinstance(st, ast.Assign) and isinstance(st.targets[0], ast.Subscript) and au.is_self_attr(st.targets[0].value, "_data"):
            # only the vector branch can hold a mutable object (scalars are immutable python values)
            vector_branch = any(pol and "elemsize" in au.src(t) for t, pol in au.guards(st, stop=fn))
            if not vector_branch:
                continue
            n += 1
            v = b.resolve(st.value, at=st, keep=(val,))
            shares = fr.aliases(v) & {val}
            # IfExp / nested: any branch aliasing the parameter
            for sub in au.walk(v):
                if isinstance(sub, ast.IfExp):
                    shares |= (fr.aliases(sub.body) | fr.aliases(sub.orelse)) & {val}
            ctx.check(not shares and fr.is_fresh(v), "C05-A2", ctx.site(MA, fn, st),
                      f"sparse __setitem__ stores `{au.src(st.value)}`, which may share storage with the value passed by the caller",
                      "Vec(x) / np.asarray(x) of an array are views: writing the same array at two indices (or attr[j] = attr[i]) and "
                      "then updating one entry in place changes the other; the dense storage copies, so sparse and dense disagree",
                      note="stored vector rebuilt from a list of scalars")
    ctx.check(n >= 1, "C05-A2", site, "sparse __setitem__ no longer has a vector branch storing into self._data", "")


# ---------------------------------------------------------------------------- D1
def d1_defaults(ctx):
    repo = ctx.repo
    fn = repo.func(MA, "_BaseAttribute.Type.default_value")
    site = ctx.site(MA, fn)
    n = au.params(fn, skip_self=True)[0]
    want = {"Bool": False, "Int": 0, "Float": 0.0, "Complex": 0j, "String": ""}
    got = {}
    scalar_branch = None
    for st in fn.body:
        if isinstance(st, ast.If) and isinstance(st.test, ast.Compare) and au.src(st.test.left) == n and au.const(st.test.comparators[0]) == 1 \
                and isinstance(st.test.ops[0], ast.Eq):
            scalar_branch = st
    if scalar_branch is None:
        ctx.fail("C05-D1", site, "default_value no longer separates the scalar case n == 1", "")
        return
    for st in scalar_branch.body:
        if isinstance(st, ast.If) and isinstance(st.test, ast.Compare) and isinstance(st.test.ops[0], ast.Eq) and len(st.body) == 1 \
                and isinstance(st.body[0], ast.Return):
            tname = au.src(st.test.comparators[0]).split(".")[-1]
            v = st.body[0].value
            val = None
            if isinstance(v, ast.Constant):
                val = v.value
            elif isinstance(v, ast.Call) and isinstance(v.func, ast.Name) and v.func.id in ("int", "float", "complex", "bool", "str"):
                args = [au.const(a) for a in v.args]
                if None not in args:
                    val = {"int": int, "float": float, "complex": complex, "bool": bool, "str": str}[v.func.id](*args)
            got[tname] = val
    ok = set(got) == set(want) and all(type(got[k]) is type(want[k]) and got[k] == want[k] for k in want)
    ctx.check(ok, "C05-D1", site, f"scalar defaults per type are {got}", f"expected the zero / empty value of each type: {want}", note="5 type defaults")
    rets = [st for st in fn.body if isinstance(st, ast.Return)]
    okv = bool(rets) and isinstance(rets[-1].value, ast.Call) and au.call_tail(rets[-1].value) == "Vec" and rets[-1].value.args \
        and au.src(rets[-1].value.args[0]).replace(" ", "") == f"[self.default_value(1)]*{n}"
    ctx.check(okv, "C05-D1", site, "vector default is not the scalar default repeated n times", "", note="vector default = n copies")
    fn = repo.func(MA, "_BaseAttribute.default_value")
    ok = False
    for st in fn.body:
        if isinstance(st, ast.If) and au.src(st.test) == "self._default_value is None":
            ok = any(isinstance(s_, ast.Assign) and au.is_self_attr(s_.targets[0], "_default_value")
                     and au.src(s_.value) == "self.type.default_value(self.elemsize)" for s_ in st.body)
    r = [st for st in fn.body if isinstance(st, ast.Return)]
    ok = ok and bool(r) and au.src(r[-1].value) == "self._default_value"
    ctx.check(ok, "C05-D1", ctx.site(MA, fn), "default_value property is not `the given default, else type.default_value(elemsize)`", "",
              note="default from (type, elemsize)")


# ---------------------------------------------------------------------------- R1
def r1_dense_read(ctx):
    repo = ctx.repo
    fn = repo.func(MA, "ArrayAttribute.__getitem__")
    site = ctx.site(MA, fn)
    key = au.params(fn, skip_self=True)[0]
    rets = [st for st in fn.body if isinstance(st, ast.Return)]
    ok = False
    if len(rets) == 1:
        v = rets[0].value
        cases = None
        if isinstance(v, ast.IfExp):
            cases = (v.test, v.body, v.orelse)
        if cases:
            t, a, b = cases
            try:
                pred = order.Pred(lambda node: "e" if au.is_self_attr(node, "elemsize") else (_ for _ in ()).throw(order.Unsupported("x")))
                truth = [bool(pred.eval(t, {"e": e})) for e in (1, 2, 3, 4)]   # elemsize is a positive count
            except order.Unsupported:
                truth = None
            w_eq = True
            if truth == [True, False, False, False]:
                w_eq = None
            elif truth == [False, True, True, True]:
                a, b = b, a
                w_eq = None
            scalar = au.src(a).replace(" ", "") == f"self._data[{key},0]"
            row = au.src(b).replace(" ", "") in (f"self._data[{key},:]", f"self._data[{key}]")
            ok = w_eq is None and scalar and row
    ctx.check(ok, "C05-R1", site, "dense __getitem__ is not `_data[key, 0] if elemsize == 1 else _data[key, :]`",
              "a scalar attribute must read back the scalar that was written, a vector attribute the whole vector - like the sparse storage",
              note="scalar iff elemsize == 1")
    fn = repo.func(MA, "ArrayAttribute.__len__")
    r = [st for st in fn.body if isinstance(st, ast.Return)]
    ctx.check(bool(r) and au.src(r[0].value) == "self.n_elem", "C05-R1", ctx.site(MA, fn), "len(dense attribute) is not n_elem", "")
