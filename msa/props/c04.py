"""C04 - save/load is lossless within each format's vocabulary (reader/writer agreement, structural)."""
from __future__ import annotations
import ast
from .. import au, sym
from ..core import AnalysisError
from ..rules import codec_c04 as cc
from ..rules import c04_formats as ff
from ..rules.c04_formats import IOMOD, EXPORT, BASE, GEO, ATTR

IO = "mesh.io.io"
MESH = "mesh.mesh"
EXPLANATION = (
    "Static reader/writer agreement of the mesh codecs in mouette/mesh/io: the tables each exporter and importer "
    "implement (extension dispatch, section keywords / tags, element kind and arity per block, index base, header "
    "counts, geogram chunk header layout and names, attribute type table) are extracted by role from the current "
    "AST and compared pairwise; text float formatting and vertex order preservation are checked on every writer. "
    "Decides structural necessary conditions only; no file is written or parsed.")

RULES = {
    "C04-X1": "read_by_extension and write_by_extension have the same key set, normalise the extension identically and pair "
              "import_K / export_K from the same module; load/save route through them; the class table of "
              "_instanciate_raw_mesh_data maps dimension 0..3 to PointCloud/PolyLine/SurfaceMesh/VolumeMesh; save() prepares the cell "
              "adjacency exactly for (VolumeMesh, geogram file) and empties a container only when its kind is in ignore_elements",
    "C04-B1": "the offset a writer adds to every vertex index is the index base of the format and the reader subtracts the same",
    "C04-E1": "for each (keyword|tag, element kind) the arity the writer emits equals the arity the reader parses, the reader "
              "appends to the kind the writer iterated, and every keyword/tag/chunk name written is one the reader recognises",
    "C04-H1": "every count written in a header is the number of rows written after it and is consumed by the reader for the "
              "same block, in the same position",
    "C04-V1": "no sorted/reversed/keyify/set/[::-1] is applied to face or cell rows inside mesh/io/* (edges may be keyified)",
    "C04-L1": "every coordinate written by a text exporter is rendered with an empty format spec (str / '{}' / bare f-string) "
              "and parsed back with float()",
    "C04-A1": "attribute type table: from_string(quote(to_string(T))) == T and byte_size(T) is an int for every member T; "
              "Bool values are written through int() (the reader parses bool(int())), Int/Float values never are",
    "C04-C1": "every element kind a format can express is written under conditions (dimensionality, completion switches, "
              "container emptiness, hard-edge flag) that cover every mesh state in which a load would not regenerate it: all "
              "edges of a polyline or when edges are not completed from faces, at least the declared (hard) edges otherwise",
    "C04-G1": "geogram [ATTR] chunk: the header field written on line i is the one the reader takes from line i, the payload "
              "is dense (one group of `arity` values per element, element-major) and indexed with the same stride; the importer stores "
              "every group unfiltered (arity > 1) or the scalar (arity 1); *_ptr size chunks: exporter writes the running corner offset "
              "exactly when some element departs from the importer's default size, importer takes consecutive differences; every "
              "attribute of a container is exported",
}

ASSUMPTIONS = [
    "index bases and section keywords are those of the published formats (obj/medit 1-based, off/tet/geogram 0-based)",
    "str(x) / '{}'.format(x) of a Python float or numpy float64 is the shortest round-tripping repr (CPython / numpy semantics)",
]


def run(ctx):
    x1_dispatch(ctx)
    x1_load_save(ctx)
    a1_type_table(ctx)
    ff.run_formats(ctx)


# ----------------------------------------------------------------------- C04-X1
def _dispatch_table(ctx, fname):
    fn = ctx.repo.func(IO, fname)
    site = ctx.site(IO, fn)
    b = sym.Bindings(fn)
    for n in au.walk(fn):
        # {...}.get(KEY, default)  or  {...}[KEY]
        d, key = None, None
        if isinstance(n, ast.Call) and isinstance(n.func, ast.Attribute) and n.func.attr == "get" and n.args:
            d, key = n.func.value, n.args[0]
        elif isinstance(n, ast.Subscript) and isinstance(n.ctx, ast.Load):
            d, key = n.value, n.slice
        if d is None:
            continue
        if isinstance(d, ast.Name):
            d = b.reaching(d.id, n) or d
        if isinstance(d, ast.Dict) and d.keys and all(isinstance(k, ast.Constant) and isinstance(k.value, str) for k in d.keys):
            return fn, site, d, key, n, b
    return fn, site, None, None, None, b


def x1_dispatch(ctx):
    repo = ctx.repo
    tabs = {}
    for fname in ("read_by_extension", "write_by_extension"):
        fn, site, d, key, node, b = _dispatch_table(ctx, fname)
        if d is None:
            ctx.fail("C04-X1", site, f"{fname}: extension -> function table not found",
                     "the dispatch is a dict literal keyed by extension")
            return
        ps = au.params(fn)
        fparam = ps[-1] if fname.startswith("write") else ps[0]
        keyn = au.src(cc.subst(cc.resolve(b, key, at=node), {fparam: ast.Name(id="FILE", ctx=ast.Load())}))
        entries = {}
        for k, v in zip(d.keys, d.values):
            r = repo.resolve(IO, v.id) if isinstance(v, ast.Name) else None
            entries[k.value] = (v, r)
        tabs[fname] = (fn, site, entries, keyn, node, b, fparam)
    (rfn, rsite, rtab, rkey, rnode, rb, rfile), (wfn, wsite, wtab, wkey, wnode, wb, wfile) = \
        tabs["read_by_extension"], tabs["write_by_extension"]
    ff.floor(ctx, "C04-X1 dispatch entries", min(len(rtab), len(wtab)), 6, wsite)
    ctx.check(rkey == wkey, "C04-X1", wsite, f"extension key is `{wkey}` when writing but `{rkey}` when reading",
              "a file name accepted by save() must select the same format in load() (e.g. upper-case extensions)",
              note=f"both tables are looked up with {rkey}")
    for ext in sorted(set(rtab) | set(wtab)):
        if ext not in rtab or ext not in wtab:
            miss = "read_by_extension" if ext not in rtab else "write_by_extension"
            ctx.fail("C04-X1", rsite if ext not in rtab else wsite, f"extension '{ext}' missing from {miss}",
                     f"a '.{ext}' file can be {'written but not loaded' if ext not in rtab else 'loaded but not saved'}")
            continue
        (rv, rr), (wv, wr) = rtab[ext], wtab[ext]
        ok = bool(rr and wr and rr[0] == "def" and wr[0] == "def" and rr[1] == wr[1]
                  and rr[2].startswith("import_") and wr[2].startswith("export_")
                  and rr[2][len("import_"):] == wr[2][len("export_"):])
        ctx.check(ok, "C04-X1", wsite,
                  f"extension '{ext}' is read by {au.src(rv)} but written by {au.src(wv)}",
                  f"'{ext}': importer resolves to {rr}, exporter to {wr}; a file saved under this extension is parsed by the "
                  f"codec of another format", note=f"'{ext}' -> {au.src(rv)} / {au.src(wv)} from one module")
    # the selected function is applied to (filename) / (mesh, filename) and the reader returns its result
    def selected_calls(fn, node, b):
        names = set()
        st = au.enclosing_stmt(node)
        for t in au.assign_targets(st):
            names |= set(au.assigned_names(t))
        return [c for c in au.calls(fn) if isinstance(c.func, ast.Name) and c.func.id in names]
    rc = selected_calls(rfn, rnode, rb)
    ok = len(rc) == 1 and [au.src(a) for a in rc[0].args] == [rfile] and not rc[0].keywords
    if ok:
        ret = [s for s in au.stmts(rfn.body) if isinstance(s, ast.Return) and s.value is not None]
        keep = tuple({rc[0].func.id} | set(au.params(rfn)))
        ok = bool(ret) and all(au.same(cc.resolve(rb, s.value, at=s, keep=keep), rc[0]) for s in ret)
    ctx.check(ok, "C04-X1", rsite, "read_by_extension does not return import_fun(filename)",
              "the parsed data of the selected importer must be what load() receives")
    wc = selected_calls(wfn, wnode, wb)
    wps = au.params(wfn)
    ok = len(wc) == 1 and [au.src(a) for a in wc[0].args] == wps[:2] and not wc[0].keywords
    ctx.check(ok, "C04-X1", wsite, "write_by_extension does not call export_fun(mesh, filename)",
              "every exporter takes (mesh, path) in this order")
    for ext, (wv, wr) in sorted(wtab.items()):
        if wr and wr[0] == "def":
            efn = repo.modules[wr[1]].funcs.get(wr[2])
            if efn is not None:
                ctx.check(len(au.params(efn)) == 2, "C04-X1", ctx.site(wr[1], efn),
                          f"{wr[2]} does not take exactly (mesh, path)", "write_by_extension calls export_fun(mesh, filename)")


def x1_load_save(ctx):
    repo = ctx.repo
    # load: data = read_by_extension(filename) -> _instanciate_raw_mesh_data(data, dim)
    fn = repo.func(MESH, "load")
    site = ctx.site(MESH, fn)
    b = sym.Bindings(fn)
    ps = au.params(fn)
    inst = [c for c in au.calls(fn) if au.call_tail(c) == "_instanciate_raw_mesh_data"]
    ok = False
    if inst and inst[0].args:
        a0 = cc.resolve(b, inst[0].args[0], at=inst[0])
        ok = isinstance(a0, ast.Call) and au.call_tail(a0) == "read_by_extension" and \
            [au.src(x) for x in a0.args] == ps[:1]
    ctx.check(ok, "C04-X1", site, "load does not build the mesh from read_by_extension(filename)",
              "load(filename) must parse the file it was given")
    fn = repo.func(MESH, "save")
    site = ctx.site(MESH, fn)
    b = sym.Bindings(fn)
    ps = au.params(fn)
    wr = [c for c in au.calls(fn) if au.call_tail(c) == "write_by_extension"]
    ok = False
    if len(wr) == 1 and len(wr[0].args) == 2:
        a0 = cc.resolve(b, wr[0].args[0], at=wr[0])
        ok = isinstance(a0, ast.Call) and au.call_tail(a0) == "RawMeshData" and [au.src(x) for x in a0.args] == ps[:1] \
            and au.src(wr[0].args[1]) == ps[1] and not au.guards(wr[0])
    ctx.check(ok, "C04-X1", site, "save does not call write_by_extension(RawMeshData(mesh), filename) unconditionally",
              "save(mesh, filename) must write the mesh it was given to the file it was given")
    # class table
    fn = repo.func(MESH, "_instanciate_raw_mesh_data")
    site = ctx.site(MESH, fn)
    ps = au.params(fn)
    want = {0: "PointCloud", 1: "PolyLine", 2: "SurfaceMesh", 3: "VolumeMesh"}
    dimname = ps[1] if len(ps) > 1 else None
    got = {}
    for k in want:
        for st in au.stmts(fn.body):
            if isinstance(st, ast.If) and cc.is_chain_head(st):
                hit = None
                for test, body in cc.if_chain(st):
                    v = True if test is None else cc.eval_test(test, {dimname: k})
                    if v is None:
                        hit = None
                        break
                    if v:
                        hit = body
                        break
                if hit:
                    for s in hit:
                        if isinstance(s, ast.Return) and isinstance(s.value, ast.Call):
                            got.setdefault(k, (au.call_tail(s.value), [au.src(a) for a in s.value.args]))
    for k, cls in want.items():
        g = got.get(k)
        ctx.check(g is not None and g[0] == cls and g[1] == ps[:1], "C04-X1", site,
                  f"dimension {k} is instantiated as {g[0] if g else 'nothing'} instead of {cls}",
                  f"a loaded file whose content has dimensionality {k} must come back as a {cls}",
                  note=f"dim {k} -> {cls}")
    # the dimension used is at least the dimensionality of the data
    dep = False
    for st in au.stmts(fn.body):
        if isinstance(st, ast.Assign) and dimname in au.assigned_names(st.targets[0]) and isinstance(st.value, ast.Call) \
                and au.call_tail(st.value) == "max" and any(au.src(a) == f"{ps[0]}.dimensionality" for a in st.value.args) \
                and any(au.src(a) == dimname for a in st.value.args):
            dep = True
    ctx.check(dep, "C04-X1", site, "class selection does not use max(dim, mesh_data.dimensionality)",
              "the loaded object must have the class its content implies")


# ----------------------------------------------------------------------- C04-A1
def a1_type_table(ctx):
    repo = ctx.repo
    cls = repo.cls(ATTR, "_BaseAttribute.Type")
    fold = cc.Folder(cls)
    members = fold.members
    ff.floor(ctx, "C04-A1 attribute types", len(members), 3, ctx.site(ATTR, "_BaseAttribute.Type"))
    wfn, roles, n_lines, _hdr = ff.writer_type_fields(repo)
    wsite = ctx.site(GEO, wfn)
    if not roles or "to_string" not in roles or "byte_size" not in roles:
        ctx.fail("C04-A1", wsite, "export_attribute: [ATTR] header with type name and byte size not found",
                 "the attribute chunk header carries the type name and element byte size")
        return
    quoted = roles["to_string"][1]
    q = '"' if quoted else ""
    # reader applies int() to the byte-size line?
    chunk_init = repo.func(GEO, "Chunk.__init__")
    bs_line = roles["byte_size"][0]
    data_param = au.params(chunk_init, skip_self=True)[0]
    int_lines = set()
    for c in au.calls(chunk_init):
        if isinstance(c.func, ast.Name) and c.func.id == "int" and len(c.args) == 1 and isinstance(c.args[0], ast.Subscript) \
                and isinstance(c.args[0].value, ast.Name) and c.args[0].value.id == data_param:
            k = au.const(c.args[0].slice)
            if isinstance(k, int) and any(isinstance(t, ast.Compare) and "ATTR" in au.src(t) for t, pol in au.guards(c) if pol):
                int_lines.add(k)
    bytes_parsed_as_int = bs_line in int_lines
    fsite = ctx.site(ATTR, repo.func(ATTR, "_BaseAttribute.Type.from_string"))
    bsite = ctx.site(ATTR, repo.func(ATTR, "_BaseAttribute.Type.byte_size"))
    ctx.site(ATTR, repo.func(ATTR, "_BaseAttribute.Type.to_string"))
    for name, T in sorted(members.items()):
        try:
            s = fold.call("to_string", T)
        except cc.Raised as ex:
            ctx.fail("C04-A1", fsite, f"to_string({name}) raises", str(ex))
            continue
        except cc.Unfoldable as ex:
            ctx.fail("C04-A1", fsite, "to_string is no longer a constant-foldable table", f"cannot fold: {ex}")
            return
        if not isinstance(s, str):
            ctx.fail("C04-A1", fsite, f"to_string({name}) is not a string", f"folded value {s!r}")
            continue
        try:
            back = fold.call("from_string", q + s + q)
            why = f"from_string({q + s + q!r}) gives {back}"
        except cc.Raised as ex:
            back, why = None, f"from_string({q + s + q!r}) raises ({ex})"
        except cc.Unfoldable as ex:
            ctx.fail("C04-A1", fsite, "from_string is no longer a constant-foldable table", f"cannot fold: {ex}")
            return
        ctx.check(back == T, "C04-A1", fsite,
                  f"from_string does not map the written type name {q + s + q} back to {name}",
                  f"export_attribute writes the type of a {name} attribute as {q + s + q}; {why}: the attribute cannot be "
                  f"reloaded with its type", note=f"{name} -> {q + s + q} -> {name}")
        try:
            bs = fold.call("byte_size", T)
        except cc.Raised as ex:
            bs = None
        except cc.Unfoldable as ex:
            ctx.fail("C04-A1", bsite, "byte_size is no longer a constant-foldable table", f"cannot fold: {ex}")
            return
        ok = isinstance(bs, int) and not isinstance(bs, bool) and bs > 0
        ctx.check(ok or not bytes_parsed_as_int, "C04-A1", bsite, f"byte_size({name}) is {bs!r}, not an integer",
                  f"export_attribute writes `{bs}` on header line {bs_line} of the chunk of a {name} attribute and the reader "
                  f"applies int() to that line: a mesh carrying a {name} attribute cannot be reloaded",
                  note=f"byte_size({name}) = {bs}")
