"""C04 - save/load is lossless within each format's vocabulary (reader/writer agreement, structural)."""
from __future__ import annotations
import ast
from .. import au, sym
from ..core import AnalysisError
from ..rules import codec_c04 as cc
from ..rules import c04_formats as ff
from ..rules import hc_flat, hc_eval as hv, hc_geo, hc_text
from ..rules.c04_formats import IOMOD, EXPORT, BASE, GEO, ATTR

IO = "mesh.io.io"
MESH = "mesh.mesh"
EXPLANATION = (
    "Static reader/writer agreement of the mesh codecs in mouette/mesh/io.  Every exporter / importer is first flattened (helper "
    "functions, nested defs and lambdas inlined, loops over literal tables unrolled, module constants substituted); the text an "
    "exporter emits is then computed as a tree (literals, rendered values, repetitions, alternatives) by abstract interpretation of "
    "its statements, whatever way the text is assembled (write / writelines / print / join / format / f-strings / accumulators), and "
    "the rows an importer stores are modelled with their token positions, conversions and guards.  The tables both sides implement "
    "(extension dispatch, section keywords / tags, element kind and arity per block, index base, header counts, geogram chunk header "
    "layout and names, attribute type table, emission conditions) are compared pairwise; index sets of small loader loops and the class "
    "table are obtained by evaluating the extracted fragment over abstract tokens.  A construct the models do not read gives an "
    "UNDECIDED obligation (exit 2), never a violation.  Structural necessary conditions only; no file is written or parsed, no "
    "repository code is imported or run.")

RULES = {
    "C04-X1": "read_by_extension and write_by_extension have the same key set, normalise the extension identically and pair "
              "import_K / export_K from the same module; load/save route through them; the class table of "
              "_instanciate_raw_mesh_data maps dimension 0..3 to PointCloud/PolyLine/SurfaceMesh/VolumeMesh; save() prepares the cell "
              "adjacency exactly for (VolumeMesh, geogram file) and empties a container only when its kind is in ignore_elements",
    "C04-B1": "the offset a writer adds to every vertex index is the index base of the format and the reader subtracts the same",
    "C04-E1": "for each (keyword|tag, element kind) the arity the writer emits equals the arity the reader parses, the reader "
              "appends to the kind the writer iterated, and every keyword/tag/chunk name written is one the reader recognises",
    "C04-H1": "every count written in a header is the number of rows written after it and is consumed by the reader for the "
              "same block, in the same position",
    "C04-V1": "no sorted/reversed/keyify/set/[::-1] is applied to face or cell rows inside mesh/io/* (edges may be keyified)",
    "C04-L1": "every coordinate written by a text exporter is rendered with an empty format spec (str / '{}' / bare f-string) "
              "and parsed back with float()",
    "C04-A1": "attribute type table: from_string(quote(to_string(T))) == T and byte_size(T) is an int for every member T; "
              "Bool values are written through int() (the reader parses bool(int())), Int/Float values never are",
    "C04-C1": "every element kind a format can express is written under conditions (dimensionality, completion switches, "
              "container emptiness, hard-edge flag) that cover every mesh state in which a load would not regenerate it: all "
              "edges of a polyline or when edges are not completed from faces, at least the declared (hard) edges otherwise",
    "C04-G1": "geogram [ATTR] chunk: the header field written on line i is the one the reader takes from line i, the payload "
              "is dense (one group of `arity` values per element, element-major) and indexed with the same stride; the importer stores "
              "every group unfiltered (arity > 1) or the scalar (arity 1); *_ptr size chunks: exporter writes the running corner offset "
              "exactly when some element departs from the importer's default size, importer takes consecutive differences; every "
              "attribute of a container is exported",
}

ASSUMPTIONS = [
    "index bases and section keywords are those of the published formats (obj/medit 1-based, off/tet/geogram 0-based)",
    "str(x) / '{}'.format(x) of a Python float or numpy float64 is the shortest round-tripping repr (CPython / numpy semantics)",
]


def run(ctx):
    x1_dispatch(ctx)
    x1_load_save(ctx)
    x1_save_preparation(ctx)
    geo = ff.run_formats(ctx)
    a1_type_table(ctx, geo)


KEEP = ("read_by_extension", "write_by_extension", "_instanciate_raw_mesh_data")


# ----------------------------------------------------------------------- C04-X1
def _dispatch_table(ctx, fname):
    """(flattened fn, site, dict literal, key expr, lookup node, bindings)"""
    fn0 = ctx.repo.func(IO, fname)
    site = ctx.site(IO, fn0)
    fn = hc_flat.flat(ctx.repo, IO, fn0)
    b = sym.Bindings(fn)
    for n in au.walk(fn):
        d, key = None, None
        if isinstance(n, ast.Call) and isinstance(n.func, ast.Attribute) and n.func.attr == "get" and n.args:
            d, key = n.func.value, n.args[0]
        elif isinstance(n, ast.Subscript) and isinstance(n.ctx, ast.Load):
            d, key = n.value, n.slice
        if d is None:
            continue
        for _ in range(3):
            if isinstance(d, ast.Name):
                d = b.reaching(d.id, n) or d
        if isinstance(d, ast.Dict) and d.keys and all(isinstance(k, ast.Constant) and isinstance(k.value, str) for k in d.keys):
            return fn, site, d, key, n, b
    return fn, site, None, None, None, b


def _key_signature(e):
    """string methods applied to the extension before the look-up (lower / upper / casefold / strip ..)"""
    return sorted(au.call_tail(c) for c in au.walk(e) if isinstance(c, ast.Call) and isinstance(c.func, ast.Attribute)
                  and c.func.attr in ("lower", "upper", "casefold", "strip", "lstrip", "rstrip", "title", "capitalize", "swapcase"))


def x1_dispatch(ctx):
    repo = ctx.repo
    tabs = {}
    for fname in ("read_by_extension", "write_by_extension"):
        fn, site, d, key, node, b = _dispatch_table(ctx, fname)
        if d is None:
            ctx.undecided("C04-X1", site, f"{fname}: extension -> function table not recognised",
                          "the dispatch is expected to be a dict keyed by extension")
            return
        ps = au.params(fn)
        fparam = ps[1] if fname.startswith("write") and len(ps) > 1 else ps[0]
        keyr = cc.subst(cc.resolve(b, key, at=node), {fparam: ast.Name(id="FILE", ctx=ast.Load())})
        entries = {}
        for k, v in zip(d.keys, d.values):
            r = repo.resolve(IO, v.id) if isinstance(v, ast.Name) else None
            entries[k.value] = (v, r)
        tabs[fname] = (fn, site, entries, keyr, node, b, fparam)
    (rfn, rsite, rtab, rkey, rnode, rb, rfile), (wfn, wsite, wtab, wkey, wnode, wb, wfile) = \
        tabs["read_by_extension"], tabs["write_by_extension"]
    if au.src(rkey) == au.src(wkey) or _key_signature(rkey) == _key_signature(wkey):
        ctx.ok("C04-X1", wsite, "both tables are looked up with the same normalisation of the extension")
    else:
        ctx.fail("C04-X1", wsite, f"extension key is normalised with {_key_signature(wkey)} when writing but {_key_signature(rkey)} when reading",
                 "a file name accepted by save() must select the same format in load() (e.g. upper-case extensions)")
    for ext in sorted(set(rtab) | set(wtab)):
        if ext not in rtab or ext not in wtab:
            miss = "read_by_extension" if ext not in rtab else "write_by_extension"
            ctx.fail("C04-X1", rsite if ext not in rtab else wsite, f"extension '{ext}' missing from {miss}",
                     f"a '.{ext}' file can be {'written but not loaded' if ext not in rtab else 'loaded but not saved'}")
            continue
        (rv, rr), (wv, wr) = rtab[ext], wtab[ext]
        if not (rr and wr and rr[0] == "def" and wr[0] == "def"):
            ctx.undecided("C04-X1", wsite, f"extension '{ext}': the functions of the dispatch tables are not resolved to definitions", "")
            continue
        ok = bool(rr[1] == wr[1] and rr[2].startswith("import_") and wr[2].startswith("export_")
                  and rr[2][len("import_"):] == wr[2][len("export_"):])
        if not ok and not (rr[2].startswith("import_") and wr[2].startswith("export_")):
            ctx.undecided("C04-X1", wsite, f"extension '{ext}': naming convention import_K / export_K not recognised", "")
            continue
        ctx.check(ok, "C04-X1", wsite,
                  f"extension '{ext}' is read by {rr[2]} but written by {wr[2]}",
                  f"'{ext}': importer resolves to {rr[1]}.{rr[2]}, exporter to {wr[1]}.{wr[2]}; a file saved under this extension is parsed by the "
                  f"codec of another format", note=f"'{ext}' -> {rr[2]} / {wr[2]} from one module")

    # an unsupported extension raises: the test must be `selected function is None`, not its negation
    for fn_, site_, node_, b_ in ((rfn, rsite, rnode, rb), (wfn, wsite, wnode, wb)):
        target = {au.norm(node_), au.norm(cc.resolve(b_, node_, at=node_))}
        for rz in [n for n in au.walk(fn_) if isinstance(n, ast.Raise)]:
            for t, pol in au.conditions(rz, toplevel=True):
                t, pol = au.strip_not(t, pol)
                if isinstance(t, ast.Compare) and len(t.ops) == 1 and isinstance(t.ops[0], (ast.Is, ast.IsNot, ast.Eq, ast.NotEq)) \
                        and isinstance(t.comparators[0], ast.Constant) and t.comparators[0].value is None:
                    l = cc.resolve(b_, t.left, at=rz)
                    if au.norm(l) in target:
                        is_none = isinstance(t.ops[0], (ast.Is, ast.Eq)) == pol
                        ctx.check(is_none, "C04-X1", site_, "the dispatch raises when the extension IS in the table",
                                  "every supported format is rejected as unsupported", note="unsupported extension raises")

    # the selected function is applied to (filename) / (mesh, filename) and the reader returns its result
    def selected_calls(fn, node, b):
        out = []
        target = {au.norm(node), au.norm(cc.resolve(b, node, at=node))}
        for c in au.calls(fn):
            if c is node or not isinstance(c.func, ast.Name):
                continue
            r = cc.resolve(b, c.func, at=c)
            if any(au.norm(x) in target for x in ast.walk(r) if isinstance(x, ast.expr)):
                out.append(c)
        return out
    rc = selected_calls(rfn, rnode, rb)
    if len(rc) != 1:
        ctx.undecided("C04-X1", rsite, "read_by_extension: the call of the selected importer is not recognised", "")
    else:
        args = [au.src(a) for a in rc[0].args]
        if args[:1] == [rfile]:
            ctx.ok("C04-X1", rsite, "read_by_extension calls the selected importer on the file name it was given")
        elif args and args[0] in au.params(rfn):
            ctx.fail("C04-X1", rsite, "read_by_extension does not call the selected importer on the file name it was given",
                     "the parsed data of the selected importer must be what load() receives")
        else:
            ctx.undecided("C04-X1", rsite, "read_by_extension: argument of the selected importer not recognised", "")
        ret = [s for s in au.stmts(rfn.body) if isinstance(s, ast.Return) and s.value is not None]
        keep = tuple({rc[0].func.id} | set(au.params(rfn)))
        if not ret:
            ctx.fail("C04-X1", rsite, "read_by_extension does not return the parsed data", "")
        else:
            ok = all(au.same(cc.resolve(rb, s.value, at=s, keep=keep), rc[0]) for s in ret)
            if ok:
                ctx.ok("C04-X1", rsite, "read_by_extension returns import_fun(filename)")
            else:
                ctx.undecided("C04-X1", rsite, "read_by_extension: the returned value is not recognised as the result of the importer", "")
    wc = selected_calls(wfn, wnode, wb)
    wps = au.params(wfn)
    if len(wc) != 1:
        ctx.undecided("C04-X1", wsite, "write_by_extension: the call of the selected exporter is not recognised", "")
    else:
        wargs = [au.src(a) for a in wc[0].args]
        if wargs[:2] == wps[:2]:
            ctx.ok("C04-X1", wsite, "write_by_extension calls export_fun(mesh, filename)")
        elif len(wargs) >= 2 and set(wargs[:2]) <= set(wps):
            ctx.fail("C04-X1", wsite, "write_by_extension does not call export_fun(mesh, filename)", "every exporter takes (mesh, path) in this order")
        else:
            ctx.undecided("C04-X1", wsite, "write_by_extension: arguments of the selected exporter not recognised", "")
    for ext, (wv, wr) in sorted(wtab.items()):
        if wr and wr[0] == "def":
            efn = repo.modules[wr[1]].funcs.get(wr[2])
            if efn is not None:
                a = efn.args
                required = len(a.posonlyargs + a.args) - len(a.defaults)
                ctx.check(required <= 2 <= len(a.posonlyargs + a.args) or (a.vararg is not None and required <= 2), "C04-X1",
                          ctx.site(wr[1], efn), f"{wr[2]} cannot be called as export_fun(mesh, path)",
                          "write_by_extension calls export_fun(mesh, filename)")


def x1_load_save(ctx):
    repo = ctx.repo
    fn0 = repo.func(MESH, "load")
    site = ctx.site(MESH, fn0)
    fn = hc_flat.flat(repo, MESH, fn0, keep=KEEP)
    b = sym.Bindings(fn)
    ps = au.params(fn)
    inst = [c for c in au.calls(fn) if au.call_tail(c) == "_instanciate_raw_mesh_data"]
    reads = [c for c in au.calls(fn) if au.call_tail(c) == "read_by_extension"]
    if not inst or not inst[0].args or not reads:
        ctx.undecided("C04-X1", site, "load: read_by_extension(..) -> _instanciate_raw_mesh_data(..) chain not recognised", "")
    else:
        a0 = cc.resolve(b, inst[0].args[0], at=inst[0])
        if isinstance(a0, ast.Call) and au.call_tail(a0) == "read_by_extension":
            got = [au.src(x) for x in a0.args][:1]
            if got == ps[:1]:
                ctx.ok("C04-X1", site, "load reads the file it was given")
            elif got and got[0] in ps:
                ctx.fail("C04-X1", site, "load does not read the file it was given", "load(filename) must parse the file it was given")
            else:
                ctx.undecided("C04-X1", site, "load: the argument of read_by_extension is not recognised as the file name", "")
        else:
            ctx.undecided("C04-X1", site, "load: the data handed to _instanciate_raw_mesh_data is not recognised as the parsed file", "")
    fn0 = repo.func(MESH, "save")
    site = ctx.site(MESH, fn0)
    fn = hc_flat.flat(repo, MESH, fn0, keep=KEEP)
    b = sym.Bindings(fn)
    ps = au.params(fn)
    wr = [c for c in au.calls(fn) if au.call_tail(c) == "write_by_extension"]
    if len(wr) != 1 or len(wr[0].args) < 2:
        ctx.undecided("C04-X1", site, "save: the call write_by_extension(raw mesh, filename) is not recognised", "")
    else:
        a0 = cc.resolve(b, wr[0].args[0], at=wr[0])
        if isinstance(a0, ast.Call) and au.call_tail(a0) == "RawMeshData":
            g1_, g2_ = [au.src(x) for x in a0.args][:1], au.src(wr[0].args[1])
            if g1_ == ps[:1] and g2_ == ps[1]:
                ctx.ok("C04-X1", site, "save writes RawMeshData(mesh) to filename")
            elif g1_ and g1_[0] in ps and g2_ in ps:
                ctx.fail("C04-X1", site, "save does not write the mesh it was given to the file it was given",
                         "save(mesh, filename) must call write_by_extension(RawMeshData(mesh), filename)")
            else:
                ctx.undecided("C04-X1", site, "save: arguments of write_by_extension not recognised", "")
        else:
            ctx.undecided("C04-X1", site, "save: the object written is not recognised as RawMeshData(mesh)", "")
        if au.guards(wr[0]):
            ctx.undecided("C04-X1", site, "save: the file is written under a condition", "")
    # class table, by evaluation for every (requested dimension, dimensionality of the data)
    fn0 = repo.func(MESH, "_instanciate_raw_mesh_data")
    site = ctx.site(MESH, fn0)
    fn = hc_flat.flat(repo, MESH, fn0)
    ps = au.params(fn)
    want = {0: "PointCloud", 1: "PolyLine", 2: "SurfaceMesh", 3: "VolumeMesh"}
    if len(ps) < 2:
        ctx.undecided("C04-X1", site, "_instanciate_raw_mesh_data(data, dim): signature not recognised", "")
        return
    bad_class, bad_dim, unknown = {}, None, None
    for r in (None, 0, 1, 2, 3):
        for m in (0, 1, 2, 3):
            data = hv.Obj(dimensionality=m, prepare=lambda *a: None)
            ev = hv.Evaluator({ps[0]: data, ps[1]: r}, symbols=set(want.values()) | {"Mesh"})
            try:
                res = ev.run(fn.body)
            except hv.Unknown as ex:
                unknown = str(ex)
                break
            except hv.Raised as ex:
                res = None
            eff = m if r is None else max(r, m)
            got = res.cls if isinstance(res, hv.Inst) else None
            if got != want[eff]:
                if r is None or r <= m:
                    bad_class.setdefault(m, got)
                else:
                    bad_dim = bad_dim or (r, m, got)
            elif not (len(res.args) == 1 and res.args[0] is data):
                bad_class.setdefault(eff, got + "(other argument)")
        if unknown:
            break
    if unknown:
        ctx.undecided("C04-X1", site, "_instanciate_raw_mesh_data: class selection is written in a way the evaluation does not follow",
                      unknown[:80])
        return
    for k, cls in want.items():
        g = bad_class.get(k, cls) if k in bad_class else cls
        ctx.check(k not in bad_class, "C04-X1", site,
                  f"dimension {k} is instantiated as {g if g else 'nothing'} instead of {cls}",
                  f"a loaded file whose content has dimensionality {k} must come back as a {cls}", note=f"dim {k} -> {cls}")
    ctx.check(bad_dim is None, "C04-X1", site, "class selection does not use max(dim, mesh_data.dimensionality)",
              f"requested dimension {bad_dim[0]} with data of dimensionality {bad_dim[1]} gives {bad_dim[2]}: the loaded object must have "
              f"the class its content implies, promoted to the requested dimension" if bad_dim else "")


def x1_save_preparation(ctx):
    """save(): the cell adjacency read unconditionally by the geogram exporter is prepared exactly for (VolumeMesh, geogram file);
    a container is emptied only when its kind is in ignore_elements, together with its corner containers"""
    repo = ctx.repo
    save0 = repo.func(MESH, "save")
    ssite = ctx.site(MESH, save0)
    save = hc_flat.flat(repo, MESH, save0, keep=KEEP)
    b = sym.Bindings(save)
    wfn = hc_flat.flat(repo, GEO, repo.func(GEO, "export_geogram_ascii"))
    need = []
    for c in au.calls(wfn):
        if au.call_tail(c) == "get_attribute" and c.args and isinstance(c.args[0], ast.Constant) \
                and isinstance(c.func.value, ast.Attribute):
            nm, fld = c.args[0].value, c.func.value.attr
            guarded = any(nm in au.src(t) and "has_attribute" in au.src(t) for t, pol in au.guards(c) if pol)
            in_loop = any(isinstance(a, ast.For) and isinstance(a.iter, ast.Attribute) and a.iter.attr == "attributes" for a in au.ancestors(c))
            if not guarded and not in_loop:
                need.append((nm, fld, c))
    made = set()
    prep_calls = []
    prep_resolved = False
    for c in au.calls(save):
        ch = au.chain(c.func)
        if ch and len(ch) >= 3 and ch[-2] == "connectivity":
            prep_calls.append(c)
            q = "VolumeMesh._Connectivity." + ch[-1]
            if repo.has_func("mesh.datatypes.volume", q):
                m = repo.func("mesh.datatypes.volume", q)
                prep_resolved = True
                ctx.site("mesh.datatypes.volume", m)
                for k in au.calls(m):
                    if au.call_tail(k) == "create_attribute" and k.args and isinstance(k.args[0], ast.Constant) \
                            and isinstance(k.func.value, ast.Attribute):
                        made.add((k.args[0].value, k.func.value.attr))

    def ev(test, V, G, at):
        if isinstance(test, ast.Name):
            d = b.reaching(test.id, at)
            return ev(d, V, G, at) if d is not None else None
        if isinstance(test, ast.BoolOp):
            vals = [ev(v, V, G, at) for v in test.values]
            return hc_text._and3(vals) if isinstance(test.op, ast.And) else hc_text._or3(vals)
        if isinstance(test, ast.UnaryOp) and isinstance(test.op, ast.Not):
            v = ev(test.operand, V, G, at)
            return None if v is None else (not v)
        if isinstance(test, ast.Call) and au.call_tail(test) == "isinstance" and len(test.args) == 2 \
                and au.src(test.args[1]).endswith("VolumeMesh"):
            return V
        if isinstance(test, ast.Compare) and len(test.ops) == 1 and isinstance(test.ops[0], (ast.In, ast.NotIn)) \
                and isinstance(test.left, ast.Constant) and isinstance(test.left.value, str) and "geogram" in test.left.value:
            return G if isinstance(test.ops[0], ast.In) else (not G)
        if isinstance(test, ast.Call) and au.call_tail(test) in ("endswith",) and test.args \
                and isinstance(test.args[0], ast.Constant) and "geogram" in str(test.args[0].value):
            return G
        return None
    for c in prep_calls:
        def runs(V, G):
            return hc_text._and3([(lambda v, pol: None if v is None else (v == pol))(ev(t, V, G, c), pol) for t, pol in au.guards(c)] or [True])
        r_vg, r_sg, r_ss, r_vs = runs(True, True), runs(False, True), runs(False, False), runs(True, False)
        site = ctx.site(MESH, save0, c)
        if None in (r_vg, r_sg, r_ss):
            ctx.undecided("C04-X1", site, "save(): condition under which the cell adjacency is prepared not recognised", "")
        else:
            ctx.check(r_vg and not r_sg and not r_ss, "C04-X1", site,
                      "save(): the cell adjacency needed by the geogram exporter is not prepared exactly for volume meshes",
                      f"prepared for (VolumeMesh, geogram file): {r_vg}; for another mesh class: {r_sg}: the export of a volume mesh "
                      f"raises on the missing attribute, or a surface mesh is asked for a method it does not have",
                      note="save(): adjacency prepared iff VolumeMesh and geogram file")
    for nm, fld, c in need:
        if not prep_calls or not prep_resolved:
            ctx.undecided("C04-X1", ctx.site(GEO, "export_geogram_ascii", c),
                          f"geogram: where mesh.{fld} attribute '{nm}' (read unconditionally by the exporter) is prepared is not recognised", "")
        else:
            ctx.check((nm, fld) in made, "C04-X1", ctx.site(GEO, "export_geogram_ascii", c),
                      f"geogram: the exporter reads mesh.{fld} attribute '{nm}' unconditionally but save() does not have it created",
                      f"save() prepares {sorted(made)} before a geogram export of a volume mesh; a missing attribute makes every "
                      f"such save raise", note=f"geogram: save() creates {fld}.{nm} before the export reads it")
    # a lazily cached value of the raw mesh (its dimensionality) must not be computed before the containers it is derived from are
    # emptied: the exporters choose what to write from it
    lazy = lazy_properties(repo)
    raws = {n2 for st in au.stmts(save.body) for n2, v in sym.split_assign(st) if isinstance(v, ast.Call) and au.call_tail(v) == "RawMeshData"}
    order = {id(n): i for i, n in enumerate(au.walk_ordered(save))}
    writes = [c for c in au.calls(save) if au.call_tail(c) == "write_by_extension"]
    for prop, (field, deps, computes) in sorted(lazy.items()):
        reads = [n for n in au.walk(save) if isinstance(n, ast.Attribute) and n.attr == prop and isinstance(n.ctx, ast.Load)
                 and isinstance(n.value, ast.Name) and n.value.id in raws]
        clears = [c for c in au.calls(save) if au.call_tail(c) in ("clear", "pop", "remove") and isinstance(c.func.value, ast.Attribute)
                  and isinstance(c.func.value.value, ast.Name) and c.func.value.value.id in raws and c.func.value.attr in deps]
        resets = [n for n in au.walk(save) if (isinstance(n, ast.Assign) and any(isinstance(t, ast.Attribute) and t.attr == field
                                                                                 and isinstance(t.value, ast.Name) and t.value.id in raws for t in n.targets))
                  or (isinstance(n, ast.Call) and au.call_tail(n) in computes and isinstance(n.func, ast.Attribute)
                      and isinstance(n.func.value, ast.Name) and n.func.value.id in raws)]
        for r in reads:
            def exclusive(x, y):
                ax = [a for a in au.ancestors(x)]
                for a in au.ancestors(y):
                    if isinstance(a, ast.If) and any(a is b2 for b2 in ax):
                        inb = lambda n_, blk: any(any(n_ is z for z in ast.walk(s_)) for s_ in blk)
                        if (inb(x, a.body) and inb(y, a.orelse)) or (inb(x, a.orelse) and inb(y, a.body)):
                            return True
                return False
            later = [c for c in clears if order.get(id(c), 0) > order.get(id(r), 0) and not exclusive(r, c)]
            if not later or not writes:
                continue
            last = max(order.get(id(c), 0) for c in later)
            fixed = any(last < order.get(id(x), 0) < max(order.get(id(w), 0) for w in writes) for x in resets)
            ctx.check(fixed, "C04-X1", ctx.site(MESH, save0, r),
                      f"save(): the cached {prop} of the raw mesh is computed before its {'/'.join(sorted({c.func.value.attr for c in later}))} "
                      f"are emptied and is not recomputed",
                      f"RawMeshData.{prop} is cached in {field} on first access; read here, then the containers it is derived from are cleared "
                      f"(ignore_elements): the exporters see the {prop} of the un-stripped mesh (export_obj then takes the hard-edge branch for a "
                      f"wireframe export and writes no edge: the file loads back as a point cloud)",
                      note=f"save(): {prop} recomputed after the containers are emptied")
    # ignore_elements
    ps = au.params(save)
    ig = ps[2] if len(ps) > 2 else None
    fields = []
    if repo.has_func(hc_text.MESHDATA, "RawMeshData.__init__"):
        for st in au.stmts(repo.func(hc_text.MESHDATA, "RawMeshData.__init__").body):
            for t in au.assign_targets(st):
                if au.is_self_attr(t) and not t.attr.startswith("_"):
                    fields.append(t.attr)
    cleared = {}
    for c in au.calls(save):
        if au.call_tail(c) == "clear" and isinstance(c.func.value, ast.Attribute) and ig:
            cont = c.func.value.attr
            keys, other = [], False
            for t, pol in au.guards(c):
                if isinstance(t, ast.Compare) and len(t.ops) == 1 and isinstance(t.comparators[0], ast.Name) \
                        and t.comparators[0].id == ig and isinstance(t.left, ast.Constant) and isinstance(t.ops[0], (ast.In, ast.NotIn)):
                    keys.append((t.left.value, isinstance(t.ops[0], ast.In) == pol))
                elif ig in au.names(t) and isinstance(t, ast.Compare) and len(t.ops) == 1 and isinstance(t.ops[0], (ast.Is, ast.IsNot)):
                    continue
                else:
                    other = True
            site = ctx.site(MESH, save0, c)
            if not keys or other:
                ctx.undecided("C04-X1", site, f"save(): condition under which mesh.{cont} is emptied not recognised", "")
                continue
            key = keys[0]
            ok = key[1] and isinstance(key[0], str) and (cont == key[0] or cont.startswith(key[0][:-1] + "_"))
            ctx.check(ok, "C04-X1", site,
                      f"save(): mesh.{cont} is emptied under a condition that is not `'{cont.split('_')[0] + ('s' if '_' in cont else '')}' in {ig}`",
                      f"guard key {key}: elements the caller did not ask to ignore are missing from the file",
                      note=f"save(): {cont} cleared only when '{key[0]}' is ignored")
            if ok:
                cleared.setdefault(key[0], set()).add(cont)
    for key, got in sorted(cleared.items()):
        wantf = {f_ for f_ in fields if f_ == key or f_.startswith(key[:-1] + "_")}
        ctx.check(wantf <= got, "C04-X1", ssite,
                  f"save(): ignoring '{key}' leaves {sorted(wantf - got)} filled",
                  f"the exporters write corner / facet containers of elements that are no longer in the file",
                  note=f"save(): ignoring '{key}' clears {sorted(got)}")


def lazy_properties(repo):
    """{property name: (cache field, container fields it is derived from, names of the methods that recompute it)} for the
    properties of RawMeshData of the form `if self._x is None: <compute>; return self._x`"""
    out = {}
    mod = repo.module(hc_text.MESHDATA)
    cls = mod.classes.get("RawMeshData")
    if cls is None:
        return out
    methods = {st.name: st for st in cls.body if isinstance(st, ast.FunctionDef)}
    for name, fn in methods.items():
        if not any(isinstance(d, ast.Name) and d.id == "property" for d in fn.decorator_list):
            continue
        rets = [s_ for s_ in au.stmts(fn.body) if isinstance(s_, ast.Return) and au.is_self_attr(s_.value)]
        if len(rets) != 1:
            continue
        field = rets[0].value.attr
        tests = [s_ for s_ in au.stmts(fn.body) if isinstance(s_, ast.If) and field in au.src(s_.test) and "None" in au.src(s_.test)]
        if not tests:
            continue
        deps, computes, todo, seen = set(), set(), [fn], set()
        while todo:
            f2 = todo.pop()
            if f2.name in seen:
                continue
            seen.add(f2.name)
            for n in au.walk(f2):
                if au.is_self_attr(n) and n.attr in cc.KINDS:
                    deps.add(n.attr)
                if isinstance(n, ast.Call) and au.is_self_attr(n.func) and n.func.attr in methods:
                    todo.append(methods[n.func.attr])
                    computes.add(n.func.attr)
        if deps:
            out[name] = (field, deps, computes)
    return out


# ----------------------------------------------------------------------- C04-A1
def a1_type_table(ctx, geo):
    repo = ctx.repo
    cls = repo.cls(ATTR, "_BaseAttribute.Type")
    fold = cc.folder_for(repo, ATTR, "_BaseAttribute.Type")
    members = fold.members
    tsite = ctx.site(ATTR, "_BaseAttribute.Type")
    if len(members) < 3:
        ctx.undecided("C04-A1", tsite, "attribute type enumeration not recognised", "")
        return
    hr = hc_geo.attr_header_roles(geo) if geo is not None else None
    if not hr or "to_string" not in hr[0] or "byte_size" not in hr[0]:
        ctx.undecided("C04-A1", ctx.site(GEO, "export_geogram_ascii"), "geogram: [ATTR] header with type name and byte size not recognised",
                      "the attribute chunk header carries the type name and element byte size")
        return
    roles = hr[0]
    quoted = roles["to_string"][1]
    q = '"' if quoted else ""
    chunk_init = repo.func(GEO, "Chunk.__init__")
    bs_line = roles["byte_size"][0]
    data_param = au.params(chunk_init, skip_self=True)[0]
    int_lines = set()
    for c in au.calls(chunk_init):
        if isinstance(c.func, ast.Name) and c.func.id == "int" and len(c.args) == 1 and isinstance(c.args[0], ast.Subscript) \
                and isinstance(c.args[0].value, ast.Name) and c.args[0].value.id == data_param:
            k = au.const(c.args[0].slice)
            if isinstance(k, int) and any("ATTR" in au.src(t) for t, pol in au.guards(c) if pol):
                int_lines.add(k)
    bytes_parsed_as_int = bs_line in int_lines
    for nm in ("from_string", "byte_size", "to_string"):
        if not repo.has_func(ATTR, "_BaseAttribute.Type." + nm):
            ctx.undecided("C04-A1", tsite, f"attribute type table: {nm} not found", "")
            return
    fsite = ctx.site(ATTR, repo.func(ATTR, "_BaseAttribute.Type.from_string"))
    bsite = ctx.site(ATTR, repo.func(ATTR, "_BaseAttribute.Type.byte_size"))
    ctx.site(ATTR, repo.func(ATTR, "_BaseAttribute.Type.to_string"))
    for name, T in sorted(members.items()):
        try:
            s = fold.call("to_string", T)
        except cc.Raised as ex:
            ctx.fail("C04-A1", fsite, f"to_string({name}) raises", str(ex))
            continue
        except cc.Unfoldable as ex:
            ctx.undecided("C04-A1", fsite, "to_string is not a constant-foldable table", f"cannot fold: {ex}")
            return
        if not isinstance(s, str):
            ctx.fail("C04-A1", fsite, f"to_string({name}) is not a string", f"folded value {s!r}")
            continue
        try:
            back = fold.call("from_string", q + s + q)
            why = f"from_string({q + s + q!r}) gives {back}"
        except cc.Raised as ex:
            back, why = None, f"from_string({q + s + q!r}) raises ({ex})"
        except cc.Unfoldable as ex:
            ctx.undecided("C04-A1", fsite, "from_string is not a constant-foldable table", f"cannot fold: {ex}")
            return
        ctx.check(back == T, "C04-A1", fsite,
                  f"from_string does not map the written type name {q + s + q} back to {name}",
                  f"export_attribute writes the type of a {name} attribute as {q + s + q}; {why}: the attribute cannot be "
                  f"reloaded with its type", note=f"{name} -> {q + s + q} -> {name}")
        try:
            bs = fold.call("byte_size", T)
        except cc.Raised as ex:
            bs = None
        except cc.Unfoldable as ex:
            ctx.undecided("C04-A1", bsite, "byte_size is not a constant-foldable table", f"cannot fold: {ex}")
            return
        ok = isinstance(bs, int) and not isinstance(bs, bool) and bs > 0
        ctx.check(ok or not bytes_parsed_as_int, "C04-A1", bsite, f"byte_size({name}) is {bs!r}, not an integer",
                  f"export_attribute writes `{bs}` on header line {bs_line} of the chunk of a {name} attribute and the reader "
                  f"applies int() to that line: a mesh carrying a {name} attribute cannot be reloaded",
                  note=f"byte_size({name}) = {bs}")



# ----------------------------------------------------------------------- generic families (msa/rules/generic.py)
_run_specific = run


def run(ctx):
    _run_specific(ctx)
    from ..rules import generic
    generic.apply(ctx, "C04", stale_modules=())


def _generic_rule_texts():
    from ..rules import generic
    return generic.rule_texts("C04", stale=False)


RULES.update(_generic_rule_texts())
