"""C14 - procedural generators: index arithmetic, element counts, literal tables, switches, homogeneity."""
from __future__ import annotations
import ast
from fractions import Fraction
from .. import au, sym
from ..sym import Poly
from ..core import AnalysisError
from ..rules import gen_c1419 as G
from ..rules import dim_c1419 as D

FLAT, SHAPES, RINGS, LINES = "procedural.flat", "procedural.shapes", "procedural.rings", "procedural.polylines"
PROC_MODULES = [FLAT, SHAPES, RINGS, LINES, "procedural.dual", "procedural.transformations"]

EXPLANATION = (
    "Static conformance of the procedural generators, decided on the source only: each generator is walked symbolically once "
    "per assignment of its boolean switches; |V|, |F_k| and every stored vertex index are derived as polynomials in the integer "
    "parameters (loop variables with ranges, `e % N` as [0,N-1]). Decided for all parameter values at once: row stride of "
    "row-major grids equals the inner trip count (R-STRIDE), every stored index lies in [0,|V|) (R-RANGE, corner evaluation of the "
    "multilinear forms + coefficient signs; alarms only with a concrete witness found by evaluating the extracted expressions on "
    "parameters <= 6), element counts and the Euler identity of closed shapes (R-COUNT), orientation/closedness of literal face "
    "tables (R-TABLE), positional forwarding of switches (R-RESOLVE) and dimensional homogeneity / dependence on radius and centre "
    "(R-DIM); additionally corner arithmetic of quad / hexahedron_4pts / axis_aligned_cube as affine forms, the divisor of full-turn "
    "angles, and the wiring of chain_of_vertices' loop switch. Manifoldness and geometry beyond these clauses are not decided.")

RULES = {
    "C14-S1": "in a row-major grid generator the coefficient of every row-like loop variable (or `(i+k) % A`) in a stored vertex "
              "index equals the number of vertices appended per row (inner trip count); column-like variables have coefficient 1",
    "C14-N1": "every index stored into faces / edges / cells, every vertex-attribute key and every vertex store lies in [0, |V|) for "
              "all admissible parameters and all switch values (alarm only with a concrete witness)",
    "C14-C1": "symbolic |V| and |F_k| equal the documented polynomials for every switch value; for closed shapes "
              "|V| - sum(k |F_k|)/2 + sum |F_k| is identically the Euler characteristic of the named shape",
    "C14-T1": "literal face tables: indices < number of appended vertices, no repeated face, each directed edge at most once "
              "(consistent orientation); closed shapes: each undirected edge exactly twice, every vertex used, V-E+F = 2",
    "C14-P1": "a variable passed positionally to a package function never lands in a *defaulted* parameter of another name while "
              "the callee has a parameter of the variable's own name",
    "C14-Q1": "corner arithmetic of quad / hexahedron_4pts / axis_aligned_cube: every corner is an affine combination (weights sum to 1) "
              "of the given points, the requested corners are among them, a face taken in face order is a parallelogram "
              "(alternating corner sum 0) and the top face of the box is the bottom face translated",
    "C14-A1": "a full turn `2*pi*x/T` in a closed generator is divided by the trip count of the loop variable x it multiplies "
              "(otherwise the seam does not close when the two resolutions differ)",
    "C14-W1": "chain_of_vertices: `loop=True` takes the wrapping pairs, `loop=False` the non-wrapping ones, over all vertices",
    "C14-R1": "ring: the apex-height search can reach every admissible angle defect: either the loop has an update that moves a "
              "bracket end outside the current bracket (not a convex combination of the two ends), taken when the target exceeds "
              "the defect at the upper end, or the initial upper end is at least 2*pi/(2*pi - max_defect) high "
              "(a loop that only shrinks [P1,P2] cannot leave its initial bracket)",
    "C14-U1": "a direction that is scaled by a radius parameter (radius * d, or the coefficient vector of the radius in an explicit "
              "Vec(x, y, z)) is a proved unit vector: a normalisation, a rotation of a unit vector, or components whose squares "
              "sum to 1 identically (modulo sin^2+cos^2 = 1, sqrt(E)^2 = E, |u| = 1 of unit vectors) - otherwise the shape does not "
              "have the requested radius",
    "C14-D1": "vertex coordinates of the sphere / torus / cylinder generators have length-degree 1, sums are homogeneous, the result is "
              "translated by the centre (affine weight 1) and depends on every radius / centre / end-point parameter",
}

ASSUMPTIONS = [
    "admissible resolutions: unit_grid nu,nv >= 2; torus segments >= 3; sphere_uv n_lat >= 2, n_long >= 3; cylinder N >= 3; "
    "ring N >= 3 (guarded by the function), n_cover >= 1",
    "documented element counts are the ones stated in the docstrings / pinned by tests/test_procedural.py "
    "(sphere_uv: n_lat*n_long + 2 vertices)",
]

# (module, function) -> admissible minimum of the integer parameters
ADMISSIBLE = {
    (FLAT, "unit_grid"): {"nu": 2, "nv": 2},
    (SHAPES, "torus"): {"major_segments": 3, "minor_segments": 3},
    (SHAPES, "sphere_uv"): {"n_lat": 2, "n_long": 3},
    (SHAPES, "cylinder"): {"N": 3},
    (RINGS, "ring"): {"N": 3, "n_cover": 1},
    (RINGS, "flat_ring"): {"N": 1, "n_cover": 1},
}
STRIDE_FUNCS = [(FLAT, "unit_grid"), (SHAPES, "torus"), (SHAPES, "sphere_uv")]
RANGE_FUNCS = [(FLAT, "unit_grid"), (FLAT, "quad"), (FLAT, "triangle"), (SHAPES, "torus"), (SHAPES, "sphere_uv"),
               (SHAPES, "cylinder"), (SHAPES, "tetrahedron"), (SHAPES, "hexahedron"), (SHAPES, "icosahedron"),
               (RINGS, "ring"), (RINGS, "flat_ring"), (LINES, "vector_field")]
VERTEX_KINDS = ("faces", "edges", "cells", "vertices-attr", "vertices-store")

# documented counts: V, faces {arity: polynomial} per switch assignment, Euler characteristic if closed
def _doc_unit_grid(sw):
    return {"V": "nu*nv", "F": {3: "2*(nu-1)*(nv-1)"} if sw["triangulate"] else {4: "(nu-1)*(nv-1)"}, "chi": None}


def _doc_torus(sw):
    n = "major_segments*minor_segments"
    return {"V": n, "F": {3: "2*" + n} if sw["triangulate"] else {4: n}, "chi": 0}


def _doc_sphere_uv(sw):
    # only the vertex count is documented / pinned by the tests; the faces are constrained by the Euler identity
    return {"V": "n_lat*n_long+2", "F": None, "chi": 2}


def _doc_cylinder(sw):
    if sw["fill_caps"]:
        return {"V": "2*N+2", "F": None, "chi": 2}
    return {"V": "2*N", "F": None, "chi": None}


def _doc_ring(sw):
    return {"V": "N*n_cover+2" if sw["open"] else "N*n_cover+1", "F": {3: "N*n_cover"}, "chi": None}


def _doc_flat_ring(sw):
    return {"V": "N*n_cover+2", "F": {3: "N*n_cover"}, "chi": None}


COUNT_DOC = {(FLAT, "unit_grid"): _doc_unit_grid, (SHAPES, "torus"): _doc_torus, (SHAPES, "sphere_uv"): _doc_sphere_uv,
             (SHAPES, "cylinder"): _doc_cylinder, (RINGS, "ring"): _doc_ring, (RINGS, "flat_ring"): _doc_flat_ring}

# literal tables: closed?
TABLES = {(SHAPES, "tetrahedron"): True, (SHAPES, "hexahedron"): True, (SHAPES, "icosahedron"): True,
          (FLAT, "quad"): False, (FLAT, "triangle"): False}

# R-DIM: geometric parameters (degree, affine weight); centre-like parameters require affine weight 1 of the result
DIM = {
    (SHAPES, "icosahedron"): {"center": (1, 1), "radius": (1, 0)},
    (SHAPES, "icosphere"): {"center": (1, 1), "radius": (1, 0)},
    (SHAPES, "sphere_uv"): {"center": (1, 1), "radius": (1, 0)},
    (SHAPES, "sphere_fibonacci"): {"radius": (1, 0)},
    (SHAPES, "torus"): {"major_radius": (1, 0), "minor_radius": (1, 0)},
    (SHAPES, "cylinder"): {"P1": (1, 1), "P2": (1, 1), "radius": (1, 0)},
}


def _res(b, expr, at=None, keep=()):
    return G.fast_resolve(b, expr, at, keep)


def run(ctx):
    _LOST.clear()
    grids = {}
    for key in sorted(set(STRIDE_FUNCS) | set(RANGE_FUNCS) | set(COUNT_DOC) | set(TABLES)):
        fn = ctx.repo.func(*key)   # AnalysisError if the anchor is gone
        g = G.GridFn(fn)
        g.param_min.update({k: max(v, g.param_min.get(k, 1)) for k, v in ADMISSIBLE.get(key, {}).items()})
        try:
            grids[key] = (fn, g, g.runs(), None)
        except G.Unsupported as e:
            grids[key] = (fn, g, None, str(e))
    failed_idx = s1_stride(ctx, grids)
    n1_range(ctx, grids, failed_idx)
    c1_counts(ctx, grids)
    t1_tables(ctx, grids)
    p1_forwarding(ctx)
    d1_dimension(ctx)
    q1_corners(ctx)
    a1_full_turn(ctx)
    w1_chain(ctx)
    r1_ring_bracket(ctx)
    u1_unit_directions(ctx)
    ctx.declare_unsupported("unit_triangle: triangular loop nest with `break` and a floor-divided row offset (no index rule applied)")
    ctx.declare_unsupported("sphere_fibonacci: connectivity comes from scipy ConvexHull (only C14-D1 on the coordinates)")
    ctx.declare_unsupported("dual_mesh: faces are vertex_to_faces() rings of the input mesh (data dependent)")
    ctx.declare_unsupported("ring: convergence / accuracy of the apex bisection (numeric loop); only the reachability of the "
                            "bracket is decided (C14-R1)")
    ctx.declare_unsupported("chain_of_vertices: edges come from utils.iterators (cyclic/consecutive pairs), not index arithmetic")
    # the unsupported generators must still exist (fail closed if they vanish)
    for key in [(FLAT, "unit_triangle"), (SHAPES, "sphere_fibonacci"), ("procedural.dual", "dual_mesh"), (LINES, "chain_of_vertices")]:
        ctx.repo.func(*key)


_LOST = set()


def _floor(ctx, rule, label, n, at_least):
    """fail closed on a vacuous pass - unless the rule already reported a lost construct as a finding"""
    if rule in _LOST or n >= at_least:
        return
    # the anchored functions exist (repo.func raised otherwise) but the rule recognises fewer sites than were confirmed by
    # hand: the protected constructs changed shape - a finding, not an analysis error
    ctx.fail(rule, ctx.site(SHAPES, "<module>"), f"{label}: the constructs protected by {rule} are no longer found in a recognisable form",
             f"{n} site(s) recognised, at least {at_least} were confirmed by hand")


def _unrecognised(ctx, rule, key, fn, reason):
    _LOST.add(rule)
    ctx.fail(rule, ctx.site(key[0], fn), f"index arithmetic of {key[1]} not found in a recognisable form",
             f"the generator can no longer be walked symbolically ({reason}); the rule cannot establish its clause")


# ----------------------------------------------------------------------- C14-S1
def s1_stride(ctx, grids):
    """returns the set of (emit stmt id, index position) whose stride is wrong (R-RANGE is then subsumed)."""
    failed = set()
    n_sites = 0
    for key in STRIDE_FUNCS:
        fn, g, runs, err = grids[key]
        site = ctx.site(key[0], fn)
        if runs is None:
            _unrecognised(ctx, "C14-S1", key, fn, err)
            continue
        results = {}
        try:
            for run in runs:
                nest = G.rect_nest(run)
                if nest is None:
                    raise G.Unsupported("no rectangular vertex loop nest (one append per innermost iteration)")
                for em, k, a, role, c, exp, ok in G.stride_obligations(g, run, nest):
                    kk = (em.key, k, a)
                    if kk in results and not results[kk][0]:
                        continue
                    results[kk] = (ok, em, k, a, role, c, exp, run, nest)
        except G.Unsupported as e:
            _unrecognised(ctx, "C14-S1", key, fn, str(e))
            continue
        for kk, (ok, em, k, a, role, c, exp, run, nest) in sorted(results.items(), key=lambda kv: (kv[1][1].stmt.lineno, kv[1][2], kv[1][3])):
            n_sites += 1
            s = ctx.site(key[0], fn, em.stmt)
            if ok:
                ctx.ok("C14-S1", s, f"{key[1]}: {role} atom {a} has coefficient {c} in {em.kind} index {k}")
                continue
            failed.add((id(em.stmt), k))
            w = G.stride_witness(g, run, nest, em, k, c, exp)
            if w is None:
                # no concrete witness: do not alarm
                ctx.declare_unsupported(f"{key[1]}: stride `{c}` differs syntactically from `{exp}` but no concrete witness was found")
                continue
            if role == "row":
                construct = f"row stride of the stored vertex indices is `{c}` but a row of the vertex loop holds `{exp}` vertices"
            else:
                construct = f"column step of the stored vertex indices is `{c}` instead of 1"
            ctx.fail("C14-S1", s, construct,
                     f"vertex (r, c) of the grid has index base + r*({nest[2].trip}) + c; witness {w}",
                     index=au.src(g.index_expr(em, k, run)), switches=run.label())
        # a vertex-attribute key written in the vertex loop is the index of the vertex of that iteration
        seen = set()
        for run in runs:
            nest = G.rect_nest(run)
            for em in run.emits:
                if em.kind != "vertices-attr" or nest is None or em.key in seen:
                    continue
                try:
                    P = g.index_polys(em, run)[0]
                except G.Unsupported:
                    continue   # reported by C14-N1
                appl, ok, want, wtxt = G.attr_key_check(g, run, nest, em, P)
                if not appl or (id(em.stmt), 0) in failed:
                    continue
                seen.add(em.key)
                n_sites += 1
                ctx.check(ok, "C14-S1", ctx.site(key[0], fn, em.stmt),
                          f"vertex attribute key `{P}` is not the index `{want}` of the vertex appended in the same iteration",
                          wtxt, note=f"{key[1]}: attribute key = running vertex index")
    _floor(ctx, "C14-S1", "C14-S1 stride sites", n_sites, 45)
    return failed


# ----------------------------------------------------------------------- C14-N1
def n1_range(ctx, grids, failed_idx):
    n_sites = 0
    for key in RANGE_FUNCS:
        fn, g, runs, err = grids[key]
        if runs is None:
            _unrecognised(ctx, "C14-N1", key, fn, err)
            continue
        results = {}
        for run in runs:
            for em in run.emits:
                if em.kind not in VERTEX_KINDS:
                    continue
                try:
                    polys = g.index_polys(em, run)
                except G.Unsupported as e:
                    results[(em.key, 0)] = ("unsupported", em, 0, None, run, str(e))
                    continue
                for k, P in enumerate(polys):
                    kk = (em.key, k)
                    if kk in results and results[kk][0] != "ok":
                        continue
                    if (id(em.stmt), k) in failed_idx:
                        results[kk] = ("subsumed", em, k, P, run, None)
                        continue
                    try:
                        if g.prove_in_range(P, em, run, run.V):
                            results[kk] = ("ok", em, k, P, run, None)
                            continue
                        w = g.witness_out_of_range(em, k, run)
                    except G.Unsupported as e:
                        results[kk] = ("unsupported", em, k, P, run, str(e))
                        continue
                    results[kk] = ("witness" if w else "bounded", em, k, P, run, w)
        for kk, (verdict, em, k, P, run, w) in sorted(results.items(), key=lambda kv: (kv[1][1].stmt.lineno, kv[1][2])):
            s = ctx.site(key[0], fn, em.stmt)
            if verdict == "subsumed":
                continue
            n_sites += 1
            if verdict == "ok":
                ctx.ok("C14-N1", s, f"{key[1]}: {em.kind} index {P} in [0, {run.V}) for all admissible parameters")
            elif verdict == "witness":
                ctx.fail("C14-N1", s, f"{em.kind} index `{P}` leaves [0, |V|) with |V| = {run.V}",
                         f"witness {G.fmt_env(w['params'])}" + (f" ({run.label()})" if run.env else "") +
                         f": index {w['index']} at iteration ({G.fmt_env(w['iteration'])}) with {w['n_vertices']} vertices",
                         witness=w)
            elif verdict == "bounded":
                ctx.ok("C14-N1", s, f"{key[1]}: {em.kind} index {P}: no violation for parameters <= {G.MAXPARAM} (not proved symbolically)")
                ctx.declare_unsupported(f"{key[1]}: index `{P}` not proved for all parameters; exhaustive for parameters <= {G.MAXPARAM} only")
            else:
                ctx.fail("C14-N1", s, f"{em.kind} index of {key[1]} not found in a recognisable form", str(w))
    _floor(ctx, "C14-N1", "C14-N1 index sites", n_sites, 180)


# ----------------------------------------------------------------------- C14-C1
def c1_counts(ctx, grids):
    n = 0
    for key, doc in COUNT_DOC.items():
        fn, g, runs, err = grids[key]
        site = ctx.site(key[0], fn)
        if runs is None:
            _unrecognised(ctx, "C14-C1", key, fn, err)
            continue
        verdict = {"V": None, "F": None, "chi": None}
        for run in runs:
            d = doc(run.env)
            lab = f" ({run.label()})" if run.env else ""
            wantV = G.parse_poly(d["V"])
            if run.V != wantV and verdict["V"] is None:
                verdict["V"] = (f"|V| = `{run.V}` differs from the documented `{wantV}`" + lab,
                                _count_witness(g, run.V, wantV, "vertices"))
            try:
                F = {}
                for em in run.emits:
                    if em.kind == "faces":
                        F[len(em.idx)] = F.get(len(em.idx), Poly()) + g.count(em, run)
            except G.Unsupported as e:
                verdict["F"] = verdict["F"] or (f"face count of {key[1]} not found in a recognisable form", str(e))
                continue
            wantF = {k: G.parse_poly(v) for k, v in (d["F"] or {}).items()}
            for k in sorted(set(F) | set(wantF)) if d["F"] is not None else []:
                if F.get(k, Poly()) != wantF.get(k, Poly()) and verdict["F"] is None:
                    verdict["F"] = (f"number of {k}-gons = `{F.get(k, Poly())}` differs from the documented `{wantF.get(k, Poly())}`" + lab,
                                    _count_witness(g, F.get(k, Poly()), wantF.get(k, Poly()), f"{k}-gons"))
            if d["chi"] is not None:
                E2 = Poly()
                nF = Poly()
                for k, c in F.items():
                    E2 = E2 + c.scale(k)
                    nF = nF + c
                chi = run.V - E2.scale(Fraction(1, 2)) + nF
                if chi != Poly.const(d["chi"]) and verdict["chi"] is None:
                    mins = dict(g.param_min)
                    penv = {a: mins.get(a, 1) for a in sorted(chi.atoms() | run.V.atoms() | E2.atoms())}
                    verdict["chi"] = (
                        f"Euler characteristic V - E + F of the closed shape is `{chi}`, not {d['chi']}" + lab,
                        f"with E = sum(k*F_k)/2 (every edge of a closed surface is shared by two faces): witness {G.fmt_env(penv)}: "
                        f"V={run.V.eval(penv)}, E={E2.eval(penv) / 2}, F={nF.eval(penv)}, chi={chi.eval(penv)}; the excess "
                        f"`{chi - d['chi']}` is the number of allocated vertices that no face can reference on a closed "
                        f"surface with these faces")
        for what_, label in (("V", "vertex count"), ("F", "face counts"), ("chi", "Euler identity")):
            if what_ == "chi" and all(doc(r.env)["chi"] is None for r in runs):
                continue
            if what_ == "F" and all(doc(r.env)["F"] is None for r in runs) and verdict["F"] is None:
                continue
            n += 1
            v = verdict[what_]
            if v is None:
                ctx.ok("C14-C1", site, f"{key[1]}: {label} agree with the documented polynomials for {len(runs)} switch assignment(s)")
            else:
                ctx.fail("C14-C1", site, v[0], v[1])
    _floor(ctx, "C14-C1", "C14-C1 count obligations", n, 13)


def _count_witness(g, got, want, what):
    ats = sorted(got.atoms() | want.atoms())
    try:
        for penv in g.param_envs(ats, dict(g.param_min)):
            if got.eval(penv) != want.eval(penv):
                return f"witness {G.fmt_env(penv)}: {got.eval(penv)} {what} generated, {want.eval(penv)} documented"
    except G.Unsupported:
        pass
    return "the polynomials differ"


# ----------------------------------------------------------------------- C14-T1
def t1_tables(ctx, grids):
    n_tables = 0
    for key, closed in TABLES.items():
        fn, g, runs, err = grids[key]
        site = ctx.site(key[0], fn)
        if runs is None:
            _LOST.add("C14-T1")
            ctx.fail("C14-T1", site, f"literal face table of {key[1]} not found", err)
            continue
        seen = {}
        for run in runs:
            faces, nodes = [], []
            for em in run.emits:
                if em.kind == "faces":
                    t = G.literal_tuple(em.idx)
                    if t is None:
                        faces = None
                        break
                    faces.append(t)
                    nodes.append(em.stmt)
            if faces is None:
                ctx.fail("C14-T1", site, f"literal face table of {key[1]} not found", "a face of the table is not a tuple of integer literals")
                continue
            if not faces:
                continue
            if not run.V.is_const():
                ctx.fail("C14-T1", site, f"vertex count of {key[1]} is not a constant", str(run.V))
                continue
            sig = (tuple(faces), int(run.V.const_value()))
            if sig in seen:
                continue
            seen[sig] = run
            n_tables += 1
            arity = "/".join(str(k) for k in sorted({len(f) for f in faces}))
            label = f"{len(faces)}-face table ({arity}-gons)"
            probs = G.table_problems(faces, int(run.V.const_value()), closed)
            s = ctx.site(key[0], fn, nodes[0])
            if not probs:
                ctx.ok("C14-T1", s, f"{key[1]} {label}: in range, consistently oriented" + (", closed, chi=2" if closed else ""))
            for name, detail in probs:
                ctx.fail("C14-T1", s, f"{label}: {name}", f"{detail}; faces {faces}" + (f" ({run.label()})" if run.env else ""))
        if not seen:
            ctx.fail("C14-T1", site, f"literal face table of {key[1]} not found", "no switch assignment emits literal faces")
        # cells of the volume variants: indices in range (also covered by N1), arity matches the vertex count
        for run in runs:
            for em in run.emits:
                if em.kind == "cells":
                    t = G.literal_tuple(em.idx)
                    okc = t is not None and run.V.is_const() and sorted(t) == list(range(int(run.V.const_value())))
                    ctx.check(okc, "C14-T1", ctx.site(key[0], fn, em.stmt),
                              f"cell of {key[1]} is not a permutation of all appended vertices",
                              f"cell {au.src(em.tup)} with {run.V} vertices", note=f"{key[1]} cell uses every vertex once")
                    break
    _floor(ctx, "C14-T1", "C14-T1 literal tables", n_tables, 7)


# ----------------------------------------------------------------------- C14-P1
def p1_forwarding(ctx):
    n = 0
    for modname in PROC_MODULES:
        mod = ctx.repo.module(modname)
        for fn, call, callee, i, var, recv in G.forwarding_sites(ctx.repo, mod):
            if recv not in G.defaulted_params(callee):
                continue
            n += 1
            callee_params = set(au.params(callee))
            bad = var != recv and var in callee_params
            s = ctx.site(modname, fn, call)
            if not bad:
                ctx.ok("C14-P1", s, f"{fn.name} -> {callee.name}: `{var}` lands in `{recv}`")
                continue
            ctx.fail("C14-P1", s, f"`{var}` is passed positionally into the defaulted parameter `{recv}` of {callee.name}",
                     f"{callee.name} has its own parameter `{var}`, which keeps its default: the value given to {fn.name} for "
                     f"`{var}` drives `{recv}` of {callee.name} instead (e.g. {var}=True turns `{recv}` on)")
    _floor(ctx, "C14-P1", "C14-P1 forwarded switches", n, 4)


# ----------------------------------------------------------------------- C14-D1
def d1_dimension(ctx):
    n = 0
    for key, geo in DIM.items():
        fn = ctx.repo.func(*key)
        site = ctx.site(key[0], fn)
        it = D.Interp(fn, D.Config(geo, ctx.repo, key[0])).run()
        n += dim_obligations(ctx, "C14-D1", key, fn, it, geo)
    _floor(ctx, "C14-D1", "C14-D1 obligations", n, 20)


def dim_obligations(ctx, rule, key, fn, it, geo, require=None):
    """Shared with C19: homogeneity events, degree / affine weight of the produced coordinates, dependence."""
    n = 0
    site = ctx.site(key[0], fn)
    need_aff = any(Fraction(a) == 1 for d, a in geo.values())
    for node, kind, detail in it.events:
        n += 1
        if kind == "inhomogeneous-sum":
            ctx.fail(rule, ctx.site(key[0], fn, node),
                     f"a term of length-degree {D.fmt_deg(detail[0])} is added to a term of degree {D.fmt_deg(detail[1])}",
                     f"`{au.src(node)}` is not homogeneous: scaling all lengths (radius, centre, box) by s does not scale the result by s")
        else:
            ctx.fail(rule, ctx.site(key[0], fn, node), f"coordinates of different length-degree are mixed {tuple(D.fmt_deg(x) for x in detail)}",
                     f"`{au.src(node)[:120]}`")
    sinks = []
    for node, v in it.vertex_stores:
        sinks.append((node, v, "vertex coordinates stored"))
    for node, v in it.returns:
        for pos, x in enumerate(v.items if v.items else [v]):
            tgt = x.verts if x.verts is not None else x
            if x.verts is not None and any(tgt is a for n_, a in it.vertex_stores):
                continue
            # the first returned value is the coordinates; further values (normals ...) only when their degree is known
            if pos == 0 or tgt.deg is not None:
                sinks.append((node, tgt, "returned coordinates"))
    if not sinks:
        ctx.fail(rule, site, f"no coordinates produced by {key[1]} were found", "neither a vertex store nor a returned array")
        return n + 1
    had_event = bool(it.events)
    for node, v, what_ in sinks:
        n += 1
        s = ctx.site(key[0], fn, node)
        if v.deg is None:
            if had_event:
                continue   # already reported at the offending sum
            ctx.fail(rule, s, f"length-degree of the {what_} by {key[1]} is not derivable",
                     f"`{au.src(node)[:120]}` goes through an expression the degree lattice does not know")
            continue
        if v.deg != D.ANY and v.deg != 1:
            ctx.fail(rule, s, f"{what_} have length-degree {D.fmt_deg(v.deg)} instead of 1",
                     f"`{au.src(node)[:120]}`: scaling radius/centre by s must scale the coordinates by s")
            continue
        if need_aff and v.aff is not None and v.aff != D.ANY and v.aff != 1:
            ctx.fail(rule, s, f"{what_} have affine weight {v.aff} instead of 1 (not translated with the centre / end points)",
                     f"`{au.src(node)[:120]}`: moving the centre by t must move every produced point by t")
            continue
        ctx.ok(rule, s, f"{key[1]}: {what_} have degree {D.fmt_deg(v.deg)}, affine weight {D.fmt_deg(v.aff)}")
    # dependence: every geometric parameter reaches the result on every path
    finals = []
    for node, v in it.returns:
        for x in (v.items if v.items else [v]):
            finals.append((node, x.verts if x.verts is not None else x))
    for p in sorted(require if require is not None else geo):
        n += 1
        alts = p if isinstance(p, tuple) else (p,)
        bad = None
        for node, v in finals:
            if v.deps is None or not any(a in v.deps for a in alts):
                bad = (node, v)
                break
        if not finals:
            ctx.fail(rule, site, f"{key[1]} returns nothing the dependence on `{p}` can be read from", "")
        elif bad:
            where = next((bad[1].missing[a] for a in alts if a in bad[1].missing), None)
            pname = " / ".join(alts)
            ctx.fail(rule, ctx.site(key[0], fn, bad[0]), f"the result of {key[1]} does not depend on `{pname}`" + (" on every path" if where else ""),
                     (f"on {where} " if where else "") + f"the returned coordinates are computed without `{pname}`: "
                     f"changing it does not move the points")
        else:
            ctx.ok(rule, site, f"{key[1]}: `{' / '.join(alts)}` reaches the returned coordinates on every path")
    return n


# ----------------------------------------------------------------------- C14-Q1
def _affine(expr, points):
    """polynomial of expr over the point atoms, or None"""
    try:
        return sym.to_poly(expr, opaque=False)
    except sym.NotPoly:
        return None


def _weights_sum(P, points):
    tot = Fraction(0)
    for k, v in P.t.items():
        if len(k) != 1 or k[0] not in points:
            return None
        tot += v
    return tot


def q1_corners(ctx):
    n = 0
    # ---- quad
    fn = ctx.repo.func(FLAT, "quad")
    site = ctx.site(FLAT, fn)
    b = sym.Bindings(fn)
    ps = au.params(fn)[:3]
    verts = None
    for st in au.stmts(fn.body):
        if isinstance(st, ast.AugAssign) and isinstance(st.target, ast.Attribute) and st.target.attr == "vertices" \
                and isinstance(st.value, (ast.List, ast.Tuple)) and len(st.value.elts) == 4:
            verts = (st, [_res(b, e, at=st, keep=tuple(ps)) for e in st.value.elts])
    if verts is None:
        ctx.fail("C14-Q1", site, "quad: the four corner vertices are not appended as one literal list", "")
    else:
        st, es = verts
        polys = [_affine(_strip_vec(e), ps) for e in es]
        n += 3
        if any(p is None for p in polys):
            ctx.fail("C14-Q1", ctx.site(FLAT, fn, st), "quad: corner expressions are not affine combinations of P0, P1, P2",
                     "; ".join(au.src(e) for e in es))
        else:
            sums = [_weights_sum(p, ps) for p in polys]
            ctx.check(all(x == 1 for x in sums), "C14-Q1", ctx.site(FLAT, fn, st),
                      "quad: a corner is not an affine combination of the given points (weights do not sum to 1)",
                      f"corners {[str(p) for p in polys]}: the quad does not move with its three points", note="quad corners are affine")
            alt = polys[0] - polys[1] + polys[2] - polys[3]
            ctx.check(alt.is_zero(), "C14-Q1", ctx.site(FLAT, fn, st),
                      "quad: the corners taken in face order (0,1,2,3) do not form a parallelogram",
                      f"v0 - v1 + v2 - v3 = {alt} for corners {[str(p) for p in polys]}: the face is self-intersecting (bow-tie) or skewed",
                      note="quad corners in face order form a parallelogram")
            given = {str(Poly.atom(p)) for p in ps}
            ctx.check(given <= {str(p) for p in polys}, "C14-Q1", ctx.site(FLAT, fn, st),
                      "quad: one of the requested corners P0, P1, P2 is not a vertex of the quad",
                      f"corners {[str(p) for p in polys]}", note="quad contains P0, P1, P2")
    # ---- hexahedron_4pts
    fn = ctx.repo.func(SHAPES, "hexahedron_4pts")
    site = ctx.site(SHAPES, fn)
    b = sym.Bindings(fn)
    ps = au.params(fn)[:4]
    calls = [c for c in au.calls(fn) if au.call_tail(c) == "hexahedron" and len(c.args) >= 8]
    if len(calls) != 1:
        ctx.fail("C14-Q1", site, "hexahedron_4pts: call of hexahedron with eight corners not found", "")
    else:
        c = calls[0]
        polys = [_affine(_strip_vec(_res(b, e, at=c, keep=tuple(ps))), ps) for e in c.args[:8]]
        n += _box_checks(ctx, SHAPES, fn, c, polys, "hexahedron_4pts",
                         lambda P: _weights_sum(P, ps) == 1 if P is not None else False,
                         required={0: Poly.atom(ps[0]), 1: Poly.atom(ps[1]), 3: Poly.atom(ps[2]), 4: Poly.atom(ps[3])})
    # ---- axis_aligned_cube: literal corners
    fn = ctx.repo.func(SHAPES, "axis_aligned_cube")
    site = ctx.site(SHAPES, fn)
    b = sym.Bindings(fn)
    calls = [c for c in au.calls(fn) if au.call_tail(c) == "hexahedron" and len(c.args) >= 8]
    if len(calls) != 1:
        ctx.fail("C14-Q1", site, "axis_aligned_cube: call of hexahedron with eight corners not found", "")
    else:
        c = calls[0]
        vecs = []
        for e in c.args[:8]:
            r = _res(b, e, at=c)
            v = None
            if isinstance(r, ast.Call) and au.call_tail(r) == "Vec" and len(r.args) == 3:
                v = [au.const(x) for x in r.args]
                if not all(isinstance(x, (int, float)) and not isinstance(x, bool) for x in v):
                    v = None
            vecs.append(v)
        if any(v is None for v in vecs):
            ctx.fail("C14-Q1", ctx.site(SHAPES, fn, c), "axis_aligned_cube: corners are not literal Vec(x, y, z)", "")
            n += 1
        else:
            polys = [Poly({("x",): Fraction(v[0]).limit_denominator(10**6), ("y",): Fraction(v[1]).limit_denominator(10**6),
                           ("z",): Fraction(v[2]).limit_denominator(10**6)}) for v in vecs]
            n += _box_checks(ctx, SHAPES, fn, c, polys, "axis_aligned_cube", lambda P: True, required={})
            n += 1
            # unit cube centred at the origin: all corners (+-1/2, +-1/2, +-1/2), all distinct
            ok = all(all(abs(x) == 0.5 for x in v) for v in vecs) and len({tuple(v) for v in vecs}) == 8
            ctx.check(ok, "C14-Q1", ctx.site(SHAPES, fn, c), "axis_aligned_cube: corners are not the eight points (+-0.5, +-0.5, +-0.5)",
                      f"{vecs}", note="unit cube corners")
    _floor(ctx, "C14-Q1", "C14-Q1 obligations", n, 9)


def _strip_vec(e):
    """Vec(x) -> x (a conversion, not a combination)"""
    class T(ast.NodeTransformer):
        def visit_Call(self, node):
            self.generic_visit(node)
            if au.call_tail(node) == "Vec" and len(node.args) == 1 and not node.keywords:
                return node.args[0]
            return node
    import copy
    return T().visit(copy.deepcopy(e))


def _box_checks(ctx, modname, fn, node, polys, label, affine_ok, required):
    s = ctx.site(modname, fn, node)
    if any(p is None for p in polys):
        ctx.fail("C14-Q1", s, f"{label}: corner expressions are not affine combinations of the given points", "")
        return 1
    ctx.check(all(affine_ok(p) for p in polys), "C14-Q1", s,
              f"{label}: a corner is not an affine combination of the given points (weights do not sum to 1)",
              f"corners {[str(p) for p in polys]}", note=f"{label}: corners are affine")
    bottom = polys[0] - polys[1] + polys[2] - polys[3]
    ctx.check(bottom.is_zero(), "C14-Q1", s, f"{label}: bottom corners 0,1,2,3 do not form a parallelogram in face order",
              f"v0 - v1 + v2 - v3 = {bottom}", note=f"{label}: bottom face is a parallelogram")
    lifts = [polys[i + 4] - polys[i] for i in range(4)]
    ctx.check(all(l == lifts[0] for l in lifts) and not lifts[0].is_zero(), "C14-Q1", s,
              f"{label}: top corners 4..7 are not the bottom corners 0..3 translated by one vector",
              f"v4-v0, v5-v1, v6-v2, v7-v3 = {[str(l) for l in lifts]}: the side faces of the documented numbering are twisted",
              note=f"{label}: top = bottom + {lifts[0]}")
    k = 3
    for i, want in sorted(required.items()):
        k += 1
        ctx.check(polys[i] == want, "C14-Q1", s, f"{label}: corner {i} is `{polys[i]}` instead of the requested point `{want}`",
                  "the box is not built on the requested corners", note=f"{label}: corner {i} = {want}")
    return k


# ----------------------------------------------------------------------- C14-A1
def _flatten_product(e, num, den, inv=False):
    if isinstance(e, ast.BinOp) and isinstance(e.op, ast.Mult):
        _flatten_product(e.left, num, den, inv)
        _flatten_product(e.right, num, den, inv)
    elif isinstance(e, ast.BinOp) and isinstance(e.op, ast.Div):
        _flatten_product(e.left, num, den, inv)
        _flatten_product(e.right, num, den, not inv)
    else:
        (den if inv else num).append(e)


def _is_pi(e):
    c = au.chain(e)
    return bool(c) and c[-1] == "pi"


def a1_full_turn(ctx):
    n = 0
    for key, expected in [((SHAPES, "torus"), 2), ((SHAPES, "sphere_uv"), 1), ((SHAPES, "cylinder"), 1)]:
        fn = ctx.repo.func(*key)
        b = sym.Bindings(fn)
        n_before = n
        for node in list(au.walk(fn)) + [None]:
            if node is None:
                if n - n_before < expected:
                    _LOST.add("C14-A1")
                    ctx.fail("C14-A1", ctx.site(key[0], fn), f"{key[1]}: periodic parameter `2*pi*x/T` of a range(T) loop not found",
                             f"{n - n_before} full-turn expression(s) recognised, {expected} confirmed by hand")
                break
            if not (isinstance(node, ast.BinOp) and isinstance(node.op, (ast.Mult, ast.Div))):
                continue
            par = au.parent(node)
            if isinstance(par, ast.BinOp) and isinstance(par.op, (ast.Mult, ast.Div)):
                continue   # not maximal
            num, den = [], []
            _flatten_product(node, num, den)
            if not any(_is_pi(x) for x in num):
                continue
            consts = [au.const(x) for x in num + den if isinstance(au.const(x), (int, float))]
            c = Fraction(1)
            for x in num:
                if isinstance(au.const(x), (int, float)):
                    c *= Fraction(au.const(x)).limit_denominator(1000)
            for x in den:
                if isinstance(au.const(x), (int, float)) and au.const(x) != 0:
                    c /= Fraction(au.const(x)).limit_denominator(1000)
            if c != 2:
                continue   # not a full turn (half turns of the latitude are not periodic)
            # loop variable factors
            loops = {a.target.id: a for a in au.ancestors(node) if isinstance(a, ast.For) and isinstance(a.target, ast.Name)
                     and isinstance(a.iter, ast.Call) and au.call_tail(a.iter) == "range" and len(a.iter.args) == 1}
            lv = [x for x in num if isinstance(x, ast.Name) and x.id in loops]
            if len(lv) != 1:
                continue
            x = lv[0].id
            trip = sym.to_poly(_res(b, loops[x].iter.args[0], at=loops[x]))
            others = [d for d in den if not isinstance(au.const(d), (int, float))]
            extra = [q for q in num if not _is_pi(q) and not isinstance(au.const(q), (int, float)) and q is not lv[0]]
            n += 1
            dpoly = Poly.const(1)
            for d in others:
                dpoly = dpoly * sym.to_poly(_res(b, d, at=node))
            s = ctx.site(key[0], fn, node)
            ok = not extra and dpoly == trip
            wit = ""
            if not ok and not extra:
                g = G.GridFn(fn)
                mins = dict(ADMISSIBLE.get(key, {}))
                try:
                    for penv in g.param_envs(sorted(dpoly.atoms() | trip.atoms()), mins):
                        if dpoly.eval(penv) != trip.eval(penv):
                            wit = (f"; witness {G.fmt_env(penv)}: the last step reaches {trip.eval(penv) - 1}/{dpoly.eval(penv)} of a turn, "
                                   f"the seam closes only at {trip.eval(penv) - 1}/{trip.eval(penv)}")
                            break
                except G.Unsupported:
                    pass
            ctx.check(ok, "C14-A1", s,
                      f"the full turn of `{x}` is divided by `{dpoly}` while `{x}` runs over `{trip}` steps",
                      f"`{au.src(node)}`: the periodic direction must be sampled at x/T of a turn for x in range(T)" + wit,
                      note=f"{key[1]}: 2*pi*{x}/{trip}")
    _floor(ctx, "C14-A1", "C14-A1 full-turn parameters", n, 4)


# ----------------------------------------------------------------------- C14-W1
def w1_chain(ctx):
    fn = ctx.repo.func(LINES, "chain_of_vertices")
    site = ctx.site(LINES, fn)
    ps = au.params(fn)
    found = False
    for st in fn.body:
        if not (isinstance(st, ast.If) and st.orelse):
            continue
        pol = G.sw_eval(st.test, {ps[1]: True}) if len(ps) > 1 else None
        if pol is None:
            continue
        found = True
        on, off = (st.body, st.orelse) if pol else (st.orelse, st.body)

        def tails(body):
            return sorted({au.call_tail(c) for s_ in body for c in au.calls(s_) if au.call_tail(c) in ("cyclic_pairs", "consecutive_pairs")})
        ctx.check(tails(on) == ["cyclic_pairs"] and tails(off) == ["consecutive_pairs"], "C14-W1", ctx.site(LINES, fn, st),
                  f"chain_of_vertices: loop=True uses {tails(on)} and loop=False uses {tails(off)}",
                  "a closed loop needs the wrapping pair (n-1, 0); an open chain must not have it", note="loop switch wired as named")
        # both over all vertices
        b = sym.Bindings(fn)
        rargs = [_res(b, c.args[0], at=c) for s_ in st.body + st.orelse for c in au.calls(s_)
                 if au.call_tail(c) in ("cyclic_pairs", "consecutive_pairs") and c.args]
        args = [au.src(a) for a in rargs]

        def all_vertices(a):
            return isinstance(a, ast.Call) and au.call_tail(a) == "range" and len(a.args) == 1 and isinstance(a.args[0], ast.Call) \
                and au.call_tail(a.args[0]) == "len" and len(a.args[0].args) == 1 and isinstance(a.args[0].args[0], ast.Attribute) \
                and a.args[0].args[0].attr == "vertices"
        ctx.check(len(rargs) == 2 and all(all_vertices(a) for a in rargs), "C14-W1",
                  ctx.site(LINES, fn, st), f"chain_of_vertices: pairs are taken over {args} instead of all vertex indices",
                  "every vertex must be linked", note="pairs over range(len(vertices))")
    if not found:
        ctx.fail("C14-W1", site, "chain_of_vertices: branch on the `loop` switch not found", "")


# ----------------------------------------------------------------------- C14-R1
def r1_ring_bracket(ctx):
    import math
    from .. import order
    fn = ctx.repo.func(RINGS, "ring")
    site = ctx.site(RINGS, fn)
    b = sym.Bindings(fn)
    loops = [st for st in fn.body if isinstance(st, ast.While)]
    # the apex store: M.vertices[0] = combination of the two bracket ends
    ends = None
    for st in fn.body:
        if isinstance(st, ast.Assign) and isinstance(st.targets[0], ast.Subscript) and isinstance(st.targets[0].value, ast.Attribute) \
                and st.targets[0].value.attr == "vertices" and loops and st.lineno > loops[-1].lineno:
            try:
                P = sym.to_poly(st.value, opaque=False)
            except sym.NotPoly:
                continue
            if len(P.atoms()) == 2 and all(P.degree_in(a) == 1 for a in P.atoms()):
                ends = sorted(P.atoms())
    if len(loops) != 1 or ends is None:
        _LOST.add("C14-R1")
        ctx.fail("C14-R1", site, "ring: apex search loop and its two bracket ends (apex = (P1 + P2)/2) not found",
                 f"{len(loops)} while loop(s); the apex height must be searched so that the requested angle defect is met")
        return
    loop = loops[0]
    # initial heights of the two ends: literal Vec(0, 0, h) before the loop
    init = {}
    for st in fn.body:
        if st is loop:
            break
        for name, v in sym.split_assign(st):
            if name in ends and isinstance(v, ast.Call) and au.call_tail(v) == "Vec" and len(v.args) == 3:
                h = order.fold_const(v.args[2])
                if h is not None and order.fold_const(v.args[0]) == 0 and order.fold_const(v.args[1]) == 0:
                    init[name] = h
    if set(init) != set(ends):
        _LOST.add("C14-R1")
        ctx.fail("C14-R1", site, "ring: initial bracket of the apex search (two literal points on the axis) not found", f"ends {ends}, found {init}")
        return
    upper = max(ends, key=lambda k: init[k])
    # updates of the ends inside the loop
    updates = []
    for st in au.stmts(loop.body):
        for name, v in sym.split_assign(st):
            if name in ends:
                updates.append((st, name, v))
    if not updates:
        _LOST.add("C14-R1")
        ctx.fail("C14-R1", site, "ring: the search loop never updates its bracket", "")
        return
    extension = None
    for st, name, v in updates:
        e = G.fast_resolve(b, v, st, keep=tuple(ends))
        try:
            P = sym.to_poly(e, opaque=False)
        except sym.NotPoly:
            P = None
        convex = False
        if P is not None and P.atoms() <= set(ends) and all(len(k) == 1 for k in P.t):
            cs = [P.coeff(a).const_value() for a in ends]
            convex = sum(cs) == 1 and all(0 <= c <= 1 for c in cs)
        if not convex and name == upper:
            extension = (st, name, v)
    if extension is not None:
        st, name, v = extension
        # guard: target compared with the defect evaluated at the upper end, target larger
        gl = au.guards(st, stop=loop)
        tests = [t for t, pol in gl]
        target = au.params(fn)[1] if len(au.params(fn)) > 1 else None
        ok = False
        for t, pol in gl:
            if isinstance(t, ast.Compare) and len(t.ops) == 1:
                l, r = t.left, t.comparators[0]
                less = isinstance(t.ops[0], (ast.Lt, ast.LtE))
                if not isinstance(t.ops[0], (ast.Lt, ast.LtE, ast.Gt, ast.GtE)):
                    continue
                if less == pol:      # `l < r` holding, or `l > r` failing:  r is the larger side
                    l, r = r, l
                # l > r : l is the target, r depends on the upper end
                lr = G.fast_resolve(b, l, st, keep=(target,))
                rr = G.fast_resolve(b, r, st, keep=tuple(ends))
                if isinstance(l, ast.Name) and l.id == target and upper in au.names(rr) and not (set(ends) - {upper}) & au.names(rr):
                    ok = True
        ctx.check(ok, "C14-R1", ctx.site(RINGS, fn, st),
                  "ring: the bracket extension is not taken exactly when the requested defect exceeds the defect at the upper end",
                  f"`{au.src(st)}` under {[au.src(t) for t in tests]}: the upper end must grow when (and only when) the target lies above it",
                  note=f"ring: `{au.src(st)}` extends the bracket when the target exceeds the defect at {upper}")
        return
    # shrink-only loop: the initial bracket must already contain every admissible apex
    # admissible defects: the clamp  defect = max(min(defect, C), 0)  gives the largest one, C = 2*pi - eps
    eps = None
    target = au.params(fn)[1] if len(au.params(fn)) > 1 else None
    for c in au.calls(fn):
        if au.call_tail(c) == "min" and len(c.args) == 2 and any(isinstance(a, ast.Name) and a.id == target for a in c.args) \
                and c.lineno < loop.lineno:
            other = [a for a in c.args if not (isinstance(a, ast.Name) and a.id == target)]
            cst = order.fold_const(G.fast_resolve(b, other[0], c)) if other else None
            if cst is not None and cst < 2 * math.pi:
                eps = 2 * math.pi - cst
    H = init[upper]
    need = math.sqrt(max((2 * math.pi / eps) ** 2 - 1, 0)) if eps else float("inf")
    wit = ""
    if H < need:
        # witness computed from the closed form of the defect of a regular N-ring with apex at height H
        N = 6
        th = math.acos((math.cos(2 * math.pi / N) + H * H) / (1 + H * H))
        wit = (f"; witness N={N}: the largest defect reachable with the apex at height {H:g} is {2 * math.pi - N * th:.4f}, "
               f"any larger requested defect (up to {2 * math.pi - (eps or 0):.4f}) gets that apex instead of its own")
    ctx.check(H >= need, "C14-R1", ctx.site(RINGS, fn, loop),
              "ring: the apex search only shrinks its initial bracket, which does not contain every admissible apex height",
              f"every update of {ends} is a convex combination of the two ends, so the apex stays below the initial height {H:g}; "
              f"defects up to 2*pi-{eps if eps else '?'} need heights up to {need:.1f}" + wit,
              note=f"ring: fixed bracket up to {H:g} covers all admissible defects")


# ----------------------------------------------------------------------- C14-U1
# icosahedron is deliberately not listed: there `radius` scales the canonical coordinates (+-1, +-phi, 0), whose norm is
# sqrt(1 + phi^2) - documented as a scale factor only (doubtful, reported, not armed).
UNIT_FUNCS = [(SHAPES, "cylinder"), (SHAPES, "torus"), (SHAPES, "sphere_uv"), (SHAPES, "sphere_fibonacci"), (SHAPES, "icosphere")]


def u1_unit_directions(ctx):
    for key in UNIT_FUNCS:
        fn = ctx.repo.func(*key)
        site = ctx.site(key[0], fn)
        geo = DIM[key]
        it = D.Interp(fn, D.Config(geo, ctx.repo, key[0], unit=True)).run()
        radii = sorted(p for p, (d, a) in geo.items() if d == 1 and a == 0)
        obl = sorted(it.unit_obl.values(), key=lambda o: (o[0].lineno, o[0].col_offset, o[3]))
        if not obl:
            ctx.fail("C14-U1", site, f"{key[1]}: no direction scaled by {' / '.join(radii)} was found",
                     "the radius must multiply a unit direction (or be the coefficient of a unit vector in explicit coordinates)")
            continue
        for node, ok, kind, detail in obl:
            s = ctx.site(key[0], fn, node)
            if kind == "radius-times-direction":
                ctx.check(ok, "C14-U1", s, f"{key[1]}: the direction multiplied by the radius is not a proved unit vector",
                          f"`{au.src(node)[:120]}`: `{detail[:100]}` is neither a normalisation, a rotation of a unit vector, nor a vector "
                          f"whose squared components sum to 1 identically - the points are at distance radius*|d| instead of radius "
                          f"(e.g. components (u.y, -u.x, 0) of a unit vector u have norm sqrt(1 - u.z^2))",
                          note=f"{key[1]}: `{detail[:60]}` is a unit vector")
            else:
                ctx.check(ok, "C14-U1", s, f"{key[1]}: the coefficient vector of a radius in the explicit coordinates is not a unit vector",
                          f"`{au.src(node)[:80]}` with {detail[:160]}: its squared components do not sum to 1",
                          note=f"{key[1]}: {detail[:80]} is a unit vector")
