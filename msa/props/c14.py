"""C14 - procedural generators: generated index tables, element counts, switches, corner arithmetic, homogeneity, unit directions."""
from __future__ import annotations
import ast, math
from fractions import Fraction
from .. import au, sym, order
from ..sym import Poly
from ..core import AnalysisError
from ..rules import gen_c1419 as G
from ..rules import dim_c1419 as D
from ..rules import hi_exec as X
from ..rules import hi_norm as N
from ..rules import hi_conn as C
from ..rules.hi_conn import GenSpec

FLAT, SHAPES, RINGS, LINES = "procedural.flat", "procedural.shapes", "procedural.rings", "procedural.polylines"
TRANS = "procedural.transformations"
PROC_MODULES = [FLAT, SHAPES, RINGS, LINES, "procedural.dual", "procedural.transformations"]

EXPLANATION = (
    "Static conformance of the procedural generators, decided on the source only (nothing of the repository is imported or run). "
    "Connectivity: the syntax tree of each generator (and of the package helpers it calls) is evaluated over the domain "
    "{integers, booleans, exact rationals, sequences and arrays of known length, mesh containers} with every other value opaque, once per "
    "assignment of its integer parameters in a small admissible box (each resolution from its minimum to minimum+3, unequal values "
    "included) and of its boolean switches; the resulting literal index tables are checked like a literal table: indices in [0,|V|), "
    "no repeated face, consistent orientation, closedness / border loops, one component, documented counts and the Euler characteristic "
    "of the named shape (R-RANGE, R-TABLE, R-COUNT; bounded in the parameters, exact in everything else; a generator whose effect "
    "on the mesh depends on an opaque value is reported as undecided). Because statements are evaluated with their semantics the "
    "verdict does not depend on how the generator is written (records, Enum switches, dictionaries, nested helpers and methods of "
    "the instance are evaluated like any other code; match / map / partial are first rewritten into their if / comprehension "
    "equivalents, rules/hi_norm.py). Geometry: a forward abstract interpretation (length-degree, affine "
    "weight, must-dependence, unit-vector facts modulo sin^2+cos^2=1) decides homogeneity, dependence on radius / centre and that a "
    "radius multiplies a unit direction (R-DIM); corner arithmetic of quad / hexahedron_4pts / axis_aligned_cube is decided on the "
    "linear forms of the generated vertices; additionally positional forwarding of switches, the divisor of full-turn angles and "
    "the reachability of the ring apex bracket. Manifoldness beyond edge-manifoldness and geometry beyond these clauses are not decided.")

RULES = {
    "C14-S1": "grid consistency: a vertex attribute written for key k carries the leading coordinates (or the parameter samples) of "
              "vertex k, and every sample of a parameter linspace is consumed, for every small admissible parameter assignment",
    "C14-N1": "every index stored into faces / edges / cells, every vertex-attribute key and every vertex store lies in [0, |V|) for "
              "all small admissible parameters (unequal resolutions and minimal values included) and all switch values; evaluable "
              "index code does not raise (alarm only with a concrete witness)",
    "C14-C1": "|V|, |F_k| (and |E| of polylines) equal the documented polynomials for every switch value; "
              "V - E + F of the generated faces is the Euler characteristic of the named shape "
              "(sphere-like 2, torus 0, disks 1, open cylinders 0)",
    "C14-T1": "generated face tables: no repeated face, no face with a repeated vertex, each directed edge at most once (consistent "
              "orientation); closed shapes: each undirected edge exactly twice; open shapes: at most twice with one border loop "
              "(disks) or two (annuli); one connected component; a volume cell is a permutation of all vertices; vector_field links "
              "vertex 2i with 2i+1; a generator working on a caller-supplied surface never reverses a face on the sign of "
              "dot(p - centroid of the input, normal) (valid on star-shaped inputs only)",
    "C14-P1": "a variable passed positionally to a package function never lands in a *defaulted* parameter of another name while "
              "the callee has a parameter of the variable's own name",
    "C14-Q1": "corner arithmetic of quad / hexahedron_4pts / axis_aligned_cube (read off the generated vertices): every corner is an "
              "affine combination (weights sum to 1) of the given points, the requested corners are among them, a face taken in face "
              "order is a parallelogram (alternating corner sum 0) and the top face of the box is the bottom face translated",
    "C14-A1": "a full turn `2*pi*x/T` in a closed generator (or a helper it calls) is divided by the trip count of the loop / "
              "comprehension variable x it multiplies (otherwise the seam does not close when the two resolutions differ); ring / flat_ring "
              "(rim possibly generated by a private helper): consecutive rim points are 2*pi/N resp. (2*pi - defect)/N apart (N sectors span "
              "one turn, minus the defect for the flat ring, for any number of coverings)",
    "C14-W1": "chain_of_vertices: `loop=True` yields the cycle over all vertices, `loop=False` the open path (generated edge tables)",
    "C14-R1": "ring: the apex-height search can reach every admissible angle defect: either a loop has an update that moves the "
              "upper bracket end outside the current bracket (not a convex combination of the two ends), taken when the target exceeds "
              "the defect at the upper end, or the initial upper end is at least 2*pi/(2*pi - max_defect) high "
              "(a search that only shrinks [lo,hi] cannot leave its initial bracket)",
    "C14-U1": "a direction that is scaled by a radius parameter (radius * d, or the coefficient vector of the radius in an explicit "
              "Vec(x, y, z)) is not a vector whose squared components provably sum to something else than 1 "
              "(modulo sin^2+cos^2 = 1, sqrt(E)^2 = E, |u| = 1 of unit vectors); proved unit: a normalisation, a rotation of a unit "
              "vector, components whose squares sum to 1 identically",
    "C14-M1": "a generator never mutates shared state in place: a module-level table (list / array display), an entry of a "
              "module-level cache or the result of an lru_cache'd helper is only written through a copy that owns what is written "
              "(`T[:]` of an array is a view, `copy.copy(mesh)` shares its containers); a public generator never returns such a shared "
              "object itself (every caller gets its own mesh); a redundant copy is never a violation",
    "C14-D1": "vertex coordinates of the sphere / torus / cylinder generators (and of spherify_vertices / cylindrify_edges) have "
              "length-degree 1, sums are homogeneous, the result is translated by the centre (affine weight 1) and depends on "
              "every radius / centre / end-point parameter; rows of one array are translated together (no store through a proper slice that "
              "moves only a part of them); a direction is the normalisation of an offset from the centre, never of a position "
              "(x / |x| with x of affine weight 1 depends on the origin)",
}

ASSUMPTIONS = [
    "admissible resolutions: unit_grid nu,nv >= 2; unit_triangle nu >= nv >= 2; torus segments >= 3; sphere_uv n_lat >= 2, n_long >= 3; "
    "cylinder N >= 3; ring N >= 3 (guarded by the function), n_cover >= 1",
    "the connectivity clauses are decided for every parameter assignment in [min, min+3] per integer parameter (bounded)",
    "geometry: loops are assumed to run at least once; a path taken only for a count of zero whose result is empty carries no obligation; "
    "callables handed to private helpers, aliases of functions / bound methods and function-level imports are followed",
    "documented element counts are the ones stated in the docstrings / pinned by tests/test_procedural.py "
    "(sphere_uv: n_lat*n_long + 2 vertices)",
]


# ----------------------------------------------------------------------- documented counts
def _doc_unit_grid(p):
    return {"V": "nu*nv", "F": {3: "2*(nu-1)*(nv-1)"} if p.get("triangulate") else {4: "(nu-1)*(nv-1)"}}


def _doc_unit_triangle(p):
    return {"V": "nv*(nv+1)/2", "F": {3: "(nv-1)*(nv-1)"}}


def _doc_torus(p):
    n = "major_segments*minor_segments"
    return {"V": n, "F": {3: "2*" + n} if p.get("triangulate") else {4: n}}


def _doc_sphere_uv(p):
    # only the vertex count is documented / pinned by the tests; the faces are constrained by the Euler identity
    return {"V": "n_lat*n_long+2"}


def _doc_cylinder(p):
    return {"V": "2*N+2"} if p.get("fill_caps") else {"V": "2*N", "F": {3: "2*N"}}


def _doc_ring(p):
    return {"V": "N*n_cover+2" if p.get("open") else "N*n_cover+1", "F": {3: "N*n_cover"}}


def _doc_flat_ring(p):
    return {"V": "N*n_cover+2", "F": {3: "N*n_cover"}, "E": "1"}


def _doc_hexa(p):
    if p.get("volume"):
        return {"V": "8", "F": {}}
    return {"V": "8", "F": {3: "12"} if p.get("triangulate") else {4: "6"}}


def _pt(n):
    return X.Lin({n: 1})


def specs():
    hexa_pts = {f"P{i}": _pt(f"P{i}") for i in range(1, 9)}
    return [
        GenSpec(FLAT, "unit_grid", {"nu": (2, 5), "nv": (2, 5)}, ["triangulate", "generate_uvs"], topo="disk", counts=_doc_unit_grid,
                assoc=True, samples=True),
        GenSpec(FLAT, "unit_triangle", {"nu": (2, 5), "nv": (2, 5)}, ["generate_uvs"], topo="disk", admit=lambda p: p["nu"] >= p["nv"],
                counts=_doc_unit_triangle, assoc=True),
        GenSpec(FLAT, "quad", {}, ["triangulate"], fixed={"P0": _pt("P0"), "P1": _pt("P1"), "P2": _pt("P2")}, topo="disk",
                counts=lambda p: {"V": "4", "F": {3: "2"} if p.get("triangulate") else {4: "1"}}),
        GenSpec(FLAT, "triangle", {}, [], topo="disk", counts=lambda p: {"V": "3", "F": {3: "1"}}),
        GenSpec(SHAPES, "tetrahedron", {}, ["volume"], topo="sphere", counts=lambda p: {"V": "4", "F": {3: "4"}}, cells=True),
        GenSpec(SHAPES, "hexahedron", {}, ["colored", "triangulate", "volume"], fixed=hexa_pts,
                topo=lambda p: None if p.get("volume") else "sphere", counts=_doc_hexa, cells=True),
        GenSpec(SHAPES, "axis_aligned_cube", {}, ["colored", "triangulate"], topo="sphere", counts=_doc_hexa, float_defaults=True),
        GenSpec(SHAPES, "hexahedron_4pts", {}, ["colored", "volume"], fixed={f"P{i}": _pt(f"P{i}") for i in range(1, 5)},
                topo=lambda p: None if p.get("volume") else "sphere", counts=_doc_hexa, cells=True),
        GenSpec(SHAPES, "icosahedron", {}, [], topo="sphere", counts=lambda p: {"V": "12", "F": {3: "20"}}),
        GenSpec(SHAPES, "cylinder", {"N": (3, 6)}, ["fill_caps"], topo=lambda p: "sphere" if p.get("fill_caps") else "annulus",
                counts=_doc_cylinder),
        GenSpec(SHAPES, "torus", {"major_segments": (3, 6), "minor_segments": (3, 6)}, ["triangulate"], topo="torus", counts=_doc_torus),
        GenSpec(SHAPES, "sphere_uv", {"n_lat": (2, 5), "n_long": (3, 6)}, [], topo="sphere", counts=_doc_sphere_uv),
        GenSpec(RINGS, "ring", {"N": (3, 6), "n_cover": (1, 3)}, ["open"], topo="disk", counts=_doc_ring),
        GenSpec(RINGS, "flat_ring", {"N": (1, 4), "n_cover": (1, 3)}, [], topo="disk", counts=_doc_flat_ring),
        GenSpec(LINES, "vector_field", {"n": (1, 4)}, [], edge_rows=True,
                fixed={"origins": lambda p: X.rows(p["n"], tag="origins"), "vectors": lambda p: X.rows(p["n"], tag="vectors")},
                counts=lambda p: {"V": "2*n", "E": "n"}, polyline=lambda p: [(2 * i, 2 * i + 1) for i in range(p["n"])]),
    ]


CONN_RULES = {"range": "C14-N1", "table": "C14-T1", "counts": "C14-C1", "assoc": "C14-S1"}

# R-DIM: geometric parameters (degree, affine weight); centre-like parameters require affine weight 1 of the result
DIM = {
    (SHAPES, "icosahedron"): {"center": (1, 1), "radius": (1, 0)},
    (SHAPES, "icosphere"): {"center": (1, 1), "radius": (1, 0)},
    (SHAPES, "sphere_uv"): {"center": (1, 1), "radius": (1, 0)},
    (SHAPES, "sphere_fibonacci"): {"radius": (1, 0)},
    (SHAPES, "torus"): {"major_radius": (1, 0), "minor_radius": (1, 0)},
    (SHAPES, "cylinder"): {"P1": (1, 1), "P2": (1, 1), "radius": (1, 0)},
    (TRANS, "spherify_vertices"): {"radius": (1, 0), "points": (1, 1)},
    (TRANS, "cylindrify_edges"): {"radius": (0, 0)},      # a multiple of the mean edge length
}
DIM_REQUIRE = {(TRANS, "spherify_vertices"): ["radius", "points"], (TRANS, "cylindrify_edges"): ["radius", "mesh"]}


def _res(b, expr, at=None, keep=()):
    return G.fast_resolve(b, expr, at, keep)


def guarded(ctx, rule, mod, what, f, *args):
    """run one rule family; an exception of the analysis itself on code it was not prepared for is an *undecided* obligation of that
    family (never a verdict, never a crash of the whole check).  MSA_HI_RAISE=1 re-raises (development)."""
    import os
    try:
        return f(ctx, *args)
    except AnalysisError:
        raise
    except Exception as e:      # noqa: BLE001 - deliberate: see docstring
        if os.environ.get("MSA_HI_RAISE"):
            raise
        ctx.undecided(rule, ctx.site(mod, "<module>"), f"{what}: the analysis could not process the code", f"internal {type(e).__name__}")
        return None


def run(ctx):
    N.normalise(ctx.repo, PROC_MODULES)
    runs = {}
    for spec in specs():
        runs[(spec.mod, spec.name)] = (spec, guarded(ctx, "C14-N1", spec.mod, f"connectivity of {spec.name}", C.check_generator, spec, CONN_RULES))
    guarded(ctx, "C14-W1", LINES, "edge table of chain_of_vertices", w1_chain)
    guarded(ctx, "C14-Q1", SHAPES, "corner arithmetic", q1_corners, {k: v for k, v in runs.items() if v[1] is not None})
    guarded(ctx, "C14-P1", SHAPES, "positional forwarding", p1_forwarding)
    guarded(ctx, "C14-D1", SHAPES, "homogeneity and dependence", d1_dimension)
    guarded(ctx, "C14-A1", SHAPES, "full-turn divisors", a1_full_turn)
    guarded(ctx, "C14-A1", RINGS, "wedge angle of flat_ring", a1_flat_ring_wedge)
    guarded(ctx, "C14-R1", RINGS, "apex search of ring", r1_ring_bracket)
    guarded(ctx, "C14-U1", SHAPES, "unit directions", u1_unit_directions)
    guarded(ctx, "C14-M1", SHAPES, "shared state", m1_shared_state)
    guarded(ctx, "C14-T1", "procedural.dual", "orientation tests", t1_orientation_test)
    ctx.declare_unsupported("connectivity clauses (C14-N1/T1/C1/S1/W1) are decided for integer parameters in [min, min+3] only (bounded evaluation)")
    ctx.declare_unsupported("unit_triangle: only resolutions nu >= nv are analysed (for nu < nv the rows cannot hold 1..nv vertices: declared inadmissible)")
    ctx.declare_unsupported("sphere_fibonacci: connectivity comes from scipy ConvexHull (only C14-D1 / C14-U1 on the coordinates)")
    ctx.declare_unsupported("dual_mesh: faces are vertex_to_faces() rings of the input mesh (data dependent)")
    ctx.declare_unsupported("ring: convergence / accuracy of the apex bisection (numeric loop); only the reachability of the "
                            "bracket is decided (C14-R1)")
    # the unsupported generators must still exist (fail closed if they vanish)
    for key in [(SHAPES, "sphere_fibonacci"), ("procedural.dual", "dual_mesh"), (SHAPES, "icosphere")]:
        ctx.repo.func(*key)


# ----------------------------------------------------------------------- C14-W1
def w1_chain(ctx):
    spec = GenSpec(LINES, "chain_of_vertices", {"n": (3, 6)}, ["loop"], fixed={"vertices": lambda p: X.rows(p["n"])},
                   counts=lambda p: {"V": "n"},
                   polyline=lambda p: [(i, i + 1) for i in range(p["n"] - 1)] + ([(p["n"] - 1, 0)] if p.get("loop") else []))
    C.check_generator(ctx, spec, {"range": "C14-W1", "table": "C14-W1", "counts": "C14-W1"})


# ----------------------------------------------------------------------- C14-P1
def p1_forwarding(ctx):
    for modname in PROC_MODULES:
        mod = ctx.repo.module(modname)
        for fn, call, callee, i, var, recv in G.forwarding_sites(ctx.repo, mod):
            if recv not in G.defaulted_params(callee):
                continue
            callee_params = set(au.params(callee))
            bad = var != recv and var in callee_params
            s = ctx.site(modname, fn, call)
            if not bad:
                ctx.ok("C14-P1", s, f"{fn.name} -> {callee.name}: `{var}` lands in `{recv}`")
                continue
            ctx.fail("C14-P1", s, f"`{var}` is passed positionally into the defaulted parameter `{recv}` of {callee.name}",
                     f"{callee.name} has its own parameter `{var}`, which keeps its default: the value given to {fn.name} for "
                     f"`{var}` drives `{recv}` of {callee.name} instead (e.g. {var}=True turns `{recv}` on)")


# ----------------------------------------------------------------------- C14-D1
def d1_dimension(ctx):
    for key, geo in DIM.items():
        fn = ctx.repo.func(*key)
        it = D.Interp(fn, D.Config(geo, ctx.repo, key[0])).run()
        dim_obligations(ctx, "C14-D1", key, fn, it, geo, require=DIM_REQUIRE.get(key))


def dim_obligations(ctx, rule, key, fn, it, geo, require=None):
    """Shared with C19: homogeneity events, degree / affine weight of the produced coordinates, dependence.
    A degree / dependence the lattice cannot derive is *undecided*; only a derived contradiction is a violation."""
    n = 0
    site = ctx.site(key[0], fn)
    need_aff = any(Fraction(a) == 1 for d, a in geo.values())
    for node, kind, detail in it.events:
        n += 1
        if kind == "position-normalised":
            ctx.fail(rule, ctx.site(key[0], fn, node), "a direction is obtained by normalising a position instead of an offset from the centre",
                     f"`{au.src(node)[:120]}` normalises `{detail}`, which moves with the centre (affine weight 1): the direction depends on where the "
                     f"origin is, the produced points are not the radial projection from the centre (moving the centre by t does not move them by t)")
        elif kind == "inhomogeneous-sum":
            ctx.fail(rule, ctx.site(key[0], fn, node),
                     f"a term of length-degree {D.fmt_deg(detail[0])} is added to a term of degree {D.fmt_deg(detail[1])}",
                     f"`{au.src(node)}` is not homogeneous: scaling all lengths (radius, centre, box) by s does not scale the result by s")
        else:
            ctx.fail(rule, ctx.site(key[0], fn, node), f"coordinates of different length-degree are mixed {tuple(D.fmt_deg(x) for x in detail)}",
                     f"`{au.src(node)[:120]}`")
    def empty(v_):
        return v_.empty
    sinks = []
    for node, v in it.vertex_stores:
        sinks.append((node, v, "vertex coordinates stored"))
    for node, v in it.returns:
        for pos, x in enumerate(v.items if v.items else [v]):
            tgt = x.verts if x.verts is not None else x
            if empty(tgt):
                continue        # an empty result (special case answered up front) carries no coordinates
            if x.verts is not None and any(tgt is a for n_, a in it.vertex_stores):
                continue
            # the first returned value is the coordinates; further values (normals, indices ...) are not lengths
            if pos == 0:
                sinks.append((node, tgt, "returned coordinates"))
    if not sinks:
        ctx.undecided(rule, site, f"no coordinates produced by {key[1]} were found", "neither a vertex store nor a returned array")
        return n + 1
    had_event = bool(it.events)
    for node, v, what_ in sinks:
        n += 1
        s = ctx.site(key[0], fn, node)
        if v.deg is None:
            if had_event:
                continue   # already reported at the offending sum
            ctx.undecided(rule, s, f"length-degree of the {what_} by {key[1]} is not derivable",
                          f"`{au.src(node)[:120]}` goes through an expression the degree lattice does not know")
            continue
        if v.deg != D.ANY and v.deg != 1:
            ctx.fail(rule, s, f"{what_} have length-degree {D.fmt_deg(v.deg)} instead of 1",
                     f"`{au.src(node)[:120]}`: scaling radius/centre by s must scale the coordinates by s")
            continue
        if need_aff and isinstance(v.aff, D.AffMix):
            where = next(iter(it.partial_stores.values()), None)
            ctx.fail(rule, ctx.site(key[0], fn, where) if where is not None else s,
                     f"only a part of the {what_.replace('stored', '').strip()} is translated with the centre / end points",
                     f"`{au.src(where)[:100] if where is not None else au.src(node)[:100]}` changes the affine weight of the rows it addresses only: the produced "
                     f"rows have affine weights {sorted(str(x) for x in v.aff)} (the rows left out of the slice are not moved when the centre moves)")
            continue
        if need_aff and v.aff is not None and v.aff != D.ANY and v.aff != 1:
            ctx.fail(rule, s, f"{what_} have affine weight {v.aff} instead of 1 (not translated with the centre / end points)",
                     f"`{au.src(node)[:120]}`: moving the centre by t must move every produced point by t")
            continue
        ctx.ok(rule, s, f"{key[1]}: {what_} have degree {D.fmt_deg(v.deg)}, affine weight {D.fmt_deg(v.aff)}")
    # dependence: every geometric parameter reaches the result on every path
    finals = []
    for node, v in it.returns:
        for x in (v.items[:1] if v.items else [v]):
            tgt = x.verts if x.verts is not None else x
            if not empty(tgt):
                finals.append((node, tgt))
    for p in sorted(require if require is not None else geo):
        n += 1
        alts = p if isinstance(p, tuple) else (p,)
        pname = " / ".join(alts)
        bad = unknown = None
        for node, v in finals:
            if v.deps is not None and any(D.has_dep(v.deps, a) for a in alts):
                continue        # a definite dependence, whatever else the value may depend on
            if v.deps is None or v.opaque or v.deg is None:
                # a value whose construction the lattice could not follow (unknown degree) may depend on the parameter through
                # a path the analysis did not see (stores into a copied mesh ...): not a refutation
                unknown = unknown or (node, v)
            else:
                bad = bad or (node, v)
        if not finals:
            ctx.undecided(rule, site, f"{key[1]} returns nothing the dependence on `{pname}` can be read from", "")
        elif bad:
            where = next((bad[1].missing[a] for a in alts if a in bad[1].missing), None)
            ctx.fail(rule, ctx.site(key[0], fn, bad[0]), f"the result of {key[1]} does not depend on `{pname}`" + (" on every path" if where else ""),
                     (f"on {where} " if where else "") + f"the returned coordinates are computed without `{pname}`: "
                     f"changing it does not move the points")
        elif unknown:
            ctx.undecided(rule, ctx.site(key[0], fn, unknown[0]), f"dependence of the result of {key[1]} on `{pname}` is not derivable",
                          f"`{au.src(unknown[0])[:100]}` returns a value whose provenance the analysis cannot follow")
        else:
            ctx.ok(rule, site, f"{key[1]}: `{pname}` reaches the returned coordinates on every path")
    return n


# ----------------------------------------------------------------------- C14-Q1
def _lin_poly(v):
    """generated vertex -> Poly over the point atoms (Lin) or over the axes ex, ey, ez (literal Vec); None otherwise"""
    if isinstance(v, X.Lin):
        return Poly({(k,): c for k, c in v.t.items()})
    if isinstance(v, X.VecV) and v.numeric() and len(v.comps) == 3:
        return Poly({("ex",): Fraction(v.comps[0]), ("ey",): Fraction(v.comps[1]), ("ez",): Fraction(v.comps[2])})
    return None


def _weights_sum(P, points):
    tot = Fraction(0)
    for k, v in P.t.items():
        if len(k) != 1 or k[0] not in points:
            return None
        tot += v
    return tot


def _corner_polys(ctx, runs, key, nverts):
    """the vertices generated by the first evaluated run of `key` as linear forms, or (None, reason)"""
    if key not in runs:
        return None, "the generator could not be evaluated (see C14-N1)"
    spec, rs = runs[key]
    ok = [r for r in rs if r.status == "ok"]
    if not ok:
        return None, "the generator could not be evaluated (see C14-N1)"
    vs = ok[0].mesh.c["vertices"].data
    if len(vs) != nverts:
        return None, f"{len(vs)} vertices generated"
    polys = [_lin_poly(v) for v in vs]
    if any(p is None for p in polys):
        return None, "a corner is not a linear form of the given points: " + ", ".join(repr(v) for v in vs)[:200]
    return polys, ""


def q1_corners(ctx, runs):
    # ---- quad
    fn = ctx.repo.func(FLAT, "quad")
    site = ctx.site(FLAT, fn)
    ps = au.params(fn)[:3]
    polys, why = _corner_polys(ctx, runs, (FLAT, "quad"), 4)
    if polys is None:
        ctx.undecided("C14-Q1", site, "quad: the four corners are not found as affine forms of the given points", why)
    else:
        sums = [_weights_sum(p, ps) for p in polys]
        if any(x is None for x in sums):
            ctx.undecided("C14-Q1", site, "quad: the four corners are not found as affine forms of the given points",
                          f"corners {[str(p) for p in polys]}")
        else:
            ctx.check(all(x == 1 for x in sums), "C14-Q1", site,
                      "quad: a corner is not an affine combination of the given points (weights do not sum to 1)",
                      f"corners {[str(p) for p in polys]}: the quad does not move with its three points", note="quad corners are affine")
            alt = polys[0] - polys[1] + polys[2] - polys[3]
            ctx.check(alt.is_zero(), "C14-Q1", site,
                      "quad: the corners taken in face order (0,1,2,3) do not form a parallelogram",
                      f"v0 - v1 + v2 - v3 = {alt} for corners {[str(p) for p in polys]}: the face is self-intersecting (bow-tie) or skewed",
                      note="quad corners in face order form a parallelogram")
            given = {str(Poly.atom(p)) for p in ps}
            ctx.check(given <= {str(p) for p in polys}, "C14-Q1", site,
                      "quad: one of the requested corners P0, P1, P2 is not a vertex of the quad",
                      f"corners {[str(p) for p in polys]}", note="quad contains P0, P1, P2")
    # ---- hexahedron_4pts
    fn = ctx.repo.func(SHAPES, "hexahedron_4pts")
    site = ctx.site(SHAPES, fn)
    ps = au.params(fn)[:4]
    polys, why = _corner_polys(ctx, runs, (SHAPES, "hexahedron_4pts"), 8)
    if polys is None:
        ctx.undecided("C14-Q1", site, "hexahedron_4pts: the eight corners are not found as affine forms of the given points", why)
    else:
        _box_checks(ctx, SHAPES, fn, fn, polys, "hexahedron_4pts",
                    lambda P: _weights_sum(P, ps) == 1 if P is not None else False,
                    required={0: Poly.atom(ps[0]), 1: Poly.atom(ps[1]), 3: Poly.atom(ps[2]), 4: Poly.atom(ps[3])})
    # ---- axis_aligned_cube: literal corners
    fn = ctx.repo.func(SHAPES, "axis_aligned_cube")
    site = ctx.site(SHAPES, fn)
    polys, why = _corner_polys(ctx, runs, (SHAPES, "axis_aligned_cube"), 8)
    if polys is None or any(not p.atoms() <= {"ex", "ey", "ez"} for p in polys):
        ctx.undecided("C14-Q1", site, "axis_aligned_cube: the eight corners are not found as literal points", why)
    else:
        _box_checks(ctx, SHAPES, fn, fn, polys, "axis_aligned_cube", lambda P: True, required={})
        vecs = [tuple(p.coeff(a).const_value() for a in ("ex", "ey", "ez")) for p in polys]
        # unit cube centred at the origin: all corners (+-1/2, +-1/2, +-1/2), all distinct
        ok = all(all(abs(x) == Fraction(1, 2) for x in v) for v in vecs) and len(set(vecs)) == 8
        ctx.check(ok, "C14-Q1", site, "axis_aligned_cube: corners are not the eight points (+-0.5, +-0.5, +-0.5)",
                  f"{[tuple(float(x) for x in v) for v in vecs]}", note="unit cube corners")


def _box_checks(ctx, modname, fn, node, polys, label, affine_ok, required):
    s = ctx.site(modname, fn, node)
    ctx.check(all(affine_ok(p) for p in polys), "C14-Q1", s,
              f"{label}: a corner is not an affine combination of the given points (weights do not sum to 1)",
              f"corners {[str(p) for p in polys]}", note=f"{label}: corners are affine")
    bottom = polys[0] - polys[1] + polys[2] - polys[3]
    ctx.check(bottom.is_zero(), "C14-Q1", s, f"{label}: bottom corners 0,1,2,3 do not form a parallelogram in face order",
              f"v0 - v1 + v2 - v3 = {bottom}", note=f"{label}: bottom face is a parallelogram")
    lifts = [polys[i + 4] - polys[i] for i in range(4)]
    ctx.check(all(l == lifts[0] for l in lifts) and not lifts[0].is_zero(), "C14-Q1", s,
              f"{label}: top corners 4..7 are not the bottom corners 0..3 translated by one vector",
              f"v4-v0, v5-v1, v6-v2, v7-v3 = {[str(l) for l in lifts]}: the side faces of the documented numbering are twisted",
              note=f"{label}: top = bottom + {lifts[0]}")
    for i, want in sorted(required.items()):
        ctx.check(polys[i] == want, "C14-Q1", s, f"{label}: corner {i} is `{polys[i]}` instead of the requested point `{want}`",
                  "the box is not built on the requested corners", note=f"{label}: corner {i} = {want}")


# ----------------------------------------------------------------------- helpers shared by A1 / R1: functions reachable from a generator
def reachable(ctx, modname, fn, depth=2):
    """[(module name, FunctionDef)]: fn, its nested functions and the package functions of the procedural modules it calls by name"""
    out, seen = [], set()

    def add(mn, f, d):
        if id(f) in seen:
            return
        seen.add(id(f))
        out.append((mn, f))
        for n in ast.walk(f):
            if n is not f and isinstance(n, (ast.FunctionDef, ast.AsyncFunctionDef)):
                if id(n) not in seen:
                    seen.add(id(n))
                    out.append((mn, n))
        if d <= 0:
            return
        for c in ast.walk(f):
            if isinstance(c, ast.Call) and isinstance(c.func, ast.Name):
                r = ctx.repo.resolve_func(mn, c.func.id)
                if r and r[1] is not None and r[0].name.startswith("mouette.procedural"):
                    add(r[0].name, r[1], d - 1)
    mn = modname if modname.startswith("mouette") else "mouette." + modname
    add(mn, fn, depth)
    return out


# ----------------------------------------------------------------------- C14-A1
def _flatten_product(e, num, den, inv=False):
    if isinstance(e, ast.BinOp) and isinstance(e.op, ast.Mult):
        _flatten_product(e.left, num, den, inv)
        _flatten_product(e.right, num, den, inv)
    elif isinstance(e, ast.BinOp) and isinstance(e.op, ast.Div):
        _flatten_product(e.left, num, den, inv)
        _flatten_product(e.right, num, den, not inv)
    elif isinstance(e, ast.UnaryOp) and isinstance(e.op, ast.UAdd):
        _flatten_product(e.operand, num, den, inv)
    else:
        (den if inv else num).append(e)


def _is_pi(e):
    c = au.chain(e)
    return bool(c) and c[-1] == "pi"


def _range_trip(it):
    """trip-count expression of `range(T)` / `range(0, T)` / `np.arange(T)`, else None"""
    if isinstance(it, ast.Call) and au.call_tail(it) in ("range", "arange") and not it.keywords:
        if len(it.args) == 1:
            return it.args[0]
        if len(it.args) == 2 and au.const(it.args[0]) == 0:
            return it.args[1]
    return None


def _index_bindings(node):
    """names bound around `node` to 0..T-1: range loops and comprehension generators -> {name: (trip expression, binder node)}"""
    out = {}
    child = node
    for a in au.ancestors(node):
        if isinstance(a, (ast.For, ast.AsyncFor)) and isinstance(a.target, ast.Name) and any(child is s for s in a.body):
            t = _range_trip(a.iter)
            if t is not None:
                out.setdefault(a.target.id, (t, a))
        elif isinstance(a, (ast.ListComp, ast.GeneratorExp, ast.SetComp, ast.DictComp)):
            for g in a.generators:
                if isinstance(g.target, ast.Name) and child is not g and not (child is g.iter):
                    t = _range_trip(g.iter)
                    if t is not None:
                        out.setdefault(g.target.id, (t, a))
        if isinstance(a, (ast.FunctionDef, ast.AsyncFunctionDef, ast.Lambda)):
            break
        child = a
    return out


def a1_full_turn(ctx):
    for key in [(SHAPES, "torus"), (SHAPES, "sphere_uv"), (SHAPES, "cylinder")]:
        fn = ctx.repo.func(*key)
        found = 0
        for mn, f in reachable(ctx, key[0], fn):
            b = sym.Bindings(f)
            params = tuple(au.params(f))
            for node in au.walk(f):
                if isinstance(node, ast.Call) and au.call_tail(node) == "linspace" and len(node.args) >= 3:
                    # np.linspace(0, 2*pi, T, endpoint=False): T samples of a full turn
                    ep = next((k.value for k in node.keywords if k.arg == "endpoint"), None)
                    hi = order.fold_const(_res(b, node.args[1], at=node))
                    if au.const(node.args[0]) == 0 and hi is not None and abs(hi - 2 * math.pi) < 1e-9 and ep is not None and au.const(ep) is False:
                        found += 1
                        ctx.ok("C14-A1", ctx.site(mn, f, node), f"{key[1]}: linspace over a full turn without its end point")
                    continue
                if not (isinstance(node, ast.BinOp) and isinstance(node.op, (ast.Mult, ast.Div))):
                    continue
                par = au.parent(node)
                if isinstance(par, ast.BinOp) and isinstance(par.op, (ast.Mult, ast.Div)):
                    continue   # not maximal
                idx = _index_bindings(node)
                full = _res(b, node, at=node, keep=tuple(idx) + params)
                num, den = [], []
                _flatten_product(full, num, den)
                if not any(_is_pi(x) for x in num):
                    continue
                c = Fraction(1)
                for x in num:
                    if isinstance(au.const(x), (int, float)) and not isinstance(au.const(x), bool):
                        c *= Fraction(au.const(x)).limit_denominator(1000)
                for x in den:
                    if isinstance(au.const(x), (int, float)) and not isinstance(au.const(x), bool) and au.const(x) != 0:
                        c /= Fraction(au.const(x)).limit_denominator(1000)
                if c != 2:
                    continue   # not a full turn (half turns of the latitude are not periodic)
                lv = [x for x in num if isinstance(x, ast.Name) and x.id in idx]
                arange = [x for x in num if _range_trip(x) is not None and au.call_tail(x) == "arange"]
                if len(lv) + len(arange) != 1:
                    continue
                if lv:
                    xname = lv[0].id
                    trip_e, binder = idx[xname]
                    trip = sym.to_poly(_res(b, trip_e, at=binder if isinstance(binder, ast.stmt) else node, keep=params))
                    factor = lv[0]
                else:
                    xname = au.src(arange[0])
                    trip = sym.to_poly(_res(b, _range_trip(arange[0]), at=node, keep=params))
                    factor = arange[0]
                others = [d for d in den if not isinstance(au.const(d), (int, float))]
                extra = [q for q in num if not _is_pi(q) and not isinstance(au.const(q), (int, float)) and q is not factor]
                if extra:
                    continue   # scaled by something else: not the plain periodic parameter
                found += 1
                dpoly = Poly.const(1)
                for d in others:
                    dpoly = dpoly * sym.to_poly(d)
                s = ctx.site(mn, f, node)
                if dpoly == trip:
                    ctx.ok("C14-A1", s, f"{key[1]}: 2*pi*{xname}/{trip}")
                    continue
                wit = None
                if all(not a.startswith("⟨") for a in dpoly.atoms() | trip.atoms()):
                    g = G.GridFn(f)
                    mins = {"major_segments": 3, "minor_segments": 3, "n_lat": 2, "n_long": 3, "N": 3}
                    try:
                        for penv in g.param_envs(sorted(dpoly.atoms() | trip.atoms()), mins):
                            if dpoly.eval(penv) != trip.eval(penv):
                                wit = (f"; witness {G.fmt_env(penv)}: the last step reaches {trip.eval(penv) - 1}/{dpoly.eval(penv)} of a turn, "
                                       f"the seam closes only at {trip.eval(penv) - 1}/{trip.eval(penv)}")
                                break
                    except G.Unsupported:
                        pass
                if wit is None:
                    ctx.declare_unsupported(f"{key[1]}: divisor `{dpoly}` of a full turn is not comparable with the trip count `{trip}` of its index")
                    continue
                ctx.fail("C14-A1", s, f"the full turn of `{xname}` is divided by `{dpoly}` while `{xname}` runs over `{trip}` steps",
                         f"`{au.src(node)}`: the periodic direction must be sampled at x/T of a turn for x in range(T)" + wit)
        if not found:
            # the clause sharpens the geometric reading of "closed" (evenly sampled seam); the combinatorial closure is decided by
            # C14-T1 / C14-C1 on the generated tables, so an unrecognised spelling is declared, not left undecided
            ctx.declare_unsupported(f"{key[1]}: no full-turn expression `2*pi*x/T` over a range index recognised (C14-A1 not applied)")


# ----------------------------------------------------------------------- C14-R1
LOOPS = (ast.For, ast.AsyncFor, ast.While)


def _height(v):
    """literal height of a bracket end: a number, or Vec(0, 0, h)"""
    h = order.fold_const(v)
    if h is not None:
        return h
    if isinstance(v, ast.Call) and au.call_tail(v) == "Vec" and len(v.args) == 3:
        h = order.fold_const(v.args[2])
        if h is not None and order.fold_const(v.args[0]) == 0 and order.fold_const(v.args[1]) == 0:
            return h
    return None


def _heights(v, env):
    """possible heights (a small set of numbers) of an expression over the bracket ends bound so far: literals, Vec(0, 0, h),
    an end, c*end, end/c, end +- end;  None when not derivable"""
    h = _height(v)
    if h is not None:
        return {h}
    if isinstance(v, ast.Name):
        return set(env[v.id]) if env.get(v.id) else None
    if isinstance(v, ast.UnaryOp) and isinstance(v.op, ast.USub):
        a = _heights(v.operand, env)
        return {-x for x in a} if a else None
    if isinstance(v, ast.BinOp):
        a, b = _heights(v.left, env), _heights(v.right, env)
        ca, cb = order.fold_const(v.left), order.fold_const(v.right)
        if isinstance(v.op, ast.Mult):
            if ca is not None and b:
                return {ca * x for x in b}
            if cb is not None and a:
                return {x * cb for x in a}
            return None
        if isinstance(v.op, ast.Div) and cb not in (None, 0) and a:
            return {x / cb for x in a}
        if isinstance(v.op, (ast.Add, ast.Sub)) and a and b and len(a) * len(b) <= 16:
            return {(x + y) if isinstance(v.op, ast.Add) else (x - y) for x in a for y in b}
    return None


def _initial_bracket(f, ends, first_loop):
    """possible initial heights of the two ends, following the straight-line and conditional statements before the search loop
    (`if target > f(hi): lo, hi = hi, 2*hi` extends the bracket once)"""
    env = {}

    def run(stmts, env, conditional):
        for st in stmts:
            if getattr(st, "lineno", 0) >= first_loop.lineno:
                break
            if isinstance(st, ast.If):
                e1, e2 = dict(env), dict(env)
                run(st.body, e1, True)
                run(st.orelse, e2, True)
                for k in set(e1) | set(e2):
                    a, b = e1.get(k), e2.get(k)
                    env[k] = None if (a is None or b is None) else (set(a) | set(b))
                continue
            if isinstance(st, (ast.For, ast.While, ast.Try, ast.With)):
                for k in {n for s2 in au.stmts([st]) for n, _ in sym.split_assign(s2) if n in ends}:
                    env[k] = None
                continue
            pairs = [(n, v) for n, v in sym.split_assign(st) if n in ends]
            new = {n: _heights(v, env) for n, v in pairs}      # simultaneous assignment: all right-hand sides first
            env.update(new)
    run(list(f.body), env, False)
    return env


def _end_updates(body, ends):
    """[(stmt, end name, value expression, co-assigned names)] for the (re)bindings of the bracket ends in `body`"""
    out = []
    for st in au.stmts(body):
        pairs = list(sym.split_assign(st))
        for name, v in pairs:
            if name in ends:
                out.append((st, name, v, [n for n, _ in pairs if n != name]))
        if isinstance(st, ast.AugAssign) and isinstance(st.target, ast.Name) and st.target.id in ends:
            out.append((st, st.target.id, ast.BinOp(ast.Name(st.target.id, ast.Load()), st.op, st.value), []))
    return out


def _assoc(f, b, expr, at, ends, upper):
    """which bracket end the value `expr` (a defect evaluated at an end) belongs to: 'upper' / 'lower' / None (unknown)"""
    lower = [e for e in ends if e != upper][0]
    r = G.fast_resolve(b, expr, at, keep=tuple(ends))
    m = au.names(r) & set(ends)
    if m == {upper}:
        return "upper"
    if m == {lower}:
        return "lower"
    if m:
        return None
    if not isinstance(expr, ast.Name):
        return None
    # a value carried from one iteration to the next: every definition is either computed from one end or assigned together with it
    votes = set()
    for st in au.stmts(f.body):
        pairs = list(sym.split_assign(st))
        for k, (name, v) in enumerate(pairs):
            if name != expr.id:
                continue
            mm = au.names(v) & set(ends)
            co = [n for n, _ in pairs if n in ends]
            if len(mm) == 1:
                votes.add(next(iter(mm)))
            elif not mm and len(co) == 1:
                votes.add(co[0])
            elif not mm and not co:
                # the end rebound by the neighbouring statement of the same block
                blk, _ = au.enclosing_block(st)
                near = set()
                if blk:
                    i = [id(x) for x in blk].index(id(st))
                    for s2 in blk[max(0, i - 1):i + 2]:
                        near |= {n for n, _ in sym.split_assign(s2) if n in ends}
                if len(near) == 1:
                    votes.add(next(iter(near)))
                else:
                    votes.add("?")
            else:
                votes.add("?")
    if votes == {upper}:
        return "upper"
    if votes == {lower}:
        return "lower"
    return None


def _r1_cached_values(ctx, mn, f, loops, ends, first_loop):
    """a value computed from one bracket end before the search loop and kept across the iterations (the defect at that end) must be
    refreshed wherever that end is rebound - otherwise the loop decides on the value of a point that is no longer the end"""
    cached = {}        # name -> the end it is a function of
    for st in au.stmts(f.body):
        if getattr(st, "lineno", 0) >= first_loop.lineno:
            break
        for name, v in sym.split_assign(st):
            hit = au.names(v) & set(ends)
            if name not in ends and len(hit) == 1 and isinstance(v, (ast.Call, ast.BinOp)):
                cached[name] = next(iter(hit))
    for c, e in sorted(cached.items()):
        for lp in loops:
            used = any(isinstance(n, ast.Name) and n.id == c and isinstance(n.ctx, ast.Load) for n in au.walk(lp))
            top = {n for st in lp.body for n, _ in sym.split_assign(st)}
            if not used or c in top:
                continue        # not read by the loop, or recomputed at every iteration
            for st, name, v, co in _end_updates(lp.body, ends):
                if name != e:
                    continue
                blk, _ = au.enclosing_block(st)
                rebinds = lambda s_: c in {n for n, _ in sym.split_assign(s_)} or \
                    (isinstance(s_, ast.AugAssign) and isinstance(s_.target, ast.Name) and s_.target.id == c)
                same_branch = [s_ for s_ in (blk or [st]) if rebinds(s_)]
                s_site = ctx.site(mn, f, st)
                if c in co or same_branch:
                    ctx.ok("C14-R1", s_site, f"ring: `{c}` is refreshed with `{e}`")
                else:
                    ctx.fail("C14-R1", s_site, f"ring: the bracket end `{e}` is rebound but the value `{c}` cached for it is not refreshed",
                             f"`{au.src(st)[:80]}` moves `{e}` while `{c}` (computed from `{e}` before the loop and read by the loop) keeps the value of "
                             f"the old end: the tests of the search (and its stopping criterion) then compare the target with the defect of a point "
                             f"that is no longer an end of the bracket - the apex found is not the one of the requested defect")


def r1_ring_bracket(ctx):
    fn = ctx.repo.func(RINGS, "ring")
    site = ctx.site(RINGS, fn)
    found = None
    for mn, f in reachable(ctx, RINGS, fn):
        loops = [st for st in au.stmts(f.body) if isinstance(st, LOOPS)]
        if not loops:
            continue
        # bracket ends: two names averaged somewhere in f, both rebound inside a loop
        rebound = set()
        for lp in loops:
            for st in au.stmts(lp.body):
                rebound |= {n for n, _ in sym.split_assign(st)}
                if isinstance(st, ast.AugAssign) and isinstance(st.target, ast.Name):
                    rebound.add(st.target.id)
        pairs = []
        for node in au.walk(f):
            if not isinstance(node, ast.BinOp):
                continue
            try:
                P = sym.to_poly(node, opaque=False)
            except sym.NotPoly:
                continue
            ats = sorted(P.atoms())
            if len(ats) == 2 and all(len(k) == 1 for k in P.t) and all(P.coeff(a) == Poly.const(Fraction(1, 2)) for a in ats) \
                    and set(ats) <= rebound and ats not in pairs:
                pairs.append(ats)
        if len(pairs) == 1:
            found = (mn, f, loops, pairs[0])
            break
    if found is None:
        ctx.undecided("C14-R1", site, "ring: apex search loop and its two bracket ends (apex = (lo + hi)/2) not found",
                      "no loop of ring (or of a helper it calls) rebinds two names whose mean is taken")
        return
    mn, f, loops, ends = found
    fsite = ctx.site(mn, f)
    b = sym.Bindings(f)
    loops = [lp for lp in loops if _end_updates(lp.body, ends)]
    first_loop = min(loops, key=lambda l: l.lineno)
    _r1_cached_values(ctx, mn, f, loops, ends, first_loop)
    # initial heights of the two ends: literal numbers / Vec(0, 0, h) bound before the first loop
    alts = _initial_bracket(f, ends, first_loop)
    # the widest bracket the search can start from (a conditional one-time extension before the loop included)
    init = {k: (max(v) if v else None) for k, v in alts.items() if k in ends}
    if all(alts.get(k) for k in ends) and len(ends) == 2:
        lo_ = min(ends, key=lambda k: max(alts[k]))
        init[lo_] = min(alts[lo_])
    updates = []
    for lp in loops:
        updates += [(lp,) + u for u in _end_updates(lp.body, ends)]
    if not updates:
        ctx.undecided("C14-R1", fsite, "ring: the search loop never updates its bracket", "")
        return
    if set(init) != set(ends) or any(v is None for v in init.values()) or init[ends[0]] == init[ends[1]]:
        ctx.undecided("C14-R1", fsite, "ring: initial bracket of the apex search (two literal heights on the axis) not found",
                      f"found {init}")
        return
    upper = max(ends, key=lambda k: init[k])
    extension, unknown = None, None
    for lp, st, name, v, co in updates:
        e = G.fast_resolve(b, v, st, keep=tuple(ends))
        try:
            P = sym.to_poly(e, opaque=False)
        except sym.NotPoly:
            P = None
        if P is None or not P.atoms() <= set(ends) or not all(len(k) <= 1 for k in P.t):
            unknown = unknown or (st, name)
            continue
        cs = [P.coeff(a).const_value() for a in ends]
        convex = P.without(ends[0]).without(ends[1]).is_zero() and sum(cs) == 1 and all(0 <= c <= 1 for c in cs)
        if not convex and name == upper:
            extension = (lp, st, name, v)
    if extension is not None:
        lp, st, name, v = extension
        params = set(au.params(f))
        verdicts = []
        for t, pol in au.conditions(st):
            if not (isinstance(t, ast.Compare) and len(t.ops) == 1 and isinstance(t.ops[0], (ast.Lt, ast.LtE, ast.Gt, ast.GtE))):
                continue
            l, r = t.left, t.comparators[0]
            greater = isinstance(t.ops[0], (ast.Gt, ast.GtE)) == pol       # `l > r` holds
            big, small = (l, r) if greater else (r, l)
            # one side is the requested defect (a parameter of the search function), the other a defect evaluated at an end
            for target, other, target_is_big in ((big, small, True), (small, big, False)):
                if isinstance(target, ast.Name) and target.id in params and not (au.names(other) & params & {target.id}):
                    a = _assoc(f, b, other, st, ends, upper)
                    verdicts.append((a, target_is_big, t))
        good = [x for x in verdicts if x[0] == "upper" and x[1]]
        wrong = [x for x in verdicts if x[0] in ("upper", "lower") and not (x[0] == "upper" and x[1])]
        s = ctx.site(mn, f, st)
        if good:
            ctx.ok("C14-R1", s, "ring: the upper bracket end is extended when the target exceeds the defect at the upper end")
        elif wrong:
            a, big_, t = wrong[0]
            ctx.fail("C14-R1", s, "ring: the bracket extension is not taken exactly when the requested defect exceeds the defect at the upper end",
                     f"the extension of the upper end runs under `{au.src(t)}`" + (" taken as false" if not dict(au.conditions(st)).get(t, True) else "") +
                     f", which compares the target with the defect at the {a} end as {'larger' if big_ else 'smaller'}: "
                     f"the upper end must grow when (and only when) the target lies above it")
        else:
            ctx.undecided("C14-R1", s, "ring: the condition of the bracket extension is not recognised",
                          f"conditions {[au.src(t) for t, p in au.conditions(st)]}")
        return
    if unknown is not None:
        ctx.undecided("C14-R1", ctx.site(mn, f, unknown[0]), "ring: an update of the apex bracket is not an affine form of its two ends", "")
        return
    # shrink-only search: the initial bracket must already contain every admissible apex
    # admissible defects: the clamp  defect = max(min(defect, C), 0)  gives the largest one, C = 2*pi - eps
    eps = None
    for mn2, f2 in reachable(ctx, RINGS, fn):
        b2 = sym.Bindings(f2)
        ps2 = set(au.params(f2))
        for c in au.calls(f2):
            if au.call_tail(c) in ("min", "minimum", "clip") and len(c.args) >= 2 and any(isinstance(a, ast.Name) and a.id in ps2 for a in c.args):
                for a in c.args:
                    cst = order.fold_const(G.fast_resolve(b2, a, c))
                    if cst is not None and 0 < cst < 2 * math.pi:
                        eps = 2 * math.pi - cst
    H = init[upper]
    need = math.sqrt(max((2 * math.pi / eps) ** 2 - 1, 0)) if eps else float("inf")
    wit = ""
    if H < need:
        # witness computed from the closed form of the defect of a regular N-ring with apex at height H
        N = 6
        th = math.acos((math.cos(2 * math.pi / N) + H * H) / (1 + H * H))
        wit = (f"; witness N={N}: the largest defect reachable with the apex at height {H:g} is {2 * math.pi - N * th:.4f}, "
               f"any larger requested defect (up to {2 * math.pi - (eps or 0):.4f}) gets that apex instead of its own")
    ctx.check(H >= need, "C14-R1", ctx.site(mn, f, first_loop),
              "ring: the apex search only shrinks its initial bracket, which does not contain every admissible apex height",
              f"every update of the two bracket ends is a convex combination of them, so the apex stays below the initial height {H:g}; "
              f"defects up to 2*pi-{eps if eps else '?'} need heights up to {need:.1f}" + wit,
              note=f"ring: fixed bracket up to {H:g} covers all admissible defects")


# ----------------------------------------------------------------------- C14-A1 (flat_ring): angle of one wedge
def _to_rat(e, atom):
    """rational function (D.Rat) of an arithmetic expression; `atom(node)` names the leaves; None when not arithmetic"""
    c = au.const(e)
    if isinstance(c, (int, float)) and not isinstance(c, bool):
        return D.Rat(Poly.const(Fraction(c).limit_denominator(10 ** 9)))
    a = atom(e)
    if a is not None:
        return D.Rat(Poly.atom(a))
    if isinstance(e, ast.UnaryOp) and isinstance(e.op, (ast.USub, ast.UAdd)):
        v = _to_rat(e.operand, atom)
        return None if v is None else (v if isinstance(e.op, ast.UAdd) else D.Rat(Poly()) - v)
    if isinstance(e, ast.BinOp) and isinstance(e.op, (ast.Add, ast.Sub, ast.Mult, ast.Div)):
        l, r = _to_rat(e.left, atom), _to_rat(e.right, atom)
        if l is None or r is None:
            return None
        if isinstance(e.op, ast.Add):
            return l + r
        if isinstance(e.op, ast.Sub):
            return l - r
        if isinstance(e.op, ast.Mult):
            return l * r
        return None if r.num.is_zero() else l / r
    return None


def a1_flat_ring_wedge(ctx):
    """rings with several coverings: N consecutive sectors span one turn (ring: the rim lies in the plane, the defect comes from the
    apex) or one turn minus the defect (flat_ring), whatever the number of coverings - consecutive rim points are 2*pi/N resp.
    (2*pi - defect)/N apart.  The rim may be generated by a private helper."""
    _wedge(ctx, "ring", flat=False)
    _wedge(ctx, "flat_ring", flat=True)


def _wedge(ctx, gname, flat):
    from ..rules import hi_flow as F
    fn = ctx.repo.func(RINGS, gname)
    site = ctx.site(RINGS, fn)
    ps = au.params(fn)
    if len(ps) < 2:
        ctx.declare_unsupported(f"{gname}: wedge angle not analysed (signature changed)")
        return
    n_p, d_p = ps[0], ps[1]
    mod = ctx.repo.module(RINGS)
    helpers = {q: f for q, f in mod.funcs.items() if "." not in q and q.startswith("_")}
    for k_, v_ in F.module_constants(mod.tree).items():
        helpers["const:" + k_] = v_
    fl = F.Flow(fn, helpers)

    def atom(n):
        if isinstance(n, ast.Name):
            return "pi" if n.id == "pi" else n.id
        if isinstance(n, ast.Attribute) and n.attr in ("pi", "tau") and au.chain(n) and au.chain(n)[0] in ("np", "numpy", "math"):
            return "pi" if n.attr == "pi" else None
        if isinstance(n, ast.Call) and au.call_tail(n) in ("max", "min", "clip", "maximum", "minimum", "float", "_clamp", "clamp") \
                and any(isinstance(a, ast.Name) and a.id == d_p for a in ast.walk(n)):
            return d_p          # the clamped defect is the defect (its admissible range is not the point here)
        if F.is_synth(n, "__range__") or F.is_synth(n, "__index__"):
            return "⟨step⟩"
        return None
    verdicts = []
    keep = (n_p, d_p) + tuple(ps[2:])

    def angles(tree):
        for c in ast.walk(tree):
            if isinstance(c, ast.Call):
                t = au.call_tail(c)
                if t in ("rotate_2d",) and len(c.args) >= 2:
                    yield c, c.args[1]
                elif t in ("cos", "sin") and len(c.args) == 1:
                    yield c, c.args[0]
    sources, seen = [], set()
    for c, ang in angles(fn):
        sources.append((c, fl.resolve(ang, at=c, keep=keep)))
    for hc in au.calls(fn):
        if F.helper_key(hc) in fl.helpers:            # the rim generated by a private helper: its angles in the caller's terms
            for c, ang in angles(fl.resolve(hc, at=hc, keep=keep)):
                if au.norm(ang) not in seen:
                    seen.add(au.norm(ang))
                    sources.append((hc, ang))
    for c, r in sources:

        class Tau(ast.NodeTransformer):        # tau = 2*pi
            def visit_Name(self, node):
                return ast.BinOp(ast.Constant(2), ast.Mult(), ast.Name("pi", ast.Load())) if node.id == "tau" else node

            def visit_Attribute(self, node):
                ch = au.chain(node)
                if ch and ch[-1] == "tau" and ch[0] in ("np", "numpy", "math"):
                    return ast.BinOp(ast.Constant(2), ast.Mult(), ast.Name("pi", ast.Load()))
                return node
        q = _to_rat(Tau().visit(F.clone(r)), atom)
        if q is None or "pi" not in q.num.atoms() or (flat and d_p not in (q.num.atoms() | q.den.atoms())):
            continue
        # direct evaluation at step k (angle = k * wedge) or iterated rotation by the wedge
        if "⟨step⟩" in q.num.atoms():
            if q.num.degree_in("⟨step⟩") != 1 or "⟨step⟩" in q.den.atoms():
                continue        # (an offset `(k + 1) * wedge` does not change the spacing)
            wedge = D.Rat(q.num.coeff("⟨step⟩"), q.den)
        else:
            wedge = q
        pi_ = Poly.atom("pi")
        want = D.Rat(pi_.scale(2) - (Poly.atom(d_p) if flat else Poly()), Poly.atom(n_p))
        diff = wedge - want
        verdicts.append((c, wedge, diff.num.is_zero()))
    wanted = f"(2*pi - {d_p})/{n_p}" if flat else f"2*pi/{n_p}"
    if not verdicts:
        ctx.declare_unsupported(f"{gname}: the angle between consecutive rim points is not found as an arithmetic form of pi, {n_p}"
                                + (f" and {d_p}" if flat else "") + " (wedge angle not decided)")
        return
    for c, wedge, good in verdicts:
        ctx.check(good, "C14-A1", ctx.site(RINGS, fn, c), f"{gname}: consecutive rim points are not {wanted} apart",
                  f"`{au.src(c)[:80]}`: the angle of one sector is `({wedge.num})/({wedge.den})`; {n_p} sectors must span one turn"
                  + (" minus the defect" if flat else "") + " whatever the number of coverings (with n_cover > 1 the rim otherwise makes a single turn: "
                  "the coverings do not lie over each other and the angle around the apex is not the requested one)",
                  note=f"{gname}: wedge angle {wanted}")


# ----------------------------------------------------------------------- C14-T1 (orientation decided by a centroid test)
def _is_centroid(e, mesh_params):
    """mean position of all the vertices of a caller-supplied mesh: sum(m.vertices) / len(m.vertices), np.mean(m.vertices, axis=0) ..."""
    def verts(x):
        return any(isinstance(n, ast.Attribute) and n.attr == "vertices" and isinstance(n.value, ast.Name) and n.value.id in mesh_params
                   for n in ast.walk(x))
    if isinstance(e, ast.BinOp) and isinstance(e.op, ast.Div):
        num = e.left
        counted = any(isinstance(n, ast.Call) and au.call_tail(n) == "len" for n in ast.walk(e.right)) or \
            (isinstance(e.right, ast.Attribute) and e.right.attr in ("size", "shape"))
        if isinstance(num, ast.Call) and au.call_tail(num) in ("sum", "add") and verts(num) and counted:
            return True
    if isinstance(e, ast.Call) and au.call_tail(e) in ("mean", "average", "barycenter", "centroid") and verts(e):
        return True
    return False


def t1_orientation_test(ctx):
    """a generator that works on a caller-supplied surface (any orientable shape) must not orient its faces with the sign of
    dot(p - centroid, normal): that criterion tells inside from outside only on a surface that is star-shaped around its centroid"""
    from ..rules import hi_flow as F
    for modname in PROC_MODULES:
        mod = ctx.repo.module(modname)
        for q, fn in mod.funcs.items():
            if "." in q:
                continue
            mesh_params = {p for p in au.params(fn) if any(isinstance(n, ast.Attribute) and n.attr in ("vertices", "faces", "id_faces", "id_vertices")
                                                           and isinstance(n.value, ast.Name) and n.value.id == p for n in ast.walk(fn))}
            if not mesh_params or not any(isinstance(n, ast.Attribute) and n.attr == "faces" for n in ast.walk(fn)):
                continue
            fl = F.Flow(fn)
            # tests that decide a reversal
            sites = []
            for st in au.stmts(fn.body):
                if isinstance(st, ast.If):
                    flips = [x for x in au.stmts(st.body + st.orelse) if
                             (isinstance(x, ast.Assign) and isinstance(x.value, ast.Subscript) and isinstance(x.value.slice, ast.Slice)
                              and au.const(x.value.slice.step) == -1 and x.value.slice.lower is None and x.value.slice.upper is None)
                             or (isinstance(x, ast.Expr) and isinstance(x.value, ast.Call) and au.call_tail(x.value) == "reverse")
                             or (isinstance(x, ast.Assign) and isinstance(x.value, ast.Call) and au.call_tail(x.value) in ("reversed", "flip"))]
                    if flips:
                        sites.append((st, st.test))
            for n in au.walk(fn):
                if isinstance(n, ast.IfExp) and isinstance(n.body, (ast.Tuple, ast.List)) and isinstance(n.orelse, (ast.Tuple, ast.List)) \
                        and sorted(au.norm(x) for x in n.body.elts) == sorted(au.norm(x) for x in n.orelse.elts) \
                        and [au.norm(x) for x in n.body.elts] != [au.norm(x) for x in n.orelse.elts]:
                    sites.append((au.enclosing_stmt(n), n.test))
            for st, test in sites:
                r = fl.resolve(test, at=st, keep=tuple(mesh_params))
                bad = None
                for c in ast.walk(r):
                    if isinstance(c, ast.Call) and au.call_tail(c) in ("dot", "vdot", "inner") and len(c.args) == 2:
                        for a in c.args:
                            for d in ast.walk(a):
                                if isinstance(d, ast.BinOp) and isinstance(d.op, ast.Sub) and (_is_centroid(d.right, mesh_params) or _is_centroid(d.left, mesh_params)):
                                    bad = (c, d)
                s_ = ctx.site(modname, fn, st)
                if bad is not None:
                    ctx.fail("C14-T1", s_, f"{q} orients a generated face by the sign of dot(p - centroid, normal) on a caller-supplied surface",
                             f"`{au.src(test)[:100]}` resolves to a test on `{au.src(bad[1])[:80]}`: the offset from the centroid of the whole input tells "
                             f"inside from outside only on a surface that is star-shaped around that centroid; on any other input (a torus, a "
                             f"concave shape) some faces are reversed and their neighbours are not - the result is not consistently oriented")
                else:
                    ctx.ok("C14-T1", s_, f"{q}: a reversal that does not rest on a centroid test")


# ----------------------------------------------------------------------- C14-M1
MUTATORS = ("append", "extend", "insert", "pop", "remove", "sort", "reverse", "clear", "fill", "resize", "put", "itemset", "update",
            "add", "discard", "setdefault", "popitem")


def _shared_sources(mod):
    """module-level data: name -> 'array' | 'list' | 'dict';  names of functions whose result is cached"""
    tables, cached = {}, set()
    for st in mod.tree.body:
        if isinstance(st, (ast.Assign, ast.AnnAssign)) and st.value is not None:
            tg = st.targets if isinstance(st, ast.Assign) else [st.target]
            v = st.value
            kind = None
            if isinstance(v, (ast.List, ast.ListComp)):
                kind = "list"
            elif isinstance(v, (ast.Dict, ast.DictComp)) or (isinstance(v, ast.Call) and au.call_tail(v) in ("dict", "defaultdict", "OrderedDict")):
                kind = "dict"
            elif isinstance(v, ast.Call) and au.call_tail(v) in ("array", "asarray", "zeros", "ones", "empty", "full", "arange", "linspace", "stack", "vstack"):
                kind = "array"
            elif isinstance(v, ast.Call) and au.call_tail(v) == "list":
                kind = "list"
            if kind:
                for t in tg:
                    if isinstance(t, ast.Name):
                        tables[t.id] = kind
        elif isinstance(st, (ast.FunctionDef, ast.AsyncFunctionDef)):
            for d in st.decorator_list:
                dn = d.func if isinstance(d, ast.Call) else d
                c = au.chain(dn)
                if c and c[-1] in ("lru_cache", "cache", "cached", "memoize"):
                    cached.add(st.name)
    # module globals filled lazily inside a function (`global T; T = np.array(...)`)
    for fn in mod.funcs.values():
        gl = {n for st in au.stmts(fn.body) if isinstance(st, ast.Global) for n in st.names}
        for st in au.stmts(fn.body):
            for name, v in sym.split_assign(st):
                if name in gl:
                    k = _table_kind(v)
                    if k:
                        tables[name] = k
    return tables, cached


def _table_kind(v):
    if isinstance(v, (ast.List, ast.ListComp)) or (isinstance(v, ast.Call) and au.call_tail(v) == "list"):
        return "list"
    if isinstance(v, (ast.Dict, ast.DictComp)) or (isinstance(v, ast.Call) and au.call_tail(v) in ("dict", "defaultdict", "OrderedDict")):
        return "dict"
    if isinstance(v, ast.Call) and au.call_tail(v) in ("array", "asarray", "zeros", "ones", "empty", "full", "arange", "linspace", "stack", "vstack"):
        return "array"
    return None


def _ownership(d, tables, cached, repo, modname, local_shadow):
    """relation of the object denoted by the resolved expression `d` to shared state:
    ('alias', what) the shared object itself / a view of it; ('shallow', what) a new outer object sharing the inner ones;
    ('own', what) a private copy; None: not derived from shared state (or unknown)"""
    if isinstance(d, ast.Name):
        if d.id in tables and d.id not in local_shadow:
            return "alias", f"the module-level {tables[d.id]} `{d.id}`"
        return None
    if isinstance(d, ast.Subscript):
        inner = _ownership(d.value, tables, cached, repo, modname, local_shadow)
        if inner is None:
            return None
        k, what = inner
        root = d.value
        while isinstance(root, ast.Subscript):
            root = root.value
        rk = tables.get(root.id) if isinstance(root, ast.Name) else None
        if isinstance(d.slice, ast.Slice):
            if k == "alias":
                return ("alias", f"a view of {what}") if rk == "array" else ("shallow", f"a slice copy of {what}")
            return inner
        # an entry of a shared container (a cached object, a row of a table) is shared as well
        return ("alias", f"an entry of {what}") if k in ("alias", "shallow") else inner
    if isinstance(d, ast.Attribute):
        inner = _ownership(d.value, tables, cached, repo, modname, local_shadow)
        if inner is None:
            return None
        return ("alias", f"`{d.attr}` of {inner[1]}") if inner[0] in ("alias", "shallow") else inner
    if isinstance(d, ast.IfExp):
        a = _ownership(d.body, tables, cached, repo, modname, local_shadow)
        b = _ownership(d.orelse, tables, cached, repo, modname, local_shadow)
        rank = {"alias": 0, "shallow": 1, "own": 2}
        both = [x for x in (a, b) if x is not None]
        return min(both, key=lambda x: rank[x[0]]) if both else None
    if isinstance(d, ast.Call):
        t = au.call_tail(d)
        if isinstance(d.func, ast.Name):
            r0 = repo.resolve(modname, d.func.id)
            if r0 is not None and r0[0] == "external" and r0[2]:
                t = r0[2]                      # the imported name, whatever its local alias
        if isinstance(d.func, ast.Name) and d.func.id in cached and d.func.id not in local_shadow:
            return "alias", f"the cached result of `{d.func.id}`"
        if isinstance(d.func, ast.Name) and d.func.id in _HANDOUT.get(modname, {}) and d.func.id not in local_shadow:
            k_, what_ = _HANDOUT[modname][d.func.id]
            return k_, f"the value handed out by `{d.func.id}` ({what_})"
        if isinstance(d.func, ast.Attribute) and t == "get" and d.args:
            inner = _ownership(d.func.value, tables, cached, repo, modname, local_shadow)
            return ("alias", f"an entry of {inner[1]}") if inner is not None and inner[0] in ("alias", "shallow") else None
        arg = d.args[0] if d.args else (d.func.value if isinstance(d.func, ast.Attribute) and t in ("copy", "astype", "tolist") else None)
        inner = _ownership(arg, tables, cached, repo, modname, local_shadow) if arg is not None else None
        if inner is None:
            return None
        k, what = inner
        if t in ("asarray", "asanyarray", "ascontiguousarray", "atleast_1d", "atleast_2d", "ravel", "reshape", "view", "squeeze", "transpose"):
            return inner if k != "alias" else ("alias", what)
        if t == "array" and any(kw_.arg == "copy" and au.const(kw_.value) is False for kw_ in d.keywords):
            return inner       # np.array(x, copy=False) does not copy
        if t in ("deepcopy", "array", "tolist", "astype") or (t == "copy" and isinstance(d.func, ast.Attribute) and F_is_np(d.func.value)):
            return "own", f"a deep copy of {what}"
        if t == "copy":
            if isinstance(d.func, ast.Name):
                r = repo.resolve(modname, d.func.id)
                if r is not None and r[0] == "def":
                    return "own", f"a copy of {what}"          # the package's own mesh copy
                return "shallow", f"a shallow copy of {what}"   # copy.copy
            root_kind = "array" if "array" in what else "list"
            return ("own", f"a copy of {what}") if root_kind == "array" else ("shallow", f"a shallow copy of {what}")
        if t in ("list", "tuple", "sorted", "reversed", "dict"):
            return "shallow", f"a shallow copy of {what}"
        return None
    return None


_HANDOUT = {}      # module name -> {helper name: ownership of what it returns}


def _handouts(repo, mod, tables, cached):
    """helpers of the module that return (an alias / a shallow copy of) shared state"""
    from ..rules import hi_flow as F
    out = {}
    _HANDOUT[mod.name] = out
    for q, fn in mod.funcs.items():
        if "." in q:
            continue
        fl = F.Flow(fn)
        gl = {n for st in au.stmts(fn.body) if isinstance(st, ast.Global) for n in st.names}
        worst = None
        for st in au.stmts(fn.body):
            if isinstance(st, ast.Return) and st.value is not None:
                d = fl.resolve(st.value, at=st, keep=tuple(gl))
                own = _ownership(d, tables, cached, repo, mod.name, set(au.params(fn)) - gl)
                if own is not None and own[0] in ("alias", "shallow"):
                    if worst is None or (own[0] == "alias" and worst[0] != "alias"):
                        worst = own
        if worst is not None:
            out[q] = worst
    return out


def _immutable_result(fn):
    """a helper whose every returned value is visibly immutable (tuple / number / string): sharing it is harmless"""
    rets = [st.value for st in au.stmts(fn.body) if isinstance(st, ast.Return) and st.value is not None]
    ok = lambda e: isinstance(e, (ast.Tuple, ast.Constant)) or (isinstance(e, ast.Call) and au.call_tail(e) in ("tuple", "frozenset", "float", "int", "str", "bool"))
    return bool(rets) and all(ok(e) for e in rets)


def F_is_np(e):
    c = au.chain(e)
    return bool(c) and c[0] in ("np", "numpy")


def m1_shared_state(ctx):
    from ..rules import hi_flow as F
    for modname in PROC_MODULES:
        mod = ctx.repo.module(modname)
        tables, cached = _shared_sources(mod)
        if not tables and not cached:
            continue
        cached = {c for c in cached if not (c in mod.funcs and _immutable_result(mod.funcs[c]))}
        handed = _handouts(ctx.repo, mod, tables, cached)
        # a public generator hands a *fresh* mesh to each caller: the shared object itself must not be returned
        for q, (kind, what) in sorted(handed.items()):
            if q.startswith("_") or kind != "alias" or q in cached:
                continue
            fn = mod.funcs[q]
            ret = next((st for st in au.stmts(fn.body) if isinstance(st, ast.Return) and st.value is not None), None)
            ctx.fail("C14-M1", ctx.site(modname, fn, ret), f"{q} returns shared state to its callers",
                     f"the returned object is {what}: every call returns the same object, a caller that edits its result in place "
                     f"(moving vertices, appending faces) changes what every other caller got and will get")
        for q, fn in mod.funcs.items():
            fl = F.Flow(fn)
            shadow = set(au.params(fn))
            sites = []      # (stmt, root expression, nested?, description)
            for st in au.stmts(fn.body):
                if isinstance(st, ast.AugAssign) and isinstance(st.target, ast.Name):
                    sites.append((st, st.target, False, f"`{au.src(st)[:60]}` updates it in place"))
                for tg in au.assign_targets(st) if isinstance(st, (ast.Assign, ast.AugAssign)) else []:
                    if isinstance(tg, ast.Subscript):
                        nested = isinstance(tg.value, (ast.Attribute, ast.Subscript))
                        sites.append((st, tg.value, nested, f"`{au.src(st)[:60]}` stores into it"))
                if isinstance(st, ast.Expr) and isinstance(st.value, ast.Call) and isinstance(st.value.func, ast.Attribute) \
                        and st.value.func.attr in MUTATORS:
                    recv = st.value.func.value
                    sites.append((st, recv, isinstance(recv, (ast.Attribute, ast.Subscript)), f"`{au.src(st)[:60]}` mutates it"))
            for st, obj, nested, how in sites:
                d = fl.resolve(D._load(obj), at=st)
                own = _ownership(d, tables, cached, ctx.repo, mod.name, shadow)
                if own is None:
                    continue
                kind, what = own
                s_ = ctx.site(modname, fn, st)
                # a direct store into a module-level dict is a cache fill, not a mutation of data
                root = d
                while isinstance(root, (ast.Subscript, ast.Attribute)):
                    root = root.value
                is_cache_fill = isinstance(d, ast.Name) and tables.get(d.id) == "dict" and not isinstance(st, ast.AugAssign) is False
                if isinstance(d, ast.Name) and tables.get(d.id) == "dict":
                    ctx.ok("C14-M1", s_, f"{q}: fills the module-level cache `{d.id}`")
                    continue
                if kind == "alias":
                    ctx.fail("C14-M1", s_, f"{q} writes into shared state in place",
                             f"{how}: the object is {what}; every later call (and every result returned earlier) sees the modified data")
                elif kind == "shallow" and nested:
                    ctx.fail("C14-M1", s_, f"{q} writes into shared state in place",
                             f"{how}: the object is {what}, whose inner containers are still the shared ones")
                else:
                    ctx.ok("C14-M1", s_, f"{q}: writes into {what}")


# ----------------------------------------------------------------------- C14-U1
# icosahedron is deliberately not listed: there `radius` scales the canonical coordinates (+-1, +-phi, 0), whose norm is
# sqrt(1 + phi^2) - documented as a scale factor only (doubtful, reported, not armed).
UNIT_FUNCS = [(SHAPES, "cylinder"), (SHAPES, "torus"), (SHAPES, "sphere_uv"), (SHAPES, "sphere_fibonacci"), (SHAPES, "icosphere")]


def _vertex_store(st):
    if isinstance(st, ast.Expr) and isinstance(st.value, ast.Call) and isinstance(st.value.func, ast.Attribute) \
            and st.value.func.attr in ("append", "extend") and isinstance(st.value.func.value, ast.Attribute) and st.value.func.value.attr == "vertices":
        return True
    if isinstance(st, ast.AugAssign) and isinstance(st.target, ast.Attribute) and st.target.attr == "vertices":
        return True
    if isinstance(st, ast.Assign) and any(isinstance(t, ast.Subscript) and isinstance(t.value, ast.Attribute) and t.value.attr == "vertices" for t in st.targets):
        return True
    return False


def _reaches_vertices(fn, node):
    """does the value computed at `node` (a radius * direction product) flow into the vertex coordinates of the generator?
    (obligations recorded inside helper functions are kept: a helper that scales a direction by the radius exists for that purpose)"""
    from ..rules.c1120_util import assign_deps, closure
    ln = getattr(node, "lineno", None)
    if ln is None or not (fn.lineno <= ln <= getattr(fn, "end_lineno", ln)):
        return True
    st = au.enclosing_stmt(node)
    if st is None or _vertex_store(st) or isinstance(st, ast.Return):
        return True
    seeds = set()
    for s_ in au.stmts(fn.body):
        if _vertex_store(s_) or isinstance(s_, ast.Return):
            seeds |= au.names(s_)
    deps = {k: set(v) for k, v in assign_deps(fn).items()}
    # heap effects: a value stored into / appended to a local container makes the container depend on it
    for s_ in au.stmts(fn.body):
        for t_ in au.assign_targets(s_) if isinstance(s_, (ast.Assign, ast.AugAssign, ast.AnnAssign)) else []:
            if isinstance(t_, (ast.Subscript, ast.Attribute)):
                root = t_
                while isinstance(root, (ast.Subscript, ast.Attribute)):
                    root = root.value
                if isinstance(root, ast.Name) and getattr(s_, "value", None) is not None:
                    deps.setdefault(root.id, set()).update(au.names(s_.value))
        if isinstance(s_, ast.Expr) and isinstance(s_.value, ast.Call) and isinstance(s_.value.func, ast.Attribute) \
                and s_.value.func.attr in ("append", "extend", "insert", "add", "update", "appendleft"):
            root = s_.value.func.value
            while isinstance(root, (ast.Subscript, ast.Attribute)):
                root = root.value
            if isinstance(root, ast.Name):
                for a_ in s_.value.args:
                    deps.setdefault(root.id, set()).update(au.names(a_))
    rel = closure(deps, seeds)
    bound = {n for t in au.assign_targets(st) for n in au.assigned_names(t)}
    if isinstance(st, (ast.For, ast.AsyncFor)):
        bound |= set(au.assigned_names(st.target))
    return bool(bound & rel) or not bound


def u1_unit_directions(ctx):
    for key in UNIT_FUNCS:
        fn = ctx.repo.func(*key)
        site = ctx.site(key[0], fn)
        geo = DIM[key]
        it = D.Interp(fn, D.Config(geo, ctx.repo, key[0], unit=True)).run()
        radii = sorted(p for p, (d, a) in geo.items() if d == 1 and a == 0)
        obl = sorted(it.unit_obl.values(), key=lambda o: (o[0].lineno, o[0].col_offset, o[3]))
        obl = [o for o in obl if _reaches_vertices(fn, o[0])]
        if not obl:
            ctx.undecided("C14-U1", site, f"{key[1]}: no direction scaled by {' / '.join(radii)} was found",
                          "the radius must multiply a unit direction (or be the coefficient of a unit vector in explicit coordinates)")
            continue
        for o in obl:
            node, ok, kind, detail = o[:4]
            refuted = o[4] if len(o) > 4 else None
            s = ctx.site(key[0], fn, node)
            if ok:
                ctx.ok("C14-U1", s, f"{key[1]}: `{detail[:60]}` is a unit vector")
            elif refuted:
                if kind == "radius-times-direction":
                    ctx.fail("C14-U1", s, f"{key[1]}: the direction multiplied by the radius is not a unit vector",
                             f"`{au.src(node)[:120]}`: the squared components of `{detail[:100]}` sum to `{refuted}`, not 1 - the points are at "
                             f"distance radius*|d| instead of radius (e.g. components (u.y, -u.x, 0) of a unit vector u have norm sqrt(1 - u.z^2))")
                else:
                    ctx.fail("C14-U1", s, f"{key[1]}: the coefficient vector of a radius in the explicit coordinates is not a unit vector",
                             f"`{au.src(node)[:80]}` with {detail[:160]}: its squared components sum to `{refuted}`, not 1")
            else:
                ctx.undecided("C14-U1", s, f"{key[1]}: the norm of the direction multiplied by the radius is not derivable",
                              f"`{au.src(node)[:120]}`: `{detail[:100]}` is neither proved to be a unit vector nor refuted")



# ----------------------------------------------------------------------- generic families (msa/rules/generic.py)
_run_specific = run


def run(ctx):
    _run_specific(ctx)
    from ..rules import generic
    generic.apply(ctx, "C14", stale_modules=())


def _generic_rule_texts():
    from ..rules import generic
    return generic.rule_texts("C14", stale=False)


RULES.update(_generic_rule_texts())
