"""C17 - Tutte's embedding (structural clauses)."""
from __future__ import annotations
import ast, math
from fractions import Fraction
from .. import au, sym, order
from ..core import AnalysisError
from ..rules import c151718 as H
from ..rules import hj_scope, hj_eval as E
from ..rules.c151718 import Unrecognised

TUT = "processing.parametrization.tutte"
BASE = "processing.parametrization.base"
CLS = "TutteEmbedding"
BORD = "processing.border"
LAPM = "operators.laplacian_op"

EXPLANATION = (
    "Static conformance of TutteEmbedding, read on a normal form of each function (private helpers inlined, local names resolved to "
    "what they denote).  The Euler-characteristic gate is a must-fact at every solve / store of the result; the placement of the "
    "border on the square and on the circle is evaluated from the syntax tree of _initialize_boundary for every border length "
    "n = 4..40 (abstract evaluation of the index arithmetic, no repository code is run): the n positions must lie on the target, be "
    "pairwise distinct and go once around it in border order; border order comes from extract_border_cycle unless the target is "
    "custom; the harmonic system is L_II u = -L_IB u_B over one free/border partition of the scalar Laplacian; the per-corner and "
    "per-vertex branches store the same values for the same index sets; flat_mesh is evaluated on a two-triangle mesh.  A construct "
    "that is not recognised ends `undecided`; only a recognised construct that contradicts a clause is reported.  Structural "
    "necessary conditions only: fold-freeness and the solve itself are not decided.")

RULES = {
    "C17-G1": "euler_characteristic(self.mesh) == 1 holds on every path reaching the boundary initialisation, the linear solves and the stores into self.uvs",
    "C17-Q1": "square target: for every border length n >= 4 the n positions computed by _initialize_boundary lie on the boundary of the unit "
              "square, are pairwise distinct and go once around the square in the order of the border vertices",
    "C17-B1": "unless the target is custom the border vertices are ordered by extract_border_cycle(self.mesh) (for a custom target: in the order of "
              "mesh.boundary_vertices, which is not the increasing index order of a mask / sorted list); the boundary is initialised for "
              "self._bnd_mode; circle target: for every n the n positions lie on one circle, are pairwise distinct and go once around it in order",
    "C17-W1": "border order follows border edges: extract_border_cycle leaves the start through the head of the sorted neighbour list and scans "
              "forward with first match (or tail / backward); the sorting contract puts the corner-less border neighbour first",
    "C17-L1": "operators.laplacian uses cotangent weights exactly when its `cotan` argument is true and the uniform weights otherwise, whatever "
              "attributes happen to be cached on the mesh (a cached 'cotan' attribute may only be reused when cotan weights are requested); "
              "the weight of a corner is its cotangent halved, unmodified",
    "C17-H1": "interior coordinates solve L[free,free] x = -L[free,border] x_border, with free = interior vertices, the border index list that "
              "orders x_border, and the scalar Laplacian (no connection)",
    "C17-S1": "the per-corner and the per-vertex branch store (U[i], V[i]) over enumerate(free) and (Ubnd[i], Vbnd[i]) over enumerate(border), "
              "U/V being the solutions for Ubnd/Vbnd; flat_mesh reads corner 3*T+i in the per-corner case and vertex v otherwise, components 0 and 1",
}


def run(ctx):
    G = H.guarded
    G(ctx, "C17-Q1", TUT, f"{CLS}._initialize_boundary", q1_b1_placement)
    facts = G(ctx, "C17-H1", TUT, f"{CLS}.run", run_facts)
    if facts is not None:
        G(ctx, "C17-G1", TUT, f"{CLS}.run", g1_gate, facts)
        G(ctx, "C17-B1", TUT, f"{CLS}.run", b1_border, facts)
        G(ctx, "C17-H1", TUT, f"{CLS}.run", h1_system, facts)
        G(ctx, "C17-S1", TUT, f"{CLS}.run", s1_siblings, facts)
    G(ctx, "C17-S1", BASE, "BaseParametrization.flat_mesh", s1_flat_mesh)
    G(ctx, "C17-W1", BORD, "extract_border_cycle", w1_border_walk)
    G(ctx, "C17-L1", LAPM, "laplacian", l1_weights)


# ------------------------------------------------------------------ C17-Q1 / C17-B1: placement of the border on the target
def _placement(ctx, mode, n):
    """positions [(u, v)] of the n border vertices for the given mode, by abstract evaluation of _initialize_boundary"""
    fn = ctx.repo.func(TUT, f"{CLS}._initialize_boundary")

    def hook(path):
        if path == "self.mesh":
            return E.Obj("self.mesh", hook)
        if path in ("self.mesh.boundary_vertices",):
            return list(range(n))
        if path == "self._bnd_mode":
            return E.Sym(f"{CLS}.BoundaryMode.{mode}")
        if path.startswith("self.") and path.count(".") == 1:
            d = hj_scope.attr_default(ctx.repo, TUT, CLS, path[5:])
            v = hj_scope.fold(d) if d is not None else None
            if isinstance(d, ast.Constant):
                return d.value
            if v is not None:
                return v
        return E.MISSING
    it = E.Interp(ctx.repo, TUT, obj_hook=hook, obj_class={"self": (TUT, CLS)})
    selfo = E.Obj("self", hook)
    ps = au.params(fn, skip_self=True)
    args = [selfo] + ([E.Sym(f"{CLS}.BoundaryMode.{mode}")] if ps else [])
    r = it.call_function(fn, args)
    ctx._hj_last_stores = it.n_stores
    if not (isinstance(r, (tuple, list)) and len(r) == 2):
        raise E.Unsupported("result is not a pair (U, V)")
    U, V = r
    U = list(U.d) if isinstance(U, E.Arr) else list(U) if isinstance(U, (list, tuple)) else None
    V = list(V.d) if isinstance(V, E.Arr) else list(V) if isinstance(V, (list, tuple)) else None
    if U is None or V is None or len(U) != len(V):
        raise E.Unsupported("result is not a pair of vectors")
    if not all(isinstance(x, (int, float)) and not isinstance(x, bool) for x in U + V):
        raise E.Unsupported("non real coordinates")
    return list(zip(map(float, U), map(float, V)))


def _winding(ts, period):
    """ts: parameters along the closed target curve; once around in order <=> all steps (mod period) have one sign and sum to +-period"""
    n = len(ts)
    fw = [((ts[(i + 1) % n] - ts[i]) % period) for i in range(n)]
    if all(d > 1e-9 for d in fw) and abs(sum(fw) - period) < 1e-6:
        return True
    bw = [((ts[i] - ts[(i + 1) % n]) % period) for i in range(n)]
    return all(d > 1e-9 for d in bw) and abs(sum(bw) - period) < 1e-6


def _square_param(u, v, eps=1e-9):
    if not (-eps <= u <= 1 + eps and -eps <= v <= 1 + eps):
        return None
    if abs(v) <= eps:
        return u
    if abs(u - 1) <= eps:
        return 1 + v
    if abs(v - 1) <= eps:
        return 2 + (1 - u)
    if abs(u) <= eps:
        return 3 + (1 - v)
    return None


def q1_b1_placement(ctx):
    fn = ctx.repo.func(TUT, f"{CLS}._initialize_boundary")
    site = ctx.site(TUT, fn)
    for mode, rule, label in (("SQUARE", "C17-Q1", "square"), ("CIRCLE", "C17-B1", "circle")):
        problem = None
        undec = None
        checked = 0
        for n in range(4, 41):
            try:
                P = _placement(ctx, mode, n)
            except E.Unsupported as ex:
                undec = f"abstract evaluation of _initialize_boundary stops at: {ex}"
                break
            except E.Raised as ex:
                problem = (n, f"the computation raises ({ex})")
                break
            except RecursionError:
                undec = "abstract evaluation of _initialize_boundary recurses too deeply"
                break
            if len(P) != n:
                problem = (n, f"{len(P)} positions for {n} border vertices")
                break
            if all(abs(a) < 1e-300 and abs(b) < 1e-300 for a, b in P) and ctx._hj_last_stores == 0:
                undec = "no position is ever written by the evaluated code (the dispatch on the boundary mode was probably not followed)"
                break
            if any(math.isnan(a) or math.isnan(b) for a, b in P):
                problem = (n, "a position is not a number")
                break
            if mode == "SQUARE":
                ts = [_square_param(u, v) for u, v in P]
                off = [(i, P[i]) for i, t in enumerate(ts) if t is None]
                if off:
                    problem = (n, f"border vertex {off[0][0]} is placed at ({off[0][1][0]:.4g}, {off[0][1][1]:.4g}), which is not on the boundary of the unit square")
                    break
                ts = [t % 4 for t in ts]
                period = 4.0
            else:
                rs = [math.hypot(u, v) for u, v in P]
                if min(rs) < 1e-9 or max(rs) - min(rs) > 1e-9:
                    problem = (n, "the positions are not on one circle centred at the origin")
                    break
                ts = [math.atan2(v, u) % (2 * math.pi) for u, v in P]
                period = 2 * math.pi
            dup = [(i, j) for i in range(n) for j in range(i + 1, n) if abs(P[i][0] - P[j][0]) < 1e-9 and abs(P[i][1] - P[j][1]) < 1e-9]
            if dup:
                i, j = dup[0]
                problem = (n, f"border vertices {i} and {j} are both placed at ({P[i][0]:.4g}, {P[i][1]:.4g}): the triangles between them are degenerate")
                break
            if not _winding(ts, period):
                problem = (n, f"the positions do not go once around the {label} in the order of the border vertices")
                break
            checked += 1
        if undec is not None:
            ctx.undecided(rule, site, f"{label} target: the placement of the border vertices cannot be evaluated", undec)
        elif problem is not None:
            ctx.fail(rule, site, f"{label} target: the border vertices are not placed at distinct positions going once around the {label}",
                     f"for a border of n = {problem[0]} vertices {problem[1]}")
        else:
            ctx.ok(rule, site, f"{label} target: n distinct positions in border order on the {label} for n = 4..40 ({checked} sizes evaluated)")


# ------------------------------------------------------------------ facts about run()
def _blocks(e):
    """`L[R, :][:, C]` / `L[R][:, C]` / `L[np.ix_(R, C)]` (format conversions stripped) -> (L, R, C)"""
    while isinstance(e, ast.Call) and isinstance(e.func, ast.Attribute) and e.func.attr in ("tocsc", "tocsr", "tolil", "tocoo", "copy") and not e.args:
        e = e.func.value
    if not isinstance(e, ast.Subscript):
        return None
    sl = e.slice
    if isinstance(sl, ast.Call) and au.call_tail(sl) == "ix_" and len(sl.args) == 2:
        return e.value, sl.args[0], sl.args[1]
    full = lambda x: isinstance(x, ast.Slice) and x.lower is None and x.upper is None and x.step is None
    if isinstance(sl, ast.Tuple) and len(sl.elts) == 2 and full(sl.elts[0]):
        cols = sl.elts[1]
        inner = e.value
        while isinstance(inner, ast.Call) and isinstance(inner.func, ast.Attribute) and inner.func.attr in ("tocsc", "tocsr", "tolil", "tocoo") and not inner.args:
            inner = inner.func.value
        if isinstance(inner, ast.Subscript):
            r = inner.slice
            if isinstance(r, ast.Tuple):
                if len(r.elts) == 2 and full(r.elts[1]):
                    r = r.elts[0]
                else:
                    return None
            return inner.value, r, cols
    return None


def _index_set(e, masks):
    """classify a canonical index-list expression of run():
    'interior' | 'interior-sorted' | 'border-list' | 'border-sorted' | 'cycle' | 'cycle-edges' | None"""
    while isinstance(e, ast.Call) and au.call_tail(e) in ("array", "asarray", "list", "tuple") and len(e.args) >= 1 and not isinstance(e.args[0], (ast.List, ast.Tuple)):
        e = e.args[0]
    s = au.src(e)
    if s == "self.mesh.interior_vertices":
        return "interior"
    if s == "self.mesh.boundary_vertices":
        return "border-list"
    if isinstance(e, ast.Subscript) and isinstance(e.value, ast.Call) and au.call_tail(e.value) == "extract_border_cycle" \
            and e.value.args and au.src(e.value.args[0]) == "self.mesh" and au.const(e.slice) in (0, 1):
        return "cycle" if au.const(e.slice) == 0 else "cycle-edges"
    if isinstance(e, ast.Call) and au.call_tail(e) in ("sorted", "sort", "unique") and e.args:
        inner = _index_set(e.args[0], masks)
        return {"border-list": "border-sorted", "cycle": "border-sorted", "interior": "interior-sorted"}.get(inner)
    # positions where a vertex mask is set / not set, in increasing order
    arg = None
    if isinstance(e, ast.Call) and au.call_tail(e) == "flatnonzero" and len(e.args) == 1:
        arg = e.args[0]
    elif isinstance(e, ast.Subscript) and au.const(e.slice) == 0 and isinstance(e.value, ast.Call) and au.call_tail(e.value) in ("where", "nonzero") \
            and len(e.value.args) == 1:
        arg = e.value.args[0]
    if arg is not None:
        neg = False
        while True:
            if isinstance(arg, ast.UnaryOp) and isinstance(arg.op, (ast.Invert, ast.Not)):
                arg, neg = arg.operand, not neg
            elif isinstance(arg, ast.Call) and au.call_tail(arg) == "logical_not" and len(arg.args) == 1:
                arg, neg = arg.args[0], not neg
            elif isinstance(arg, ast.Compare) and len(arg.ops) == 1 and isinstance(arg.ops[0], (ast.Eq, ast.NotEq)) and isinstance(au.const(arg.comparators[0]), bool):
                neg = neg != ((au.const(arg.comparators[0]) is False) == isinstance(arg.ops[0], ast.Eq))
                arg = arg.left
            else:
                break
        if isinstance(arg, ast.Name) and masks.get(arg.id) in ("boundary_vertices", "interior_vertices"):
            is_border = (masks[arg.id] == "boundary_vertices") != neg
            return "border-sorted" if is_border else "interior-sorted"
    return None


def _init_coord(e):
    """0 / 1 when e is `<...>._initialize_boundary(...)[k]`"""
    if isinstance(e, ast.Subscript) and isinstance(e.value, ast.Call) and au.call_tail(e.value) == "_initialize_boundary" and au.const(e.slice) in (0, 1):
        return au.const(e.slice)
    return None


def _coords_of(x):
    """list of boundary coordinates an x_border expression carries: [0], [1] or [0, 1] (stacked as columns)"""
    k = _init_coord(x)
    if k is not None:
        return [k]
    if isinstance(x, ast.Call) and au.call_tail(x) in ("column_stack", "stack", "vstack", "array", "transpose") and x.args:
        a = x.args[0]
        if isinstance(a, (ast.Tuple, ast.List)) and len(a.elts) == 2:
            ks = [_init_coord(z) for z in a.elts]
            if None not in ks and au.call_tail(x) == "column_stack":
                return ks
    return None


class _KeepScope:
    """a Scope whose canon() never substitutes the given names"""

    def __init__(self, scope, keep):
        self._scope, self._keep = scope, tuple(keep)

    def canon(self, e, at, keep=(), **kw):
        return self._scope.canon(e, at, keep=tuple(keep or ()) + self._keep, **kw)

    def __getattr__(self, name):
        return getattr(self._scope, name)


def run_facts(ctx):
    fn0 = ctx.repo.func(TUT, f"{CLS}.run")
    fn, S, nz = H.norm_fn(ctx, TUT, f"{CLS}.run", keep=("_initialize_boundary", "extract_border_cycle", "log", "warn"), public_methods=True)
    facts = {"fn0": fn0, "fn": fn, "S": S, "site": ctx.site(TUT, fn0), "solves": [], "inlined": sorted(set(nz.inlined))}
    facts["inits"] = [c for c in au.calls(fn) if au.call_tail(c) == "_initialize_boundary"]
    # boolean masks over the vertices:  M = np.zeros(len(vertices), dtype=bool); M[mesh.boundary_vertices] = True
    masks = {}
    for st, tgt, val in H.subscript_stores(fn, lambda x: isinstance(x, ast.Name)):
        nm = tgt.value.id
        d = S.value(nm, st)
        if isinstance(d, ast.Call) and au.call_tail(d) in ("zeros", "full") and d.args and au.src(d.args[0]) in ("len(self.mesh.vertices)",) \
                and any(k.arg == "dtype" and au.src(k.value) in ("bool", "np.bool_", "numpy.bool_") for k in d.keywords):
            what = au.src(S.canon(tgt.slice, st))
            ok = isinstance(st, ast.Assign) and au.const(S.canon(val, st)) is True and what in ("self.mesh.boundary_vertices", "self.mesh.interior_vertices")
            masks[nm] = (what.split(".")[-1] if ok and nm not in masks else "?")
    facts["masks"] = masks
    mk = tuple(sorted(masks))
    _canon0 = S.canon
    S_canon = lambda e, at: _canon0(e, at, keep=mk)
    if mk:
        facts["S"] = S = _KeepScope(S, mk)      # the mask names are kept by every later canonicalisation (they are classified by _index_set)
    for c in au.calls(fn):
        Mc = rc = None
        if au.call_tail(c) in ("spsolve", "solve") and len(c.args) == 2:
            Mc, rc = S_canon(c.args[0], c), S_canon(c.args[1], c)
        elif len(c.args) == 1 and not c.keywords:
            # solve = factorized(M); x = solve(rhs)      /     splu(M).solve(rhs)
            f = S_canon(c.func, c)
            if isinstance(f, ast.Call) and au.call_tail(f) == "factorized" and len(f.args) == 1:
                Mc, rc = f.args[0], S_canon(c.args[0], c)
            elif isinstance(f, ast.Attribute) and f.attr == "solve" and isinstance(f.value, ast.Call) and au.call_tail(f.value) in ("splu", "spilu", "factorized") \
                    and len(f.value.args) == 1:
                Mc, rc = f.value.args[0], S_canon(c.args[0], c)
        if Mc is not None:
            mv = H.matvec(rc)
            facts["solves"].append({"call": c, "M": Mc, "rhs": rc, "canon": S_canon(c, c), "LI": _blocks(Mc), "sign": mv[0] if mv else None,
                                    "LB": _blocks(mv[1]) if mv else None, "x": mv[2] if mv else None,
                                    "coords": _coords_of(mv[2]) if mv else None})
    return facts


# ------------------------------------------------------------------ C17-G1
def _gate_polarity(test):
    """True: test true => chi == 1 ; False: test true => chi != 1 ; None: not the gate (test is canonical)"""
    if isinstance(test, ast.UnaryOp) and isinstance(test.op, ast.Not):
        p = _gate_polarity(test.operand)
        return None if p is None else (not p)
    t = test
    if isinstance(t, ast.Compare) and len(t.ops) == 1 and isinstance(t.ops[0], (ast.Eq, ast.NotEq)):
        sides = [t.left, t.comparators[0]]
        for x, y in (sides, sides[::-1]):
            if _is_chi(x) and au.const(y) == 1:
                return isinstance(t.ops[0], ast.Eq)
    return None


def _is_chi(x):
    """euler_characteristic(self.mesh)  or  len(vertices) - len(edges) + len(faces) of self.mesh"""
    if isinstance(x, ast.Call) and au.call_tail(x) == "euler_characteristic" and len(x.args) == 1 and au.src(x.args[0]) == "self.mesh":
        return True
    if isinstance(x, ast.BinOp):
        def atom_of(e):
            if isinstance(e, ast.Call) and au.call_tail(e) == "len" and len(e.args) == 1 and au.src(e.args[0]) in (
                    "self.mesh.vertices", "self.mesh.edges", "self.mesh.faces"):
                return au.src(e.args[0]).split(".")[-1]
            return None
        try:
            p = sym.to_poly(x, atom_of=atom_of, opaque=False)
        except sym.NotPoly:
            return False
        return p == sym.Poly({("vertices",): 1, ("edges",): -1, ("faces",): 1})
    return False


def _wrong_gate_constant(test):
    """the constant when the test compares euler_characteristic(self.mesh) with a constant other than 1"""
    for t in ast.walk(test):
        if isinstance(t, ast.Compare) and len(t.ops) == 1:
            sides = [t.left, t.comparators[0]]
            for x, y in (sides, sides[::-1]):
                if _is_chi(x) and isinstance(au.const(y), int) and not isinstance(au.const(y), bool) and au.const(y) != 1:
                    return au.const(y)
    return None


def g1_gate(ctx, facts):
    fn0, fn, S, site = facts["fn0"], facts["fn"], facts["S"], facts["site"]
    sinks = []
    gates = []

    def refine(state, test, branch):
        parts = [test]
        if isinstance(test, ast.BoolOp):
            if (isinstance(test.op, ast.And) and branch) or (isinstance(test.op, ast.Or) and not branch):
                parts = test.values
            else:
                parts = []
                for t in test.values:
                    if _gate_polarity(S.canon(t, test)) is not None:
                        gates.append(t)
        for t in parts:
            p = _gate_polarity(S.canon(t, test))
            if p is not None:
                gates.append(t)
                if p == branch:
                    state = state | {"disk"}
        return state

    def observe(state, node):
        kinds = []
        for c in au.calls(node):
            t = au.call_tail(c)
            if t in ("spsolve", "solve", "factorized", "splu", "lsqr", "cg"):
                kinds.append(("linear solve", c))
            if t == "_initialize_boundary":
                kinds.append(("boundary initialisation", c))
        if isinstance(node, (ast.Assign, ast.AugAssign, ast.AnnAssign)):
            for t in au.assign_targets(node):
                for x in ast.walk(t):
                    if au.is_self_attr(x, "uvs"):
                        kinds.append(("store into self.uvs", node))
                        break
        for k, n in kinds:
            sinks.append((k, n, "disk" in state))

    H.must_flow(fn.body, lambda node: (set(), set()), refine=refine, observe=observe)
    if not gates:
        for st in au.stmts(fn.body):
            if isinstance(st, (ast.If, ast.Assert, ast.While)):
                k = _wrong_gate_constant(S.canon(st.test, st))
                if k is not None:
                    ctx.fail("C17-G1", ctx.site(TUT, fn0, st), "run: the Euler characteristic of the mesh is compared with a constant other than 1",
                             f"compared with {k}: a topological disk has Euler characteristic 1")
                    return
        # is the characteristic tested anywhere else in the class (constructor, another method)?
        m = ctx.repo.module(TUT)
        elsewhere = []
        for name, (mm, f, owner) in ctx.repo.methods(m, m.classes[CLS]).items():
            if any(au.call_tail(c) == "euler_characteristic" for c in au.calls(f)):
                elsewhere.append(name)
        tests_something = any(isinstance(st, ast.Raise) for st in au.stmts(fn.body)) or any(
            isinstance(st, ast.Raise) for name, (mm, f, owner) in ctx.repo.methods(m, m.classes[CLS]).items() if owner.name not in ("Worker", "Logger", "object")
            and name not in ("log", "warn") for st in au.stmts(f.body))
        if not elsewhere and not tests_something:
            ctx.fail("C17-G1", site, "run computes the embedding without rejecting any input",
                     "run() never raises and the Euler characteristic is not consulted anywhere in the class: a surface that is not a topological disk "
                     "(sphere, annulus, two components) must be rejected before any coordinates are computed")
        else:
            ctx.undecided("C17-G1", site, "run: the test of the Euler characteristic of the mesh is not recognised",
                          "surfaces that are not topological disks must be rejected before any coordinates are computed")
        return
    if not [s for s in sinks if s[0] == "linear solve"]:
        ctx.undecided("C17-G1", site, "run: the linear solve is not recognised", "the gate must dominate the solve")
        return
    for kind, node, ok in sinks:
        ctx.check(ok, "C17-G1", ctx.site(TUT, fn0, node), f"run: {kind} not dominated by the test euler_characteristic(self.mesh) == 1",
                  "a surface that is not a topological disk (sphere, annulus, two components) must be rejected before any coordinates are computed",
                  note=f"{kind} dominated by the Euler-characteristic gate")


# ------------------------------------------------------------------ C17-B1 (order of the border)
def b1_border(ctx, facts):
    fn0, fn, S, site = facts["fn0"], facts["fn"], facts["S"], facts["site"]
    if len(facts["inits"]) != 1:
        ctx.undecided("C17-B1", site, "run: the call of self._initialize_boundary is not recognised", "")
    else:
        c = facts["inits"][0]
        ib = ctx.repo.func(TUT, f"{CLS}._initialize_boundary")
        csite = ctx.site(TUT, fn0, c)
        if not au.params(ib, skip_self=True):
            ctx.ok("C17-B1", csite, "boundary initialised for the mode of the instance")
        else:
            kw = {k.arg: k.value for k in c.keywords}
            a = c.args[0] if c.args else kw.get(au.params(ib, skip_self=True)[0])
            ac = S.canon(a, c) if a is not None else None
            if ac is not None and au.is_self_attr(ac, "_bnd_mode"):
                ctx.ok("C17-B1", csite, "boundary initialised for self._bnd_mode")
            elif ac is not None and isinstance(ac, ast.Attribute) and ac.attr in ("CIRCLE", "SQUARE", "CUSTOM"):
                ctx.fail("C17-B1", csite, "run: the boundary is not initialised for self._bnd_mode",
                         f"a fixed mode `{au.src(ac)}` is passed: the mode that selects the border order must be the one that shapes the boundary")
            else:
                ctx.undecided("C17-B1", csite, "run: the mode passed to _initialize_boundary is not recognised", "")
    bs = [s["LB"][2] for s in facts["solves"] if s["LB"] is not None]
    if not bs or any(not au.same(b, bs[0]) for b in bs):
        ctx.undecided("C17-B1", site, "run: the border index list (columns of L[free,:][:,border]) is not recognised", "")
        return
    B = bs[0]
    facts["B"] = B

    def atom(x, boolean):
        if isinstance(x, ast.Compare) and len(x.ops) == 1 and isinstance(x.ops[0], (ast.Eq, ast.NotEq, ast.Is, ast.IsNot)):
            sides = [x.left, x.comparators[0]]
            if any(au.is_self_attr(s, "_bnd_mode") for s in sides) and any(isinstance(s, ast.Attribute) and s.attr == "CUSTOM" for s in sides):
                n = H.name("custom")
                return n if isinstance(x.ops[0], (ast.Eq, ast.Is)) else ast.UnaryOp(op=ast.Not(), operand=n)
            if any(au.is_self_attr(s, "_custom_bnd") for s in sides) and any(isinstance(s, ast.Constant) and s.value is None for s in sides):
                n = H.name("custom")
                return ast.UnaryOp(op=ast.Not(), operand=n) if isinstance(x.ops[0], (ast.Eq, ast.Is)) else n
        return None
    n_cycle = 0
    for conds, leaf in hj_scope.ifexp_leaves(B):
        kind_b = _index_set(leaf, facts.get("masks", {}))
        is_cycle = kind_b in ("cycle", "cycle-edges")
        if kind_b == "border-sorted":
            ctx.fail("C17-B1", site, "run: the border index list holds the border vertices in increasing index order",
                     f"`{au.src(leaf)[:70]}`: circle / square positions go to the k-th vertex of the border cycle, and row k of a custom boundary to the k-th "
                     "vertex of mesh.boundary_vertices (which is not sorted): in index order the prescribed positions land on other border vertices")
            continue
        if kind_b == "cycle":
            n_cycle += 1
            ab = H.Abs(atom)
            code = ab.boolean(H.conj(conds))
            if not ab.unknown and conds:
                wit, n = H.compare(ast.BoolOp(op=ast.And(), values=[code, H.name("custom")]), "False")
                if wit is not None:
                    ctx.fail("C17-B1", site, "run: the sorted border cycle is used although the target is custom",
                             "row i of the custom boundary is the position of the i-th vertex of mesh.boundary_vertices: with the cycle order the positions land on other vertices")
                    continue
            elif not conds:
                # unconditional: is the custom target handled at all (does the class know a custom mode)?
                ib_src = au.src(ctx.repo.func(TUT, f"{CLS}._initialize_boundary"))
                if "_custom_bnd" in ib_src:
                    ctx.fail("C17-B1", site, "run: the sorted border cycle is used although the target is custom",
                             "row i of the custom boundary is the position of the i-th vertex of mesh.boundary_vertices: with the cycle order the positions land on other vertices")
                    continue
            ctx.ok("C17-B1", site, "border order = first result of extract_border_cycle(self.mesh)")
            continue
        if is_cycle:
            ctx.fail("C17-B1", site, "run: the border index list is the edge list of extract_border_cycle, not its vertex list", "")
            continue
        if kind_b == "border-list":
            ab = H.Abs(atom)
            code = ab.boolean(H.conj(conds))
            if ab.unknown:
                ctx.undecided("C17-B1", site, "run: the condition under which the unsorted border list is used is not recognised", f"{ab.unknown}")
                continue
            wit, n = H.compare(ast.BoolOp(op=ast.And(), values=[code, ast.UnaryOp(op=ast.Not(), operand=H.name("custom"))]), "False")
            ctx.check(wit is None, "C17-B1", site,
                      "run: the border index list is not taken from extract_border_cycle although the target is not custom",
                      "circle and square positions are assigned along the border: the k-th position must go to the k-th vertex of the border cycle, "
                      "not to the k-th border vertex in index order", note="unsorted border list only for the custom target")
            continue
        ctx.undecided("C17-B1", site, "run: an origin of the border index list is not recognised", f"`{au.src(leaf)[:80]}`")
    if n_cycle == 0 and not ctx.undecided_list:
        ctx.fail("C17-B1", site, "run: border order is never taken from extract_border_cycle(self.mesh)",
                 "border vertices must be placed on the convex shape in border order")


# ------------------------------------------------------------------ C17-H1
def h1_system(ctx, facts):
    fn0, fn, S, site = facts["fn0"], facts["fn"], facts["S"], facts["site"]
    solves = facts["solves"]
    if not solves:
        ctx.undecided("C17-H1", site, "run: the linear solve(s) of the harmonic extension are not recognised", f"after inlining {facts['inlined']}")
        return
    covered = []
    for s in solves:
        ssite = ctx.site(TUT, fn0, s["call"])
        if s["LI"] is None or s["LB"] is None or s["sign"] is None:
            ctx.undecided("C17-H1", ssite, "run: a solve is not of the form solve(L[free,:][:,free], -L[free,:][:,border] . x_border)", "")
            continue
        M1, r1, c1 = s["LI"]
        M2, r2, c2 = s["LB"]
        ok = au.same(M1, M2) and au.same(r1, c1) and au.same(r1, r2) and not au.same(c2, r1)
        ctx.check(ok, "C17-H1", ssite, "run: a coordinate system does not use one free/border partition of one matrix",
                  f"rows/cols: L_II = [{au.src(r1)[:40]}, {au.src(c1)[:40]}], L_IB = [{au.src(r2)[:40]}, {au.src(c2)[:40]}]: every interior vertex must be the weighted "
                  "average of its neighbours, interior or border", note="L[free,free], L[free,border]")
        ctx.check(s["sign"] == -1, "C17-H1", ssite, "run: a right-hand side is not minus L[free,border] x_border",
                  "L_II u + L_IB u_B = 0; with the wrong sign the interior is mirrored through the origin and triangles near the border flip",
                  note="rhs = -L_IB x_B")
        if s["coords"] is None:
            ctx.undecided("C17-H1", ssite, "run: the boundary values of a solve are not recognised as results of _initialize_boundary", "")
        else:
            covered.append(s["coords"])
        if ok:
            kind_free = _index_set(r1, facts.get("masks", {}))
            if kind_free in ("interior", "interior-sorted"):
                ctx.ok("C17-H1", ssite, "free = interior vertices")
            elif kind_free in ("border-list", "border-sorted", "cycle") or au.src(r1) in ("self.mesh.boundary_vertices", "self.mesh.id_vertices") or (isinstance(r1, ast.Subscript) and isinstance(r1.value, ast.Call)
                                                                                            and au.call_tail(r1.value) == "extract_border_cycle"):
                ctx.fail("C17-H1", ssite, "run: the free index list is not self.mesh.interior_vertices", f"found `{au.src(r1)[:60]}`")
            else:
                ctx.undecided("C17-H1", ssite, "run: the list of free (interior) vertices is not recognised", "")
            lap = M1
            while isinstance(lap, ast.Call) and isinstance(lap.func, ast.Attribute) and lap.func.attr in ("tocsc", "tocsr", "tolil") and not lap.args:
                lap = lap.func.value
            if not (isinstance(lap, ast.Call) and au.call_tail(lap) == "laplacian"):
                ctx.undecided("C17-H1", ssite, "run: the matrix of the system is not recognised as operators.laplacian(...)", "")
            else:
                kws = {k.arg: k.value for k in lap.keywords}
                names = ["mesh", "cotan", "connection", "order"]
                for i, a in enumerate(lap.args):
                    if i < len(names):
                        kws[names[i]] = a
                conn = kws.get("connection")
                ok_lap = au.src(kws.get("mesh")) == "self.mesh" and (conn is None or (isinstance(conn, ast.Constant) and conn.value is None))
                cot = kws.get("cotan")
                if cot is None:
                    ctx.fail("C17-H1", ssite, "run: the matrix is not operators.laplacian(self.mesh, cotan=self._use_cotan) (scalar, no connection)",
                             "`cotan` is not passed: the library default (cotangent weights) is used whatever use_cotan says")
                elif ok_lap and au.is_self_attr(cot, "_use_cotan"):
                    ctx.ok("C17-H1", ssite, "scalar Laplacian, cotan=self._use_cotan")
                elif not ok_lap or isinstance(cot, ast.Constant) or (isinstance(cot, ast.UnaryOp) and au.is_self_attr(cot.operand, "_use_cotan")):
                    ctx.fail("C17-H1", ssite, "run: the matrix is not operators.laplacian(self.mesh, cotan=self._use_cotan) (scalar, no connection)",
                             f"found `{au.src(lap)[:100]}`: uniform weights unless cotangent weights are requested; a connection Laplacian is complex")
                elif ok_lap and au.is_self_attr(cot):
                    # another attribute of the instance: what does the constructor store in it?
                    d = None
                    try:
                        ini, iS, _ = H.norm_fn(ctx, TUT, f"{CLS}.__init__")
                        sts = [q for q in au.stmts(ini.body) if isinstance(q, ast.Assign) and any(au.is_self_attr(t, cot.attr) for t in q.targets)]
                        if len(sts) == 1:
                            d = iS.canon(sts[0].value, sts[0])
                        leaves = [l for q in sts for _, l in hj_scope.ifexp_leaves(iS.canon(q.value, q))]
                    except Exception:      # noqa: BLE001
                        d, leaves = None, []
                    if d is not None and (H.is_name(d, "use_cotan") or (isinstance(d, ast.Call) and au.call_tail(d) == "bool" and len(d.args) == 1 and H.is_name(d.args[0], "use_cotan"))):
                        ctx.ok("C17-H1", ssite, f"scalar Laplacian, cotan=self.{cot.attr} (= the constructor argument use_cotan)")
                    elif leaves and all(isinstance(l, ast.Constant) and isinstance(l.value, str) and l.value for l in leaves):
                        ctx.fail("C17-H1", ssite, "run: the matrix is not operators.laplacian(self.mesh, cotan=self._use_cotan) (scalar, no connection)",
                                 f"`cotan=self.{cot.attr}` is a non-empty string, which is always true: cotangent weights are used whatever use_cotan says")
                    else:
                        ctx.undecided("C17-H1", ssite, "run: the `cotan` argument of the Laplacian is not recognised", "")
                else:
                    ctx.undecided("C17-H1", ssite, "run: the `cotan` argument of the Laplacian is not recognised", "")
    flat = [k for c in covered for k in c]
    if covered and len(covered) == len(solves):
        ctx.check(sorted(flat) == [0, 1], "C17-H1", site, "run: the two boundary coordinates are not each extended by one solve",
                  f"boundary coordinates solved for: {flat} (0 = first, 1 = second result of _initialize_boundary)", note="one solve per coordinate")


# ------------------------------------------------------------------ C17-S1 (run)
def _strip_two_column_reshape(e):
    """X of np.reshape(X, (n, 2)) / X.reshape(n, 2) / X.reshape((n, 2)) / X.reshape(-1, 2)"""
    for _ in range(3):
        shape = None
        if isinstance(e, ast.Call) and au.call_tail(e) == "reshape" and isinstance(e.func, ast.Attribute):
            if isinstance(e.func.value, ast.Name) and e.func.value.id in ("np", "numpy") and len(e.args) == 2:
                inner, shape = e.args[0], e.args[1]
            elif e.args:
                inner, shape = e.func.value, (e.args[0] if len(e.args) == 1 else ast.Tuple(elts=list(e.args), ctx=ast.Load()))
        if shape is not None and isinstance(shape, ast.Tuple) and len(shape.elts) == 2 and au.const(shape.elts[1]) == 2:
            e = inner
        else:
            break
    return e


def _two_columns(e):
    """(X0, X1) when e puts two vectors side by side as the columns of a (n, 2) array"""
    if isinstance(e, ast.Call) and au.call_tail(e) in ("column_stack", "stack", "array", "asarray", "transpose") or isinstance(e, ast.Attribute):
        if isinstance(e, ast.Call) and au.call_tail(e) == "column_stack" and len(e.args) == 1 and isinstance(e.args[0], (ast.Tuple, ast.List)) and len(e.args[0].elts) == 2:
            return tuple(e.args[0].elts)
        if isinstance(e, ast.Call) and au.call_tail(e) == "stack" and len(e.args) >= 1 and isinstance(e.args[0], (ast.Tuple, ast.List)) and len(e.args[0].elts) == 2:
            ax = e.args[1] if len(e.args) > 1 else next((k.value for k in e.keywords if k.arg == "axis"), None)
            if ax is not None and au.const(ax) in (1, -1):
                return tuple(e.args[0].elts)
        rows = None
        if isinstance(e, ast.Attribute) and e.attr == "T":
            rows = e.value
        elif isinstance(e, ast.Call) and au.call_tail(e) == "transpose" and not e.keywords:
            rows = e.func.value if isinstance(e.func, ast.Attribute) and not e.args and not (isinstance(e.func.value, ast.Name) and e.func.value.id in ("np", "numpy")) \
                else (e.args[0] if len(e.args) == 1 else None)
        if isinstance(rows, ast.Call) and au.call_tail(rows) in ("array", "asarray", "vstack", "stack") and len(rows.args) == 1 and not rows.keywords \
                and isinstance(rows.args[0], (ast.Tuple, ast.List)) and len(rows.args[0].elts) == 2:
            return tuple(rows.args[0].elts)
    return None


def _scatter_store(ctx, facts, st, tgt, val, mode, lps, F, B, sol):
    """`self.uvs[key] = Z[v]` with Z a (|V|, 2) array filled by `Z[free] = X`, `Z[border, k] = x_k` : 'ok' | 'bad' | '?' | None (other form)"""
    fn0, fn, S = facts["fn0"], facts["fn"], facts["S"]
    while isinstance(val, ast.Call) and au.call_tail(val) in ("Vec", "array", "asarray", "tuple") and len(val.args) == 1 and not val.keywords:
        val = val.args[0]           # a copy of the row
    if not (isinstance(val, ast.Subscript) and isinstance(val.value, ast.Name) and isinstance(val.slice, ast.Name)):
        return None
    Z, v = val.value.id, val.slice.id
    zdef = S.value(Z, st)
    if not (isinstance(zdef, ast.Call) and au.call_tail(zdef) in ("zeros", "empty", "full") and zdef.args and isinstance(zdef.args[0], ast.Tuple)
            and len(zdef.args[0].elts) == 2 and au.const(zdef.args[0].elts[1]) == 2 and au.src(zdef.args[0].elts[0]) == "len(self.mesh.vertices)"):
        return None
    # ---- gather: which vertex does the key belong to
    if not lps:
        return "?"
    key = tgt.slice
    outer = lps[-1]
    elem, idx, seq, start = H.loop_elem(outer)
    seqc = S.canon(seq, outer)
    gather_ok = False
    if mode == "vertex" and len(lps) == 1 and idx is None and H.is_name(elem, v) and H.is_name(key, v) \
            and (au.src(seqc) == "self.mesh.id_vertices" or H.is_range_len(seqc, "self.mesh.vertices")):
        gather_ok = True
    if mode == "corner" and len(lps) == 1 and idx is not None and H.is_name(elem, v) and H.is_name(key, idx) and au.const(start) == 0 \
            and au.src(seqc) == "self.mesh.face_corners":
        gather_ok = True          # corner c belongs to vertex face_corners[c]
    if mode == "corner" and len(lps) == 2 and idx is None and H.is_name(elem, v) and isinstance(key, ast.Name) and H.is_name(lps[0].target, key.id) \
            and (au.src(seqc) == "self.mesh.id_vertices" or H.is_range_len(seqc, "self.mesh.vertices")):
        ic = S.canon(lps[0].iter, lps[0], keep=(v,))
        gather_ok = isinstance(ic, ast.Call) and au.call_tail(ic) == "vertex_to_corners" and len(ic.args) == 1 and H.is_name(ic.args[0], v)
    if not gather_ok:
        return "?"
    # ---- scatter
    got = {}
    top_read = H.top_stmt_in(fn.body, st)
    for s2, t2, v2 in H.subscript_stores(fn, lambda b: H.is_name(b, Z)):
        top_w = H.top_stmt_in(fn.body, s2)
        if v2 is None or top_w is None or top_read is None or not H.block_pos(top_w) < H.block_pos(top_read) or not any(s2 is z for z in fn.body):
            return "?"
        sl = t2.slice
        col = None
        if isinstance(sl, ast.Tuple) and len(sl.elts) == 2:
            col = au.const(sl.elts[1])
            sl = sl.elts[0]
            if not isinstance(col, int):
                return "?"
        rows = S.canon(sl, s2)
        which = "F" if au.same(rows, F) else ("B" if au.same(rows, B) else None)
        vc = S.canon(v2, s2)
        if which is None:
            return "?"
        if col is None:
            # both columns at once: a two-column solution whose columns are coordinates 0, 1 in this order
            vc2 = _strip_two_column_reshape(vc)
            pair = _two_columns(vc)
            if which == "F" and sorted(sol) == [0, 1] and all(au.same(sol[k][0], vc2) and sol[k][1] == k for k in sol):
                got[("F", 0)], got[("F", 1)] = 0, 1
            elif pair is not None and all(_init_coord(x) is not None for x in pair):
                # the two boundary vectors put side by side: column k holds the coordinate of pair[k]
                got[(which, 0)], got[(which, 1)] = ("B", _init_coord(pair[0])), ("B", _init_coord(pair[1]))
            else:
                return "?"
        else:
            k = _init_coord(vc)
            if k is not None:
                got[(which, col)] = ("B", k)
            else:
                hit = [kk for kk, (canon, c) in sol.items() if c is None and au.same(canon, vc)]
                if len(hit) != 1:
                    return "?"
                got[(which, col)] = ("F", hit[0])
    want = {("F", 0): ("F", 0), ("F", 1): ("F", 1), ("B", 0): ("B", 0), ("B", 1): ("B", 1)}
    norm = {k: (v if isinstance(v, tuple) else ("F", v)) for k, v in got.items()}
    if set(norm) != set(want):
        return "?"
    if norm == want:
        ctx.ok("C17-S1", ctx.site(TUT, fn0, st), f"per-{mode} branch reads the coordinates of its vertex from the scattered array")
        return "ok"
    ctx.fail("C17-S1", ctx.site(TUT, fn0, st),
             f"run, per-{mode} branch: stored values are not (U[i], V[i]) over enumerate(free) and (Ubnd[i], Vbnd[i]) over enumerate(border)",
             f"the array of all coordinates is filled with {sorted((k, v) for k, v in norm.items() if want[k] != v)} (rows, column) <- (source, coordinate)")
    return "bad"


def s1_siblings(ctx, facts):
    fn0, fn, S, site = facts["fn0"], facts["fn"], facts["S"], facts["site"]
    solves = facts["solves"]
    B = facts.get("B")
    ok_sys = solves and all(s["LI"] is not None and s["coords"] is not None for s in solves) and B is not None
    # names that alias the attribute: self.uvs = N
    aliases = {st.value.id for st in au.stmts(fn.body) if isinstance(st, ast.Assign) and isinstance(st.value, ast.Name)
               and any(au.is_self_attr(t, "uvs") for t in st.targets)}
    stores = [(st, tgt, val) for st, tgt, val in H.subscript_stores(fn, lambda x: au.is_self_attr(x, "uvs") or (isinstance(x, ast.Name) and x.id in aliases))]
    if not stores or not ok_sys:
        ctx.undecided("C17-S1", site, "run: the stores of the coordinates into self.uvs / the solutions they come from are not recognised", "")
        return
    F = solves[0]["LI"][1]
    sol = {}
    for s in solves:
        for col, k in enumerate(s["coords"]):
            sol[k] = (s["canon"], col if len(s["coords"]) > 1 else None)

    def comp_of(e):
        """('F' | 'B', coordinate, index expr) for X[i] / X[i, col] / X[i][col] with X a solution or a boundary vector"""
        col = None
        if isinstance(e, ast.Subscript) and isinstance(e.value, ast.Subscript) and isinstance(au.const(e.slice), int) and not isinstance(e.slice, ast.Tuple) \
                and _init_coord(e.value) is None:
            col, e = au.const(e.slice), e.value
        if not isinstance(e, ast.Subscript):
            return None
        idx = e.slice
        if isinstance(idx, ast.Tuple) and len(idx.elts) == 2 and isinstance(au.const(idx.elts[1]), int):
            col, idx = au.const(idx.elts[1]), idx.elts[0]
        base = e.value
        # a column taken first (`X[:, col][i]`), reshapes of the two-column solution
        for _ in range(3):
            if isinstance(base, ast.Subscript) and isinstance(base.slice, ast.Tuple) and len(base.slice.elts) == 2 \
                    and isinstance(base.slice.elts[0], ast.Slice) and base.slice.elts[0].lower is None and base.slice.elts[0].upper is None \
                    and isinstance(au.const(base.slice.elts[1]), int) and col is None:
                col, base = au.const(base.slice.elts[1]), base.value
            elif isinstance(base, ast.Call) and isinstance(base.func, ast.Attribute) and base.func.attr == "reshape" and base.args \
                    and isinstance(base.args[-1] if not isinstance(base.args[0], ast.Tuple) else base.args[0].elts[-1], ast.Constant) \
                    and au.const(base.args[-1] if not isinstance(base.args[0], ast.Tuple) else base.args[0].elts[-1]) == 2:
                base = base.func.value
            else:
                break
        k = _init_coord(base)
        if k is not None and col is None:
            return "B", k, idx
        for k, (canon, c) in sol.items():
            if au.same(base, canon) and c == col:
                return "F", k, idx
        return None

    def vertex_of(e):
        """('F' | 'B', index name) when e is IDX[k] for one of the two index lists"""
        if isinstance(e, ast.Subscript) and isinstance(e.slice, ast.Name):
            if au.same(e.value, F):
                return "F", e.slice.id
            if au.same(e.value, B):
                return "B", e.slice.id
        return None

    def index_loop_ok(k, which, st):
        """k enumerates the whole index list: enumerate / zip index of a loop over it (by construction) or range(len(list))"""
        if k.startswith("zip_k__"):
            return True
        for lp in H.for_ancestors(st, stop=fn):
            elem, idx, seq, start = H.loop_elem(lp)
            if idx == k:
                return au.const(start) == 0 and au.same(S.canon(seq, lp), F if which == "F" else B)
            if idx is None and H.is_name(elem, k):
                sc = S.canon(seq, lp)
                return isinstance(sc, ast.Call) and au.call_tail(sc) == "range" and len(sc.args) == 1 and isinstance(sc.args[0], ast.Call) \
                    and au.call_tail(sc.args[0]) == "len" and len(sc.args[0].args) == 1 and au.same(sc.args[0].args[0], F if which == "F" else B)
        return False
    results = {}
    unknown = []
    bad = []
    for st, tgt, val in stores:
        lps = H.for_ancestors(st, stop=fn)
        conds = H.inner_conds(S, st, fn)
        mode = None
        rest = []
        for t, p in conds:
            t2, p2 = au.strip_not(t, p)
            if au.is_self_attr(t2, "save_on_corners"):
                mode = "corner" if p2 else "vertex"
            else:
                rest.append(t)
        if mode is None or rest or val is None or not lps:
            unknown.append(st)
            continue
        sc = _scatter_store(ctx, facts, st, tgt, val, mode, lps, F, B, sol)
        if sc is not None:
            if sc == "ok":
                results[(mode, "F")] = results[(mode, "B")] = True
            elif sc == "bad":
                bad.append(st)
            else:
                unknown.append(st)
            continue
        ssite = ctx.site(TUT, fn0, st)
        # ---- which vertex does the key stand for
        inner_vars = tuple(n for l in lps for n in au.assigned_names(l.target))
        key = tgt.slice
        kc = S.canon(key, st)
        vert = None
        if mode == "vertex":
            vert = vertex_of(kc)
            if vert is None and isinstance(kc, ast.Name):
                # keyed by a bare loop index: the position in the list instead of the vertex
                for lp in lps:
                    elem, idx, seq, start = H.loop_elem(lp)
                    if idx == kc.id and (au.same(S.canon(seq, lp), F) or au.same(S.canon(seq, lp), B)):
                        bad.append(st)
                        ctx.fail("C17-S1", ssite, "run, per-vertex branch: a store into self.uvs is keyed by the position in the index list instead of the vertex",
                                 "the coordinates of vertex v must reach uvs[v]")
                        vert = "reported"
        else:
            if isinstance(key, ast.Name):
                cl = next((l for l in lps if H.is_name(l.target, key.id)), None)
                if cl is not None:
                    ic = S.canon(cl.iter, cl)
                    if isinstance(ic, ast.Call) and au.call_tail(ic) == "vertex_to_corners" and len(ic.args) == 1:
                        vert = vertex_of(ic.args[0])
                        if vert is None and isinstance(ic.args[0], ast.Name):
                            for lp in lps:
                                elem, idx, seq, start = H.loop_elem(lp)
                                if idx == ic.args[0].id and (au.same(S.canon(seq, lp), F) or au.same(S.canon(seq, lp), B)):
                                    bad.append(st)
                                    ctx.fail("C17-S1", ssite, "run, per-corner branch: the corners are those of the position in the index list, not of the vertex",
                                             "vertex_to_corners is called with the loop index: the coordinates of vertex v must reach all corners vertex_to_corners(v)")
                                    vert = "reported"
                        if vert not in (None, "reported") and H.path_condition(st, stop=cl):
                            vert = None
            if vert is None and isinstance(kc, ast.Subscript) and isinstance(kc.value, ast.Call) and au.call_tail(kc.value) == "vertex_to_corners" \
                    and isinstance(au.const(kc.slice), int):
                bad.append(st)
                ctx.fail("C17-S1", ssite, "run, per-corner branch: only one corner of the enumerated vertex receives its coordinates",
                         "the coordinates of vertex v must reach all corners vertex_to_corners(v)")
                vert = "reported"
        if vert == "reported":
            continue
        if vert is None:
            unknown.append(st)
            continue
        which, k = vert
        if not index_loop_ok(k, which, st):
            unknown.append(st)
            continue
        valc = S.canon(val, st)
        comps = None
        if isinstance(valc, ast.Call) and au.call_tail(valc) in ("Vec", "array", "tuple") and len(valc.args) == 2:
            comps = [comp_of(a) for a in valc.args]
        elif isinstance(valc, (ast.Tuple, ast.List)) and len(valc.elts) == 2:
            comps = [comp_of(a) for a in valc.elts]
        elif isinstance(valc, ast.Subscript) and H.is_name(valc.slice, k):
            for kk, (canon, c) in sol.items():
                if c is not None and au.same(valc.value, canon):
                    comps = [("F", j, valc.slice) for j in sorted(sol)] if all(au.same(sol[j][0], canon) for j in sol) else None
        if comps is None or None in comps:
            unknown.append(st)
            continue
        good = [c[0] == which and c[1] == j and H.is_name(c[2], k) for j, c in enumerate(comps)]
        if all(good):
            results[(mode, which)] = True
            ctx.ok("C17-S1", ssite, f"per-{mode} branch stores the {('solution' if which == 'F' else 'boundary value')} of vertex i over the {'free' if which == 'F' else 'border'} list")
        else:
            bad.append(st)
            ctx.fail("C17-S1", ssite,
                     f"run, per-{mode} branch: stored values are not (U[i], V[i]) over enumerate(free) and (Ubnd[i], Vbnd[i]) over enumerate(border)",
                     f"the vertex is taken from the {'free' if which == 'F' else 'border'} list and receives "
                     f"{[(('solution' if c[0] == 'F' else 'boundary') + ' of coordinate ' + str(c[1])) for c in comps]}: position i of each "
                     "solution vector belongs to the i-th vertex of the list that indexed the matrix block; the two storage modes must agree")
    if unknown:
        ctx.undecided("C17-S1", ctx.site(TUT, fn0, unknown[0]), "run: a store into self.uvs is not recognised as (U[i], V[i]) / (Ubnd[i], Vbnd[i]) of an enumerated index list", "")
    elif not bad:
        modes = {m for m, w in results}
        missing = [(m, w) for m in modes for w in ("F", "B") if (m, w) not in results]
        if modes != {"corner", "vertex"}:
            ctx.undecided("C17-S1", site, "run: the two storage modes (per corner / per vertex) are not both recognised", "")
        else:
            stored = {id(t.value) for st_, t, v_ in stores}
            other_uses = [n for n in au.walk(fn) if ((au.is_self_attr(n, "uvs") and isinstance(n.ctx, ast.Load)) or (isinstance(n, ast.Name) and n.id in aliases and isinstance(n.ctx, ast.Load)))
                          and id(n) not in stored and not (isinstance(au.parent(n), ast.Assign) and au.parent(n).value is n)]
            if missing and not other_uses:
                ctx.fail("C17-S1", site, "run: a storage mode does not store both the interior solution and the boundary values",
                         f"missing: {[(m, 'interior' if w == 'F' else 'border') for m, w in missing]}: these vertices keep the default coordinates (0, 0)")
            elif missing:
                ctx.undecided("C17-S1", site, "run: a storage mode is not recognised to store both the interior solution and the boundary values", f"{missing}")
            else:
                ctx.ok("C17-S1", site, "both modes store interior and boundary coordinates")
    # attribute containers
    creations = [st for st in au.stmts(fn.body) if isinstance(st, ast.Assign) and any(au.is_self_attr(t, "uvs") for t in st.targets)]
    for st in creations:
        v = S.canon(st.value, st)
        base_mode = None
        for t, p in H.inner_conds(S, st, fn):
            t2, p2 = au.strip_not(t, p)
            if au.is_self_attr(t2, "save_on_corners"):
                base_mode = "corner" if p2 else "vertex"
        alts = []
        if isinstance(v, ast.Call) and au.call_tail(v) == "create_attribute" and isinstance(v.func, ast.Attribute):
            for conds, leaf in hj_scope.ifexp_leaves(v.func.value):
                mode = base_mode
                for t, p in conds:
                    t2, p2 = au.strip_not(t, p)
                    if au.is_self_attr(t2, "save_on_corners"):
                        mode = "corner" if p2 else "vertex"
                alts.append((mode, leaf, v))
        else:
            for conds, leaf in hj_scope.ifexp_leaves(v):
                mode = base_mode
                for t, p in conds:
                    t2, p2 = au.strip_not(t, p)
                    if au.is_self_attr(t2, "save_on_corners"):
                        mode = "corner" if p2 else "vertex"
                if isinstance(leaf, ast.Call) and au.call_tail(leaf) == "create_attribute" and isinstance(leaf.func, ast.Attribute):
                    alts.append((mode, leaf.func.value, leaf))
                else:
                    alts.append((None, None, None))
        if not alts or any(m is None for m, _, _ in alts):
            ctx.undecided("C17-S1", ctx.site(TUT, fn0, st), "run: the creation of the attribute self.uvs is not recognised", "")
            continue
        for mode, cont_e, call in alts:
            cont = au.src(cont_e)
            want = "self.mesh.face_corners" if mode == "corner" else "self.mesh.vertices"
            size = call.args[2] if len(call.args) > 2 else next((k.value for k in call.keywords if k.arg in ("elem_size", "size")), None)
            sz = hj_scope.fold(S.canon(size, st)) if size is not None else 1
            other = "self.mesh.vertices" if mode == "corner" else "self.mesh.face_corners"
            if cont == want and sz == 2:
                ctx.ok("C17-S1", ctx.site(TUT, fn0, st), f"per-{mode} branch: attribute on {want}")
            elif cont == other or (cont == want and sz is not None and sz != 2):
                ctx.fail("C17-S1", ctx.site(TUT, fn0, st), f"run, per-{mode} branch: self.uvs is not a 2-component attribute on {want}", f"found `{au.src(call)[:90]}`")
            else:
                ctx.undecided("C17-S1", ctx.site(TUT, fn0, st), f"run, per-{mode} branch: the container / size of the attribute self.uvs is not recognised", "")


# ------------------------------------------------------------------ C17-S1 (flat_mesh): evaluated on a two-triangle mesh
def _flat_mesh_eval(ctx, on_corners):
    faces = [(0, 1, 2), (2, 1, 3)]
    corners = [v for f in faces for v in f]
    f_uv = lambda v: (v + 0.25, -2.0 * v - 1)
    uvs = [f_uv(v) for v in corners] if on_corners else [f_uv(v) for v in range(4)]
    flat = {}

    def hook(path):
        table = {"self.mesh": lambda: E.Obj("self.mesh", hook), "self.mesh.faces": lambda: [tuple(f) for f in faces], "self.mesh.id_faces": lambda: range(2),
                 "self.mesh.id_vertices": lambda: range(4), "self.mesh.vertices": lambda: [(9.0, 9.0, 9.0)] * 4, "self.mesh.face_corners": lambda: list(corners),
                 "self.mesh.id_corners": lambda: range(6), "self.mesh.connectivity": lambda: E.Obj("self.mesh.connectivity", hook),
                 "self.uvs": lambda: [tuple(x) for x in uvs], "self.save_on_corners": lambda: on_corners, "self._flat_mesh": lambda: None}
        return table[path]() if path in table else E.MISSING

    def call_hook(path, args, kwargs):
        if path == "self.mesh.connectivity.face_to_corners" and len(args) == 1:
            return [3 * args[0] + i for i in range(3)]
        if path == "self.mesh.connectivity.corner_to_face" and len(args) == 1:
            return args[0] // 3
        if path == "self.mesh.connectivity.vertex_to_corners" and len(args) == 1:
            return [c for c, v in enumerate(corners) if v == args[0]]
        if path == "self.mesh.connectivity.face_to_vertices" and len(args) == 1:
            return list(faces[args[0]])
        return E.MISSING

    def mk_copy(m):
        o = E.Obj("flat", lambda p: E.MISSING)
        o.attrs["vertices"] = [(9.0, 9.0, 9.0)] * 4
        o.attrs["faces"] = [tuple(f) for f in faces]
        flat["obj"] = o
        return o
    it = E.Interp(ctx.repo, BASE, obj_hook=hook, obj_class={"self": (TUT, CLS)}, call_hook=call_hook,
                  name_hook={"copy": mk_copy, "Vec": lambda *a: tuple(float(x) for x in a), "deepcopy": mk_copy})
    fn = ctx.repo.func(BASE, "BaseParametrization.flat_mesh")
    r = it.call_function(fn, [E.Obj("self", hook)])
    if not isinstance(r, E.Obj) or "vertices" not in r.attrs:
        raise E.Unsupported("flat_mesh does not return the copied mesh")
    out = r.attrs["vertices"]
    bad = []
    for v in range(4):
        want = (f_uv(v)[0], f_uv(v)[1], 0.0)
        got = out[v]
        if not (isinstance(got, tuple) and len(got) == 3 and all(isinstance(x, (int, float)) for x in got) and all(abs(a - b) < 1e-12 for a, b in zip(got, want))):
            bad.append((v, got, want))
    return bad


def s1_flat_mesh(ctx):
    fm = ctx.repo.func(BASE, "BaseParametrization.flat_mesh")
    fsite = ctx.site(BASE, fm)
    for on_corners, label in ((True, "per-corner"), (False, "per-vertex")):
        try:
            bad = _flat_mesh_eval(ctx, on_corners)
        except (E.Unsupported, RecursionError) as ex:
            ctx.undecided("C17-S1", fsite, f"flat_mesh: the copy of the {label} coordinates into the flat mesh cannot be evaluated", f"abstract evaluation stops at: {ex}")
            continue
        except E.Raised as ex:
            ctx.fail("C17-S1", fsite, f"flat_mesh: reading the {label} coordinates raises on a two-triangle mesh", str(ex))
            continue
        if on_corners:
            ctx.check(not bad, "C17-S1", fsite, "flat_mesh: per-corner coordinates of vertex i of triangle T are not read at corner 3*T+i, components 0 and 1",
                      f"on the mesh [(0,1,2),(2,1,3)] vertex {bad[0][0]} receives {bad[0][1]} instead of {bad[0][2]}" if bad else "", note="flat_mesh: corner key 3*T+i")
        else:
            ctx.check(not bad, "C17-S1", fsite, "flat_mesh: per-vertex coordinates are not read at uvs[v], components 0 and 1",
                      f"on the mesh [(0,1,2),(2,1,3)] vertex {bad[0][0]} receives {bad[0][1]} instead of {bad[0][2]}" if bad else "", note="flat_mesh: vertex key v")
# ------------------------------------------------------------------ C17-W1
def w1_border_walk(ctx):
    H.check_walk_orientation(ctx, "C17-W1")
    H.check_sort_contract(ctx, "C17-W1")


# ------------------------------------------------------------------ C17-L1
def _is_cot_source(e):
    return isinstance(e, ast.Call) and (au.call_tail(e) == "cotangent" or (au.call_tail(e) == "get_attribute" and e.args and au.const(e.args[0]) == "cotan"))


_COT_NAMES = set()      # names of the local(s) holding the cotangent container in the function under analysis


def _is_unset(l):
    """None, or the bare name of the container itself left over where no definition reaches (unbound on that path)"""
    return (isinstance(l, ast.Constant) and l.value is None) or (isinstance(l, ast.Name) and l.id in _COT_NAMES)


def _is_cot_expr(e):
    leaves = [l for _, l in hj_scope.ifexp_leaves(e)]
    return any(_is_cot_source(l) for l in leaves) and all(_is_cot_source(l) or _is_unset(l) for l in leaves)


def _nonnull(e):
    if isinstance(e, ast.IfExp):
        return ast.BoolOp(op=ast.Or(), values=[ast.BoolOp(op=ast.And(), values=[e.test, _nonnull(e.body)]),
                                               ast.BoolOp(op=ast.And(), values=[ast.UnaryOp(op=ast.Not(), operand=e.test), _nonnull(e.orelse)])])
    return ast.Constant(value=not _is_unset(e))


def l1_weights(ctx):
    fn0 = ctx.repo.func(LAPM, "laplacian")
    site = ctx.site(LAPM, fn0)
    fn, S, nz = H.norm_fn(ctx, LAPM, "laplacian")
    if "cotan" not in au.params(fn):
        ctx.undecided("C17-L1", site, "laplacian: parameter `cotan` not recognised", "uniform weights must remain selectable")
        return
    reads = []
    _COT_NAMES.clear()
    for n in au.walk(fn):
        if isinstance(n, ast.Subscript) and isinstance(n.ctx, ast.Load) and isinstance(n.value, ast.Name):
            c = S.canon(n.value, n, prune=False)
            _COT_NAMES.add(n.value.id)
            ok = _is_cot_expr(c)
            _COT_NAMES.discard(n.value.id)
            if ok:
                reads.append((n, c))
    _COT_NAMES.update(n.value.id for n, c in reads)
    if not reads:
        ctx.undecided("C17-L1", site, "laplacian: the reads of the cotangent weights in the assembly are not recognised", "")
        return

    def atom(x, boolean):
        if H.is_name(x, "cotan") and boolean:
            return H.name("cotan")
        if isinstance(x, ast.Call) and au.call_tail(x) == "has_attribute" and x.args and au.const(x.args[0]) == "cotan":
            return H.name("cached")
        if isinstance(x, ast.Compare) and len(x.ops) == 1 and isinstance(x.ops[0], (ast.Is, ast.IsNot)) and isinstance(x.comparators[0], ast.Constant) \
                and x.comparators[0].value is None and _is_cot_expr(x.left):
            nn = H.Abs(atom).boolean(_nonnull(x.left))
            return nn if isinstance(x.ops[0], ast.IsNot) else ast.UnaryOp(op=ast.Not(), operand=nn)
        if boolean and isinstance(x, ast.IfExp) and _is_cot_expr(x):
            return H.Abs(atom).boolean(_nonnull(x))
        return None
    seen = []
    for n, c in reads:
        st = au.enclosing_stmt(n)
        if any(st is z for z in seen):
            continue
        seen.append(st)
        ssite = ctx.site(LAPM, fn0, st)
        ab = H.Abs(atom)
        parts = H.inner_conds(S, st, fn) + [(t, p) for t, p in S.conds(n, stop=st)]
        code = ab.boolean(H.conj(parts))
        if ab.unknown:
            ctx.undecided("C17-L1", ssite, "laplacian: a condition under which the cotangent weights are read is not recognised", f"{ab.unknown}")
            continue
        try:
            wit, k = H.compare(code, "cotan")
        except order.Unsupported as ex:
            ctx.undecided("C17-L1", ssite, "laplacian: the condition of a read of the cotangent weights is not a boolean combination of tests", str(ex))
            continue
        ctx.check(wit is None, "C17-L1", ssite, "laplacian: the cotangent weights are not used exactly when `cotan` is true",
                  f"the read is executed under `{au.src(code)[:120]}`; differs from `cotan` for {H.fmt_env(wit) if wit else ''} "
                  "(cached = the mesh already carries a 'cotan' attribute): TutteEmbedding(use_cotan=False) must use uniform weights, "
                  "which are the ones for which the embedding is always fold-free",
                  note=f"cot[...] read iff cotan ({k} assignments)")
        # the container is set whenever it is read
        nn = H.Abs(atom)
        nn_code = nn.boolean(_nonnull(c))
        if nn.unknown:
            ctx.undecided("C17-L1", ssite, "laplacian: the conditions under which the cotangent container is built are not recognised", f"{nn.unknown}")
        else:
            w2, k2 = H.compare(ast.BoolOp(op=ast.Or(), values=[ast.UnaryOp(op=ast.Not(), operand=code), nn_code]), "True")
            ctx.check(w2 is None, "C17-L1", ssite, "laplacian: the cotangent container may be unset where it is read",
                      f"for {H.fmt_env(w2) if w2 else ''}", note="cot built whenever it is read")
        # the weight of a corner is its cotangent halved, unmodified
        val = getattr(st, "value", None)
        if val is None:
            continue
        marker = "COTREAD"

        # work on the statement itself (reads are nodes of this tree): rebuild a copy with markers
        idmap = {id(r): True for r, _ in reads}

        def mark(e):
            if isinstance(e, ast.Subscript) and id(e) in idmap:
                return ast.Name(id=marker, ctx=ast.Load())
            if isinstance(e, ast.AST):
                new = type(e)()
                for f in e._fields:
                    if hasattr(e, f):
                        v = getattr(e, f)
                        setattr(new, f, [mark(x) for x in v] if isinstance(v, list) else mark(v))
                return new
            return e
        mv = mark(val)
        while isinstance(mv, ast.Call) and isinstance(mv.func, ast.Name) and mv.func.id in ("tuple", "list") and len(mv.args) == 1 and not mv.keywords:
            mv = mv.args[0]
        if isinstance(mv, (ast.GeneratorExp, ast.ListComp)):
            mv = mv.elt             # the weight computed for each corner
        if isinstance(mv, (ast.Tuple, ast.List, ast.GeneratorExp, ast.ListComp)):
            continue
        pl = H.poly(mv)
        wrapped = [a for a in pl.atoms() if marker in a and a != marker]
        if wrapped:
            calls = [c2 for c2 in ast.walk(mv) if isinstance(c2, ast.Call) and any(isinstance(z, ast.Name) and z.id == marker for z in ast.walk(c2))]
            names = {au.call_tail(c2) for c2 in calls}
            if names & {"max", "min", "abs", "clip", "maximum", "minimum", "fabs", "fmax", "fmin"}:
                ctx.fail("C17-L1", ssite, "laplacian: the cotangent of a corner is clamped / rectified before it enters the weights",
                         f"`{au.src(val)[:100]}`: the weight of an edge is (cot a + cot b)/2; clamping each cotangent changes the weight of every edge opposite to an "
                         "obtuse angle even when the sum is non-negative: interior vertices are no longer the cotangent-weighted average of their neighbours")
            else:
                ctx.undecided("C17-L1", ssite, "laplacian: the expression that turns a cotangent into a weight is not recognised", "")
        elif marker in pl.atoms():
            if pl == sym.Poly({(marker,): Fraction(1, 2)}):
                ctx.ok("C17-L1", ssite, "corner weight = cot / 2")
            else:
                ctx.undecided("C17-L1", ssite, "laplacian: the scaling of the cotangent weights is not the recognised cot / 2", f"found {pl!r}")



# ----------------------------------------------------------------------- generic families (msa/rules/generic.py)
_run_specific = run


def run(ctx):
    _run_specific(ctx)
    from ..rules import generic
    generic.apply(ctx, "C17", stale_modules=('processing.parametrization.tutte',))


def _generic_rule_texts():
    from ..rules import generic
    return generic.rule_texts("C17", stale=True)


RULES.update(_generic_rule_texts())
