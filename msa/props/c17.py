"""C17 - Tutte's embedding (structural clauses)."""
from __future__ import annotations
import ast, math
from fractions import Fraction
from .. import au, sym, order
from ..core import AnalysisError
from ..rules import c151718 as H

TUT = "processing.parametrization.tutte"
BASE = "processing.parametrization.base"
CLS = "TutteEmbedding"

EXPLANATION = (
    "Static conformance of TutteEmbedding: the Euler-characteristic gate is a must-fact at every solve / store of the result "
    "(R-MUST); the four sides of the square target are read as affine forms in the loop counter (atoms n//4, n//2, 3n//4, 1/n) "
    "and the position of the first vertex of each side is compared with the position of the corner that precedes it, the sides "
    "must cover the index ranges between consecutive corners; border order comes from extract_border_cycle unless the target is "
    "custom, the circle is 2*pi*i/n for i in range(n); the harmonic system is L_II u = -L_IB u_B over one free/border partition; "
    "the per-corner and per-vertex branches store the same values for the same index sets (sibling agreement).  Structural "
    "necessary conditions only: fold-freeness, convexity and the solve itself are not decided.")

RULES = {
    "C17-G1": "euler_characteristic(self.mesh) == 1 holds on every path reaching the boundary initialisation, the linear solves and the stores into self.uvs",
    "C17-Q1": "square target: each side loop starts right after a corner and ends right before the next one; the position given to the "
              "first vertex of a side differs from the position of the preceding corner (and tends to it as n grows); the position "
              "depends on the loop counter",
    "C17-B1": "unless the target is custom the border vertices are ordered by extract_border_cycle(self.mesh); the boundary is initialised for "
              "self._bnd_mode; the circle places vertex i of n = len(boundary_vertices) at angle 2*pi*i/n, i in range(n), U from the real and V from the imaginary part",
    "C17-W1": "border order follows border edges: extract_border_cycle leaves the start through the head of the sorted neighbour list and scans "
              "forward with first match (or tail / backward); the sorting contract puts the corner-less border neighbour first",
    "C17-L1": "operators.laplacian uses cotangent weights exactly when its `cotan` argument is true and the uniform weights otherwise, whatever "
              "attributes happen to be cached on the mesh (a cached 'cotan' attribute may only be reused when cotan weights are requested)",
    "C17-H1": "interior coordinates solve L[free,free] x = -L[free,border] x_border, with free = interior vertices, the border index list that "
              "orders x_border, and the scalar Laplacian (no connection)",
    "C17-S1": "the per-corner and the per-vertex branch store (U[i], V[i]) over enumerate(free) and (Ubnd[i], Vbnd[i]) over enumerate(border), "
              "U/V being the solutions for Ubnd/Vbnd; flat_mesh reads corner 3*T+i in the per-corner case and vertex v otherwise, components 0 and 1",
}


def run(ctx):
    facts = run_facts(ctx)
    g1_gate(ctx)
    q1_square(ctx)
    b1_border(ctx, facts)
    h1_system(ctx, facts)
    s1_siblings(ctx, facts)
    w1_border_walk(ctx)
    l1_weights(ctx)


# ------------------------------------------------------------------ facts about run()
def run_facts(ctx):
    fn = ctx.repo.func(TUT, f"{CLS}.run")
    b = sym.Bindings(fn)
    facts = {"fn": fn, "b": b, "ubnd": None, "vbnd": None, "init_call": None}
    for st in au.stmts(fn.body):
        if isinstance(st, ast.Assign) and isinstance(st.value, ast.Call) and au.call_tail(st.value) == "_initialize_boundary" \
                and len(st.targets) == 1 and isinstance(st.targets[0], ast.Tuple) and len(st.targets[0].elts) == 2 \
                and all(isinstance(x, ast.Name) for x in st.targets[0].elts):
            facts["ubnd"], facts["vbnd"] = (x.id for x in st.targets[0].elts)
            facts["init_call"] = st.value
    # solves: X = <...>spsolve(M, rhs)
    solves = []
    for st in au.stmts(fn.body):
        if isinstance(st, ast.Assign) and len(st.targets) == 1 and isinstance(st.targets[0], ast.Name) \
                and isinstance(st.value, ast.Call) and au.call_tail(st.value) in ("spsolve", "solve") and len(st.value.args) == 2:
            solves.append((st.targets[0].id, st.value.args[0], st.value.args[1], st))
    facts["solves"] = solves
    return facts


# ------------------------------------------------------------------ C17-G1
def _gate_polarity(test, b, at):
    """True: test true => chi == 1 ; False: test true => chi != 1 ; None: not the gate"""
    if isinstance(test, ast.UnaryOp) and isinstance(test.op, ast.Not):
        p = _gate_polarity(test.operand, b, at)
        return None if p is None else (not p)
    t = b.resolve(test, at=at) if b is not None else test
    if isinstance(t, ast.Compare) and len(t.ops) == 1 and isinstance(t.ops[0], (ast.Eq, ast.NotEq)):
        sides = [t.left, t.comparators[0]]
        for x, y in (sides, sides[::-1]):
            if isinstance(x, ast.Call) and au.call_tail(x) == "euler_characteristic" and len(x.args) == 1 \
                    and au.src(x.args[0]) == "self.mesh" and au.const(y) == 1:
                return isinstance(t.ops[0], ast.Eq)
    return None


def _gate_flow(ctx, fn, depth=0, observe=None):
    b = sym.Bindings(fn)
    cls = ctx.repo.cls(TUT, CLS)

    def helper_gen(call):
        if depth >= 2 or not (isinstance(call.func, ast.Attribute) and au.is_self_attr(call.func)):
            return False
        for st in cls.body:
            if isinstance(st, ast.FunctionDef) and st.name == call.func.attr:
                f = _gate_flow(ctx, st, depth + 1)
                falls = [s for k, n, s in f.exits if k in ("fall", "return")]
                return bool(falls) and all("disk" in s for s in falls)
        return False

    def gen_kill(node):
        g = set()
        if isinstance(node, ast.Expr) and isinstance(node.value, ast.Call) and helper_gen(node.value):
            g.add("disk")
        return g, set()

    def refine(state, test, branch):
        # conjunctions: `if a and gate` true branch ; `if a or not-gate` false branch
        parts = [test]
        if isinstance(test, ast.BoolOp):
            if (isinstance(test.op, ast.And) and branch) or (isinstance(test.op, ast.Or) and not branch):
                parts = test.values
            else:
                parts = []
        for t in parts:
            p = _gate_polarity(t, b, t)
            if p is not None and p == branch:
                state = state | {"disk"}
        return state

    return H.must_flow(fn.body, gen_kill, refine=refine, observe=observe)


def g1_gate(ctx):
    fn = ctx.repo.func(TUT, f"{CLS}.run")
    site = ctx.site(TUT, fn)
    fl = H.Floor(ctx, "C17-G1")
    sinks = []

    def observe(state, node):
        kinds = []
        for c in au.calls(node):
            t = au.call_tail(c)
            if t in ("spsolve", "solve", "factorized", "splu"):
                kinds.append(("linear solve", c))
            if t == "_initialize_boundary":
                kinds.append(("boundary initialisation", c))
        if isinstance(node, (ast.Assign, ast.AugAssign, ast.AnnAssign)):
            for t in au.assign_targets(node):
                for x in ast.walk(t):
                    if au.is_self_attr(x, "uvs"):
                        kinds.append(("store into self.uvs", node))
                        break
        for k, n in kinds:
            sinks.append((k, n, "disk" in state))

    _gate_flow(ctx, fn, observe=observe)
    if not [s for s in sinks if s[0] == "linear solve"]:
        ctx.fail("C17-G1", site, "run: linear solve not found", "the gate must dominate the solve; no spsolve / solve call is left in run()")
        return
    for kind, node, ok in sinks:
        ctx.check(ok, "C17-G1", ctx.site(TUT, fn, node), f"run: {kind} not dominated by the test euler_characteristic(self.mesh) == 1",
                  "a surface that is not a topological disk (sphere, annulus, two components) must be rejected before any coordinates are computed",
                  note=f"{kind} dominated by the Euler-characteristic gate")
    fl.require(4)


# ------------------------------------------------------------------ C17-Q1
def _mode_branch(fn, mode_param, which):
    """body of the if/elif branch `boundary_mode == <...>.which`"""
    for st in au.stmts(fn.body):
        if isinstance(st, ast.If):
            t = st.test
            if isinstance(t, ast.Compare) and len(t.ops) == 1 and isinstance(t.ops[0], (ast.Eq, ast.Is)):
                sides = [t.left, t.comparators[0]]
                if any(H.is_name(x, mode_param) for x in sides) and any(
                        isinstance(x, ast.Attribute) and x.attr == which for x in sides):
                    return st
    return None


def _range_of(it):
    """(start expr, stop expr) of a range(...) call, step 1 only"""
    if isinstance(it, ast.Call) and au.call_tail(it) == "range" and not it.keywords:
        if len(it.args) == 1:
            return ast.Constant(value=0), it.args[0]
        if len(it.args) == 2:
            return it.args[0], it.args[1]
    return None


def q1_square(ctx):
    fn = ctx.repo.func(TUT, f"{CLS}._initialize_boundary")
    site = ctx.site(TUT, fn)
    fl = H.Floor(ctx, "C17-Q1")
    ps = au.params(fn, skip_self=True)
    mode = ps[0] if ps else None
    br = _mode_branch(fn, mode, "SQUARE")
    if br is None:
        ctx.fail("C17-Q1", site, "_initialize_boundary: branch for BoundaryMode.SQUARE not found", "")
        return
    b = sym.Bindings(fn)
    # names of the two coordinate arrays: the value returned at the end of the function
    rets = [r for r in fn.body if isinstance(r, ast.Return)]
    if not (rets and isinstance(rets[-1].value, ast.Tuple) and len(rets[-1].value.elts) == 2
            and all(isinstance(x, ast.Name) for x in rets[-1].value.elts)):
        ctx.fail("C17-Q1", site, "_initialize_boundary: final `return U, V` not found", "")
        return
    U, V = (x.id for x in rets[-1].value.elts)
    # n
    nname = None
    for st in fn.body:
        if isinstance(st, ast.Assign) and len(st.targets) == 1 and isinstance(st.targets[0], ast.Name) \
                and au.src(st.value) == "len(self.mesh.boundary_vertices)":
            nname = st.targets[0].id
    zeros = (b.resolve(ast.Name(id=U, ctx=ast.Load()), at=br, keep=(nname,)),
             b.resolve(ast.Name(id=V, ctx=ast.Load()), at=br, keep=(nname,)))
    ok_zero = nname is not None and all(isinstance(z, ast.Call) and au.call_tail(z) == "zeros" and z.args
                                        and H.is_name(z.args[0], nname) for z in zeros)
    ctx.check(ok_zero, "C17-Q1", site, "_initialize_boundary: U, V are not np.zeros(n) with n = len(self.mesh.boundary_vertices)",
              "coordinates that are not stored explicitly are taken to be 0 (sides V = 0 and U = 0 of the square)",
              note="U, V start as zeros(n), n = number of border vertices")
    if not ok_zero:
        return

    def lit_list(e, at):
        r = b.resolve(e, at=at, keep=(nname,))
        return r if isinstance(r, (ast.List, ast.Tuple)) else None

    def index_expr(e, at):
        """resolve `corners[k]` to the k-th element of the literal list"""
        class T(ast.NodeTransformer):
            def visit_Subscript(self, node):
                self.generic_visit(node)
                if isinstance(node.value, ast.Name) and isinstance(au.const(node.slice), int):
                    l = lit_list(node.value, at)
                    if l is not None and -len(l.elts) <= au.const(node.slice) < len(l.elts):
                        return l.elts[au.const(node.slice)]
                return node
        import copy
        return T().visit(copy.deepcopy(e))

    # corners: direct stores of the branch body
    corners = {}   # repr(poly(index)) -> {"U": Poly, "V": Poly, "idx": Poly}
    for st, tgt, val in H.subscript_stores([s for s in br.body if not isinstance(s, (ast.For, ast.While))],
                                           lambda x: H.is_name(x, U) or H.is_name(x, V)):
        if val is None:
            continue
        idx = H.poly(index_expr(tgt.slice, st))
        c = corners.setdefault(repr(idx), {"idx": idx})
        c[tgt.value.id] = H.poly(b.resolve(val, at=st, keep=(nname,)))
    for c in corners.values():
        c.setdefault(U, sym.Poly())
        c.setdefault(V, sym.Poly())
    npoly = sym.Poly.atom(nname)
    if len(corners) != 4:
        ctx.fail("C17-Q1", ctx.site(TUT, fn, br), f"square target: {len(corners)} corner position(s) stored instead of 4", "")
        return
    ctx.ok("C17-Q1", ctx.site(TUT, fn, br), "square target: 4 corner stores")
    pos_set = {(repr(c[U]), repr(c[V])) for c in corners.values()}
    ctx.check(pos_set == {("0", "0"), ("1", "0"), ("1", "1"), ("0", "1")}, "C17-Q1", ctx.site(TUT, fn, br),
              "square target: the four corners are not placed at (0,0), (1,0), (1,1), (0,1)",
              f"found {sorted(pos_set)}", note="corners at the four vertices of the unit square")
    sides = [s for s in br.body if isinstance(s, ast.For)]
    if len(sides) != 4:
        ctx.fail("C17-Q1", ctx.site(TUT, fn, br), f"square target: {len(sides)} side loop(s) instead of 4", "")
        return
    inv_atoms = lambda p: {a for a in p.atoms() if a.startswith("1/(")}
    starts = {}
    for lp in sides:
        lsite = ctx.site(TUT, fn, lp)
        # header
        first, cnt_first, rng = {}, None, None
        it, t = lp.iter, lp.target
        if isinstance(t, ast.Name) and _range_of(it):
            rng = _range_of(it)
            first[t.id] = H.poly(b.resolve(rng[0], at=lp, keep=(nname,)))
            loopvars = [t.id]
        elif isinstance(t, ast.Tuple) and len(t.elts) == 2 and all(isinstance(x, ast.Name) for x in t.elts) \
                and isinstance(it, ast.Call) and au.call_tail(it) == "enumerate" and it.args and _range_of(it.args[0]):
            rng = _range_of(it.args[0])
            start = it.args[1] if len(it.args) > 1 else None
            for kw in it.keywords:
                if kw.arg == "start":
                    start = kw.value
            first[t.elts[0].id] = H.poly(b.resolve(start, at=lp, keep=(nname,))) if start is not None else sym.Poly()
            first[t.elts[1].id] = H.poly(b.resolve(rng[0], at=lp, keep=(nname,)))
            loopvars = [t.elts[0].id, t.elts[1].id]
        else:
            ctx.fail("C17-Q1", lsite, "square target: side loop is not `for i in range(a, b)` / `for i, v in enumerate(range(a, b))`",
                     f"cannot read the parametrisation of `{au.src(lp.iter)}`")
            continue
        sts = H.subscript_stores(lp.body, lambda x: H.is_name(x, U) or H.is_name(x, V))
        if not sts:
            ctx.fail("C17-Q1", lsite, "square target: side loop stores no coordinate", "")
            continue
        idx_first = None
        pos_first = {U: sym.Poly(), V: sym.Poly()}
        pos_sym = {U: sym.Poly(), V: sym.Poly()}
        consistent = True
        for st, tgt, val in sts:
            if val is None:
                consistent = False
                continue
            k = H.poly(b.resolve(tgt.slice, at=st, keep=tuple(loopvars) + (nname,)), env=first)
            if idx_first is None:
                idx_first = k
            elif not (k == idx_first):
                consistent = False
            rv = b.resolve(val, at=st, keep=tuple(loopvars) + (nname,))
            pos_first[tgt.value.id] = H.poly(rv, env=first)
            pos_sym[tgt.value.id] = H.poly(rv)
        if not consistent or idx_first is None:
            ctx.fail("C17-Q1", lsite, "square target: side loop stores U and V at different indices", "")
            continue
        # which corner precedes
        prev = [c for c in corners.values() if (idx_first - 1) == c["idx"]]
        lo = H.poly(b.resolve(rng[0], at=lp, keep=(nname,)))
        hi = H.poly(b.resolve(rng[1], at=lp, keep=(nname,)))
        nxt = [c for c in corners.values() if hi == c["idx"]]
        if not prev:
            ctx.fail("C17-Q1", lsite, "square target: a side loop does not start right after a corner",
                     f"`{au.src(lp.iter)}` starts at index {idx_first!r}: the vertex following a corner would keep the default position (0,0) or be placed twice")
            continue
        pc = prev[0]
        label = f"side after corner ({pc[U]!r},{pc[V]!r})"
        zero = [c for c in corners.values() if c["idx"].is_zero()]
        end_c = nxt[0] if nxt else (zero[0] if (hi == npoly and zero) else None)
        starts[repr(pc["idx"])] = repr(end_c["idx"]) if end_c is not None else None
        ends_ok = end_c is not None and end_c is not pc
        ctx.check(ends_ok and lo == pc["idx"] + 1, "C17-Q1", lsite, f"square target, {label}: the loop does not run up to the next corner",
                  f"range is [{lo!r}, {hi!r}); vertices left out keep position (0,0) and coincide with the first corner",
                  note=f"{label}: covers the indices up to the next corner")
        # (1) first vertex differs from the corner
        same = H.approx_eq(pos_first[U], pc[U]) and H.approx_eq(pos_first[V], pc[V])
        ctx.check(not same, "C17-Q1", lsite, f"square target, {label}: the first vertex of the side is given the position of the corner",
                  f"the loop counter starts at {', '.join(f'{k}={v!r}' for k, v in first.items())}, so the vertex after the corner gets "
                  f"({pos_first[U]!r}, {pos_first[V]!r}) = the corner: two border vertices coincide, the triangles between them are degenerate",
                  note=f"{label}: first vertex at ({pos_first[U]!r}, {pos_first[V]!r}) != corner")
        # (2) position depends on the loop counter
        dep = any(pos_sym[w].degree_in(x) > 0 for w in (U, V) for x in loopvars)
        ctx.check(dep, "C17-Q1", lsite, f"square target, {label}: the position does not depend on the loop counter",
                  "all vertices of the side would coincide", note=f"{label}: position varies with the counter")
        # (3) first vertex is next to the corner for large n
        dU, dV = pos_first[U] - pc[U], pos_first[V] - pc[V]
        ats = (dU.atoms() | dV.atoms())
        if ats <= inv_atoms(dU) | inv_atoms(dV):
            env0 = {a: 0 for a in ats}
            near = abs(float(dU.eval(env0))) < 1e-9 and abs(float(dV.eval(env0))) < 1e-9
            ctx.check(near, "C17-Q1", lsite, f"square target, {label}: the side does not leave from that corner",
                      f"first vertex at ({pos_first[U]!r}, {pos_first[V]!r}) stays at distance O(1) of the corner ({pc[U]!r},{pc[V]!r}) for every n: "
                      "border order around the square is broken", note=f"{label}: leaves from its corner")
    chain_ok = len(starts) == 4 and sorted(starts) == sorted(v for v in starts.values() if v is not None)
    ctx.check(chain_ok, "C17-Q1", ctx.site(TUT, fn, br), "square target: the four sides do not join the four corners into one cycle",
              f"side start -> end corner indices: {starts}; every corner must be left by one side and reached by one side "
              "(index n wraps to corner 0)", note="sides chain the four corners cyclically")
    fl.require(12)


# ------------------------------------------------------------------ C17-B1
def system_facts(ctx, facts):
    """free / border index names and the solution -> boundary pairing, from the solves of run()"""
    fn, b = facts["fn"], facts["b"]
    out = []
    def one(e, at):
        """one resolution step for a bare name (keeps the index-list names visible)"""
        if isinstance(e, ast.Name):
            d = b.reaching(e.id, at)
            return d if d is not None else e
        return e

    for name, M, rhs, st in facts["solves"]:
        mv = H.matvec(one(rhs, st))
        LI = H.block_parts(one(M, st))
        LB = H.block_parts(one(mv[1], st)) if mv else None
        out.append({"name": name, "stmt": st, "sign": mv[0] if mv else None, "x": mv[2] if mv else None, "LI": LI, "LB": LB})
    return out


def b1_border(ctx, facts):
    fn, b = facts["fn"], facts["b"]
    site = ctx.site(TUT, fn)
    fl = H.Floor(ctx, "C17-B1")
    if facts["init_call"] is None:
        ctx.fail("C17-B1", site, "run: `Ubnd, Vbnd = self._initialize_boundary(...)` not found", "")
        return
    c = facts["init_call"]
    ctx.check(len(c.args) == 1 and au.is_self_attr(c.args[0], "_bnd_mode") and not c.keywords, "C17-B1", ctx.site(TUT, fn, c),
              "run: the boundary is not initialised for self._bnd_mode",
              "the mode that selects the border order must be the one that shapes the boundary", note="boundary initialised for self._bnd_mode")
    sysf = system_facts(ctx, facts)
    bnames = {au.src(s["LB"][2]) for s in sysf if s["LB"] is not None and isinstance(s["LB"][2], ast.Name)}
    if len(bnames) != 1:
        ctx.fail("C17-B1", site, "run: border index list (columns of L[free,:][:,border]) not found", f"candidates: {sorted(bnames)}")
        return
    B = bnames.pop()
    facts["B"] = B
    defs = [st for st in au.stmts(fn.body) if any(B in au.assigned_names(t) for t in au.assign_targets(st))]

    def atom(x, boolean):
        if isinstance(x, ast.Compare) and len(x.ops) == 1 and isinstance(x.ops[0], (ast.Eq, ast.NotEq, ast.Is, ast.IsNot)):
            sides = [x.left, x.comparators[0]]
            if any(au.is_self_attr(s, "_bnd_mode") for s in sides) and any(isinstance(s, ast.Attribute) and s.attr == "CUSTOM" for s in sides):
                n = H.name("custom")
                return n if isinstance(x.ops[0], (ast.Eq, ast.Is)) else ast.UnaryOp(op=ast.Not(), operand=n)
        return None
    n_cycle = 0
    for st in defs:
        v = st.value if isinstance(st, ast.Assign) else None
        from_cycle = False
        if isinstance(st, ast.Assign) and len(st.targets) == 1:
            t = st.targets[0]
            call = v
            if isinstance(v, ast.Subscript) and au.const(v.slice) == 0:
                call = v.value
                first = H.is_name(t, B)
            else:
                first = isinstance(t, (ast.Tuple, ast.List)) and len(t.elts) == 2 and H.is_name(t.elts[0], B)
            if isinstance(call, ast.Call) and au.call_tail(call) == "extract_border_cycle" and first \
                    and call.args and au.src(call.args[0]) == "self.mesh":
                from_cycle = True
        if from_cycle:
            n_cycle += 1
            ctx.ok("C17-B1", ctx.site(TUT, fn, st), "border order = first result of extract_border_cycle(self.mesh)")
            continue
        ab = H.Abstractor(atom)
        code = ab.boolean(H.conj([(t, p) for t, p, _ in H.path_condition(st, stop=fn)]))
        wit, n = H.compare(ast.BoolOp(op=ast.And(), values=[code, ast.UnaryOp(op=ast.Not(), operand=H.name("custom"))]), "False")
        ctx.check(wit is None, "C17-B1", ctx.site(TUT, fn, st),
                  "run: the border index list is not taken from extract_border_cycle although the target is not custom",
                  f"`{B}` = `{au.src(v) if v is not None else '?'}`: circle and square positions are assigned along the border: the k-th position must go to the k-th vertex of the border cycle, "
                  "not to the k-th border vertex in index order",
                  note="unsorted border list only for the custom target")
    ctx.check(n_cycle >= 1, "C17-B1", site, "run: border order is never taken from extract_border_cycle(self.mesh)",
              "border vertices must be placed on the convex shape in border order", note="extract_border_cycle provides the order")
    # ---- circle
    ib = ctx.repo.func(TUT, f"{CLS}._initialize_boundary")
    ps = au.params(ib, skip_self=True)
    br = _mode_branch(ib, ps[0] if ps else None, "CIRCLE")
    isite = ctx.site(TUT, ib)
    if br is None:
        ctx.fail("C17-B1", isite, "_initialize_boundary: branch for BoundaryMode.CIRCLE not found", "")
        return
    bb = sym.Bindings(ib)
    rets = [r for r in ib.body if isinstance(r, ast.Return)]
    if not (rets and isinstance(rets[-1].value, ast.Tuple) and len(rets[-1].value.elts) == 2
            and all(isinstance(x, ast.Name) for x in rets[-1].value.elts)):
        ctx.fail("C17-B1", isite, "_initialize_boundary: final `return U, V` not found", "")
        return
    U, V = (x.id for x in rets[-1].value.elts)
    loops = [s for s in br.body if isinstance(s, ast.For)]
    if len(loops) != 1 or not isinstance(loops[0].target, ast.Name):
        ctx.fail("C17-B1", ctx.site(TUT, ib, br), "circle target: single loop over the border positions not found", "")
        return
    lp = loops[0]
    i = lp.target.id
    rng = _range_of(lp.iter)
    nexpr = bb.resolve(rng[1], at=lp) if rng else None
    ok_rng = rng is not None and au.const(rng[0]) == 0 and au.src(nexpr) == "len(self.mesh.boundary_vertices)"
    ctx.check(ok_rng, "C17-B1", ctx.site(TUT, ib, lp), "circle target: the loop is not `for i in range(len(self.mesh.boundary_vertices))`",
              f"every border vertex needs a position; found `{au.src(lp.iter)}`", note="circle: i in range(n), n = number of border vertices")
    parts = {}
    for st, tgt, val in H.subscript_stores(lp.body, lambda x: H.is_name(x, U) or H.is_name(x, V)):
        if val is None or not H.is_name(tgt.slice, i):
            parts[tgt.value.id] = ("?", None, None)
            continue
        r = bb.resolve(val, at=st, keep=(i,))
        if isinstance(r, ast.Attribute) and r.attr in ("real", "imag") and isinstance(r.value, ast.Call) \
                and au.call_tail(r.value) == "rect" and len(r.value.args) == 2:
            parts[tgt.value.id] = (r.attr, r.value.args[0], r.value.args[1])
        elif isinstance(r, ast.Call) and au.call_tail(r) in ("cos", "sin") and len(r.args) == 1:
            parts[tgt.value.id] = ({"cos": "real", "sin": "imag"}[au.call_tail(r)], ast.Constant(value=1.0), r.args[0])
        else:
            parts[tgt.value.id] = ("?", None, None)
    ok_parts = set(parts) == {U, V} and {parts[U][0], parts[V][0]} == {"real", "imag"} \
        and au.same(parts[U][2], parts[V][2]) and au.same(parts[U][1], parts[V][1])
    ctx.check(ok_parts, "C17-B1", ctx.site(TUT, ib, lp), "circle target: (U[i], V[i]) is not (real, imaginary) part of one point rect(r, angle)",
              "found " + str({k: v[0] for k, v in parts.items()}),
              note="circle: U, V = real, imag of rect(r, angle)")
    if ok_parts:
        # the angle, with n resolved
        ang_r = H.poly(bb.resolve(parts[U][2], at=lp, keep=(i,)))
        inv = "1/(<len(self.mesh.boundary_vertices)>)"
        want = sym.Poly({tuple(sorted((i, inv))): Fraction(2 * math.pi).limit_denominator(10 ** 9)})
        varying = sym.Poly({k: v for k, v in ang_r.t.items() if i in k})
        ok_ang = H.approx_eq(varying, want, 1e-6) or H.approx_eq(varying, -want, 1e-6)
        rad = order.fold_const(parts[U][1])
        ctx.check(ok_ang and rad is not None and rad > 0, "C17-B1", ctx.site(TUT, ib, lp),
                  "circle target: the angle of vertex i is not 2*pi*i/n (radius a positive constant)",
                  f"found angle `{au.src(parts[U][2])}` = {ang_r!r}: the n border vertices must be spread once around the circle at distinct positions",
                  note="circle: angle = 2*pi*i/n")
    fl.require(6)


# ------------------------------------------------------------------ C17-H1
def h1_system(ctx, facts):
    fn, b = facts["fn"], facts["b"]
    site = ctx.site(TUT, fn)
    fl = H.Floor(ctx, "C17-H1")
    sysf = system_facts(ctx, facts)
    if len(sysf) != 2:
        ctx.fail("C17-H1", site, f"run: {len(sysf)} linear solve(s) instead of one per coordinate", "")
        return
    frees, bnds, mats = set(), set(), set()
    for s in sysf:
        ssite = ctx.site(TUT, fn, s["stmt"])
        if s["LI"] is None or s["LB"] is None or s["sign"] is None:
            ctx.fail("C17-H1", ssite, f"run: solve for `{s['name']}` is not spsolve(L[free,:][:,free], -L[free,:][:,border].dot(x_border))", "")
            continue
        M1, r1, c1 = s["LI"]
        M2, r2, c2 = s["LB"]
        ok = au.same(M1, M2) and au.same(r1, c1) and au.same(r1, r2) and not au.same(c2, r1)
        ctx.check(ok, "C17-H1", ssite, f"run: the system for `{s['name']}` does not use one free/border partition of one matrix",
                  f"rows/cols: L_II = [{au.src(r1)}, {au.src(c1)}], L_IB = [{au.src(r2)}, {au.src(c2)}]: every interior vertex must be the weighted "
                  "average of its neighbours, interior or border", note=f"{s['name']}: L[free,free], L[free,border]")
        ctx.check(s["sign"] == -1, "C17-H1", ssite, f"run: right-hand side for `{s['name']}` is not minus L[free,border] x_border",
                  "L_II u + L_IB u_B = 0; with the wrong sign the interior is mirrored through the origin and triangles near the border flip",
                  note=f"{s['name']}: rhs = -L_IB x_B")
        frees.add(au.src(r1)); bnds.add(au.src(c2)); mats.add(au.src(M1))
    if len(frees) == 1 and len(bnds) == 1 and len(mats) == 1:
        F = frees.pop()
        facts["F"] = F
        fdef = b.resolve(ast.Name(id=F, ctx=ast.Load()), at=sysf[0]["stmt"])
        ctx.check(au.src(fdef) == "self.mesh.interior_vertices", "C17-H1", site, "run: the free index list is not self.mesh.interior_vertices",
                  f"found `{au.src(fdef)}`", note="free = interior vertices")
        lap = b.resolve(ast.parse(mats.pop(), mode="eval").body, at=sysf[0]["stmt"])
        ok_lap = isinstance(lap, ast.Call) and au.call_tail(lap) == "laplacian" and lap.args and au.src(lap.args[0]) == "self.mesh" \
            and len(lap.args) <= 2 and not any(k.arg in ("connection", "order") for k in lap.keywords)
        cot = None
        if ok_lap:
            cot = lap.args[1] if len(lap.args) == 2 else next((k.value for k in lap.keywords if k.arg == "cotan"), None)
        ctx.check(ok_lap and cot is not None and au.is_self_attr(cot, "_use_cotan"), "C17-H1", site,
                  "run: the matrix is not operators.laplacian(self.mesh, cotan=self._use_cotan) (scalar, no connection)",
                  "uniform weights unless cotangent weights are requested; a connection Laplacian is complex", note="scalar Laplacian, cotan=self._use_cotan")
    else:
        ctx.fail("C17-H1", site, "run: the two coordinate systems use different partitions / matrices",
                 f"free {sorted(frees)}, border {sorted(bnds)}, matrix {sorted(mats)}")
    fl.require(6)


# ------------------------------------------------------------------ C17-S1
def _branch_stores(body, uvs="uvs"):
    """[(iter source, kind, first comp array, second comp array, ok index)] of the enumerate loops of one branch"""
    out = []
    for lp in body:
        if not isinstance(lp, ast.For):
            continue
        if not (isinstance(lp.iter, ast.Call) and au.call_tail(lp.iter) == "enumerate" and len(lp.iter.args) == 1 and not lp.iter.keywords
                and isinstance(lp.target, ast.Tuple) and len(lp.target.elts) == 2 and all(isinstance(x, ast.Name) for x in lp.target.elts)):
            out.append((au.src(lp.iter), "?", None, None, lp))
            continue
        i, v = lp.target.elts[0].id, lp.target.elts[1].id
        for st, tgt, val in H.subscript_stores(lp.body, lambda x: au.is_self_attr(x, uvs)):
            kind = "?"
            if H.is_name(tgt.slice, v) and st in lp.body:
                kind = "vertex"
            elif isinstance(tgt.slice, ast.Name):
                inner = [l for l in H.loop_ancestors(st, stop=lp) if isinstance(l, ast.For)]
                if len(inner) == 1 and H.is_name(inner[0].target, tgt.slice.id) and isinstance(inner[0].iter, ast.Call) \
                        and au.call_tail(inner[0].iter) == "vertex_to_corners" and len(inner[0].iter.args) == 1 \
                        and H.is_name(inner[0].iter.args[0], v) and not H.path_condition(st, stop=lp):
                    kind = "corner"
            a = bname = None
            if isinstance(val, ast.Call) and au.call_tail(val) == "Vec" and len(val.args) == 2:
                xs = val.args
                if all(isinstance(x, ast.Subscript) and isinstance(x.value, ast.Name) and H.is_name(x.slice, i) for x in xs):
                    a, bname = xs[0].value.id, xs[1].value.id
            out.append((au.src(lp.iter.args[0]), kind, a, bname, st))
    return out


def s1_siblings(ctx, facts):
    fn, b = facts["fn"], facts["b"]
    site = ctx.site(TUT, fn)
    fl = H.Floor(ctx, "C17-S1")
    br = None
    for st in fn.body:
        if isinstance(st, ast.If) and st.orelse:
            t = st.test
            neg = False
            if isinstance(t, ast.UnaryOp) and isinstance(t.op, ast.Not):
                t, neg = t.operand, True
            if au.is_self_attr(t, "save_on_corners"):
                br = (st, neg)
    if br is None:
        ctx.fail("C17-S1", site, "run: if/else on self.save_on_corners not found", "")
        return
    st, neg = br
    cor, ver = (st.orelse, st.body) if neg else (st.body, st.orelse)
    sysf = system_facts(ctx, facts)
    sol = {s["name"]: (au.src(s["x"]) if s["x"] is not None else None) for s in sysf}   # U -> Ubnd
    F, B = facts.get("F"), facts.get("B")
    ub, vb = facts["ubnd"], facts["vbnd"]
    usol = [k for k, x in sol.items() if x == ub]
    vsol = [k for k, x in sol.items() if x == vb]
    if not (len(usol) == 1 and len(vsol) == 1 and F and B):
        ctx.fail("C17-S1", site, "run: solutions for the two boundary coordinates not identified",
                 f"solves: {sol}, boundary coordinates: ({ub}, {vb})")
        return
    want = {(F, usol[0], vsol[0]), (B, ub, vb)}
    for body, kind in ((cor, "corner"), (ver, "vertex")):
        got = _branch_stores(body)
        bad_kind = [g for g in got if g[1] != kind]
        gs = {(g[0], g[2], g[3]) for g in got}
        anchor = body[0] if body else st
        ctx.check(not bad_kind and bool(got), "C17-S1", ctx.site(TUT, fn, anchor),
                  f"run, per-{kind} branch: a store into self.uvs is not keyed by " + ("every corner of the enumerated vertex" if kind == "corner" else "the enumerated vertex"),
                  "the coordinates of vertex v must reach " + ("all corners vertex_to_corners(v)" if kind == "corner" else "uvs[v]"),
                  note=f"per-{kind} branch keyed by {kind}")
        ctx.check(gs == want, "C17-S1", ctx.site(TUT, fn, anchor),
                  f"run, per-{kind} branch: stored values are not (U[i], V[i]) over enumerate(free) and (Ubnd[i], Vbnd[i]) over enumerate(border)",
                  f"expected {sorted(want)}, found {sorted((a, str(x), str(y)) for a, x, y in gs)}: position i of each solution vector belongs to the i-th "
                  "vertex of the list that indexed the matrix block; the two storage modes must agree",
                  note=f"per-{kind} branch stores {sorted(want)}")
        # attribute container
        crea = [s2 for s2 in body if isinstance(s2, ast.Assign) and any(au.is_self_attr(t, "uvs") for t in s2.targets)]
        cont = "self.mesh.face_corners" if kind == "corner" else "self.mesh.vertices"
        okc = len(crea) == 1 and isinstance(crea[0].value, ast.Call) and au.call_tail(crea[0].value) == "create_attribute" \
            and au.src(crea[0].value.func.value) == cont and len(crea[0].value.args) >= 3 and au.const(crea[0].value.args[2]) == 2
        ctx.check(okc, "C17-S1", ctx.site(TUT, fn, anchor), f"run, per-{kind} branch: self.uvs is not a 2-component attribute on {cont}",
                  "", note=f"per-{kind} branch: attribute on {cont}")
    # ---- flat_mesh
    fm = ctx.repo.func(BASE, "BaseParametrization.flat_mesh")
    fsite = ctx.site(BASE, fm)
    ifs = [s for s in au.stmts(fm.body) if isinstance(s, ast.If) and s.orelse and
           (au.is_self_attr(s.test, "save_on_corners") or (isinstance(s.test, ast.UnaryOp) and au.is_self_attr(s.test.operand, "save_on_corners")))]
    if len(ifs) != 1:
        ctx.fail("C17-S1", fsite, "flat_mesh: if/else on self.save_on_corners not found", "")
        return
    s0 = ifs[0]
    neg = isinstance(s0.test, ast.UnaryOp)
    cor, ver = (s0.orelse, s0.body) if neg else (s0.body, s0.orelse)
    loops = [l for l in H.loop_ancestors(s0, stop=fm) if isinstance(l, ast.For)]
    ok_loops = len(loops) == 2 and isinstance(loops[1].target, ast.Name) and au.src(loops[1].iter) in ("self.mesh.id_faces", "range(len(self.mesh.faces))") \
        and isinstance(loops[0].target, ast.Tuple) and isinstance(loops[0].iter, ast.Call) and au.call_tail(loops[0].iter) == "enumerate" \
        and len(loops[0].iter.args) == 1 and not loops[0].iter.keywords \
        and au.src(loops[0].iter.args[0]) == f"self.mesh.faces[{au.src(loops[1].target)}]"
    if not ok_loops:
        ctx.fail("C17-S1", fsite, "flat_mesh: loop nest `for T in id_faces: for i, v in enumerate(faces[T])` not found", "")
        return
    T = loops[1].target.id
    i, v = (x.id for x in loops[0].target.elts)

    def key_of(body):
        for s in body:
            if isinstance(s, ast.Assign) and len(s.targets) == 1 and isinstance(s.targets[0], ast.Subscript) \
                    and au.src(s.targets[0].value) == "self._flat_mesh.vertices" and H.is_name(s.targets[0].slice, v) \
                    and isinstance(s.value, ast.Call) and au.call_tail(s.value) == "Vec" and len(s.value.args) >= 2:
                ks = []
                for comp, a in enumerate(s.value.args[:2]):
                    if isinstance(a, ast.Subscript) and au.const(a.slice) == comp and isinstance(a.value, ast.Subscript) \
                            and au.is_self_attr(a.value.value, "uvs"):
                        ks.append(a.value.slice)
                if len(ks) == 2 and au.same(ks[0], ks[1]):
                    return ks[0]
        return None
    kc, kv = key_of(cor), key_of(ver)
    okc = kc is not None and H.poly(kc) == sym.Poly.atom(T).scale(3) + sym.Poly.atom(i)
    ctx.check(okc, "C17-S1", ctx.site(BASE, fm, s0), "flat_mesh: per-corner coordinates of vertex i of triangle T are not read at corner 3*T+i, components 0 and 1",
              f"found key `{au.src(kc) if kc is not None else None}`", note="flat_mesh: corner key 3*T+i")
    ctx.check(kv is not None and H.is_name(kv, v), "C17-S1", ctx.site(BASE, fm, s0),
              "flat_mesh: per-vertex coordinates are not read at uvs[v], components 0 and 1",
              f"found key `{au.src(kv) if kv is not None else None}`", note="flat_mesh: vertex key v")
    fl.require(8)


# ------------------------------------------------------------------ C17-W1
BORD = "processing.border"


def w1_border_walk(ctx):
    fn = ctx.repo.func(BORD, "extract_border_cycle")
    H.check_walk_orientation(ctx, "C17-W1", BORD, fn)
    H.check_sort_contract(ctx, "C17-W1")


# ------------------------------------------------------------------ C17-L1
LAPM = "operators.laplacian_op"


def l1_weights(ctx):
    fn = ctx.repo.func(LAPM, "laplacian")
    site = ctx.site(LAPM, fn)
    ps = au.params(fn)
    if "cotan" not in ps:
        ctx.fail("C17-L1", site, "laplacian: parameter `cotan` not found", "uniform weights must remain selectable")
        return
    # the cotangent container: names assigned from cotangent(...) / get_attribute("cotan")
    def is_cot_source(v):
        return isinstance(v, ast.Call) and (au.call_tail(v) == "cotangent" or
                                            (au.call_tail(v) == "get_attribute" and v.args and au.const(v.args[0]) == "cotan"))
    cot_names = {n for st in au.stmts(fn.body) if isinstance(st, ast.Assign) and is_cot_source(st.value)
                 for t in st.targets for n in au.assigned_names(t)}
    if len(cot_names) != 1:
        ctx.fail("C17-L1", site, "laplacian: container of the cotangent weights not found", f"candidates {sorted(cot_names)}")
        return
    cot = cot_names.pop()
    assigns = [st for st in au.stmts(fn.body) if isinstance(st, ast.Assign) and any(H.is_name(t, cot) for t in st.targets)]

    def atom(x, boolean):
        if H.is_name(x, "cotan") and boolean:
            return H.name("cotan")
        if isinstance(x, ast.Call) and au.call_tail(x) == "has_attribute" and x.args and au.const(x.args[0]) == "cotan":
            return H.name("cached")
        if isinstance(x, ast.Compare) and len(x.ops) == 1 and H.is_name(x.left, cot) and isinstance(x.comparators[0], ast.Constant) \
                and x.comparators[0].value is None and isinstance(x.ops[0], (ast.Is, ast.IsNot)):
            nn = nonnull_formula()
            return nn if isinstance(x.ops[0], ast.IsNot) else ast.UnaryOp(op=ast.Not(), operand=nn)
        return None

    def pc(node):
        ab = H.Abstractor(atom)
        code = ab.boolean(H.conj([(t, p) for t, p, _ in H.path_condition(node, stop=fn)]))
        return code, ab.unknown

    _nn = []

    def nonnull_formula():
        """`cot is not None` after the (loop-free) prefix: fold of the assignments in source order"""
        if _nn:
            return _nn[0]
        state = ast.Constant(value=False)
        for st in assigns:
            if H.loop_ancestors(st, stop=fn):
                continue
            code, unk = pc(st)
            nonnull = not (isinstance(st.value, ast.Constant) and st.value.value is None)
            a = ast.BoolOp(op=ast.And(), values=[code, ast.Constant(value=nonnull)])
            bb = ast.BoolOp(op=ast.And(), values=[ast.UnaryOp(op=ast.Not(), operand=code), state])
            state = ast.BoolOp(op=ast.Or(), values=[a, bb])
        _nn.append(state)
        return state

    # uses of the cotangent values in the assembly: cot[...] reads inside loops
    uses = [n for n in au.walk(fn) if isinstance(n, ast.Subscript) and H.is_name(n.value, cot) and isinstance(n.ctx, ast.Load)]
    stmts = []
    for u in uses:
        st = au.enclosing_stmt(u)
        if all(st is not x for x in stmts):
            stmts.append(st)
    if not stmts:
        ctx.fail("C17-L1", site, "laplacian: no read of the cotangent weights in the assembly", "cotangent weights must be used when requested")
        return
    for st in stmts:
        code, unk = pc(st)
        # expression-level guards (cot[...] if cotan else 0.5)
        try:
            wit, n = (H.compare(code, "cotan") if not unk else ({"unrecognised": unk}, 0))
        except order.Unsupported as ex:
            wit, n = {"unsupported": str(ex)}, 0
        ctx.check(wit is None, "C17-L1", ctx.site(LAPM, fn, st),
                  "laplacian: the cotangent weights are not used exactly when `cotan` is true",
                  f"condition of `{au.src(st)[:80]}` is `{au.src(code)}`; differs from `cotan` for {H.fmt_env(wit) if isinstance(wit, dict) else wit} "
                  "(cached = the mesh already carries a 'cotan' attribute): TutteEmbedding(use_cotan=False) must use uniform weights, "
                  "which are the ones for which the embedding is always fold-free",
                  note=f"cot[...] read iff cotan ({n} assignments)")
    # the cotangent container is built whenever cotan is requested
    code_nn = nonnull_formula()
    try:
        wit, n = H.compare(ast.BoolOp(op=ast.Or(), values=[ast.UnaryOp(op=ast.Not(), operand=H.name("cotan")), code_nn]), "True")
    except order.Unsupported as ex:
        wit, n = {"unsupported": str(ex)}, 0
    ctx.check(wit is None, "C17-L1", site, "laplacian: the cotangent container may be unset although `cotan` is true",
              f"for {H.fmt_env(wit) if isinstance(wit, dict) else wit}", note="cot built whenever cotan is requested")
