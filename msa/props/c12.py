"""C12 - geometric primitives and boxes obey their algebra, with no side effects."""
from __future__ import annotations
import ast
from .. import au
from ..core import AnalysisError
from ..rules import alias
from ..rules import hh_laws as L
from ..rules.hh_np import Unknown, Raised

MODS = ["geometry.geometry", "geometry.rotations", "geometry.aabb", "geometry.vector", "utils.maths"]
AABB = "geometry.aabb"
GEO = "geometry.geometry"
ROT = "geometry.rotations"
VEC = "geometry.vector"
MATHS = "utils.maths"

EXPLANATION = (
    "Two kinds of static analysis of the primitive modules (geometry.py, aabb.py, rotations.py, vector.py, utils/maths.py). "
    "(1) Finite-model evaluation: the syntax tree of each primitive is evaluated by the checker's own evaluator (msa/rules/hh_eval.py, a "
    "value model of python scalars and numpy arrays incl. views, dtypes and the error configuration - mouette is never imported or run) "
    "on a finite table of literal inputs that realises every ordering of the operands the law distinguishes (corners / query point for the "
    "box predicates and the box algebra, sign classes, an angle grid, integer and float vectors), and the result is compared with the law "
    "of the property; during every evaluated call the arrays handed in and numpy's error configuration are watched. A disagreement is "
    "reported with the input that shows it; a construct outside the modelled subset leaves the obligation undecided. "
    "(2) Flow analyses over all functions of the modules: every np.seterr that changes the configuration is restored on all exits; "
    "may-alias analysis (branches merged, loops iterated, helper functions summarised): no function writes into a parameter or a view of "
    "one, no method updates in place a field that holds a view of a constructor argument.")

RULES = {
    "C12-E1": "numpy's floating-point error configuration is restored on every exit of a function that changes it (saved value re-installed in "
              "a finally clause) or np.errstate is used; evaluated: the configuration after Vec.normalized / cotan / face_basis / "
              "rotate_around_axis equals the one before, on return and when the call raises",
    "C12-A1": "no function of the primitive modules writes into a parameter other than its receiver, nor into a view of one (may-alias data "
              "flow incl. helper summaries); evaluated: the arrays handed to the primitives are unchanged after the call",
    "C12-A2": "a field that holds a view of a constructor argument is never updated in place by a method; the result of a binary box "
              "operation is a new box (padding it leaves the operands unchanged)",
    "C12-O1": "contains_point is lo <= pt < hi component-wise, do_intersect is `overlap extent >= 0 on every axis` (all orderings of the corners, "
              "dimensions 1-3), sign / sign0 are the documented piecewise constants, principal_angle / angle_diff are congruent modulo 2*pi "
              "and land in [-pi, pi], roots(c, n) raised to n give back the (unit) input",
    "C12-R1": "rotations. EXACT clauses (symbolic evaluation, msa/rules/hh_sym.py: the function is evaluated once on a symbolic input vector, an angle "
              "whose cosine / sine are atoms C, S and a unit axis (U, V, W); the matrix of the map is read off the returned polynomials and decided on "
              "normal forms modulo C^2 + S^2 = 1 and U^2 + V^2 + W^2 = 1, for ALL angles, axes and input vectors on the generic branch): rotate_2d has "
              "the matrix [[C, -S], [S, C]]; rotate_around_axis satisfies R^T R = I, det R = 1, R axis = axis and R = Rodrigues' matrix (hence "
              "trace 1 + 2C, the sense of rotation, and additivity of angles about a fixed axis); cos / sin of the half angle are read too (everything "
              "is then expressed in the half-angle atoms). When the function has a shape the symbolic "
              "evaluation cannot read (non-polynomial steps, external libraries) the exact clause alone is undecided. TABLE-BASED clauses (finite-model "
              "evaluation on sampled angles / axes / vectors, a witness input is reported): agreement of rotate_2d / rotate_around_axis with the "
              "reference rotation on float AND integer-typed vectors and non-unit axes (dtype truncation, normalisation of the axis), the early-return "
              "branch (angle 0), the axis is fixed, two successive rotations add their angles, axis_rot_from_z maps the z axis onto its argument "
              "(no exact clause: it goes through atan2 and a normalisation)",
    "C12-X1": "closed-form primitives of geometry.py and vector.py: cross / det_2x2 / det_3x3 against exact integer arithmetic, norms, areas, "
              "three-point angles in [0, pi] and symmetric, signed angles antisymmetric, cotan = 1 / tan(angle), right-handed orthonormal face_basis, "
              "equidistant circumcenter, aspect ratio, line / segment / plane helpers",
    "C12-B1": "box algebra on every ordering of the corners: intersection = (max of minima, min of maxima), union = (min of minima, max of maxima), "
              "project = clamp into the closed box, distance = norm (l2 / l1 / linf) of the excess max(lo - p, p - hi, 0), of_points / of_mesh tight, "
              "pad, span, center, unit_cube, infinite",
}

SCALAR_ANN = {"float", "int", "bool", "str", "complex"}

#: (rule, module, anchor function, what the law says [construct text of a finding], consequence, law)
LAWS = [
    ("C12-O1", AABB, "AABB.contains_point", "contains_point is not lo <= pt < hi component-wise",
     "documented convention: inclusive at the minimum corner, exclusive at the maximum corner", L.law_contains_point),
    ("C12-O1", AABB, "AABB.do_intersect", "do_intersect is not `the componentwise overlap has a non-negative extent in every dimension`",
     "two boxes intersect exactly when max(minima) <= min(maxima) on every axis (touching boxes intersect)", L.law_binary("do_intersect")),
    ("C12-B1", AABB, "AABB.intersection", "intersection is not (max of the two minima, min of the two maxima)",
     "the intersection is the componentwise overlap of the operands", L.law_binary("intersection")),
    ("C12-B1", AABB, "AABB.union", "union is not (min of the two minima, max of the two maxima)",
     "the union must contain both operands and be the smallest such box", L.law_binary("union")),
    ("C12-B1", AABB, "AABB.intersection", "the operator & is not the intersection", "b1 & b2 is documented as AABB.intersection(b1, b2)",
     L.law_binary("intersection", "__and__")),
    ("C12-B1", AABB, "AABB.union", "the operator | is not the union", "b1 | b2 is documented as AABB.union(b1, b2)", L.law_binary("union", "__or__")),
    ("C12-A2", AABB, "AABB.union", "union returns a box that shares its state with an operand",
     "no function changes a box other than the one it is documented to modify: pad() on the result must leave the operands alone",
     L.law_result_is_new_box("union")),
    ("C12-A2", AABB, "AABB.intersection", "intersection returns a box that shares its state with an operand",
     "no function changes a box other than the one it is documented to modify: pad() on the result must leave the operands alone",
     L.law_result_is_new_box("intersection")),
    ("C12-B1", AABB, "AABB.project", "project is not the clamp max(mini, min(maxi, pt))", "the projection of a point must lie in the closed box and be its closest point",
     L.law_project),
    ("C12-B1", AABB, "AABB.distance", "distance is not the norm of max(mini - pt, pt - maxi, 0)",
     "a contained point is at distance zero and the distance is realised by the projection, in each norm", L.law_distance),
    ("C12-B1", AABB, "AABB.contains_point", "contains_point / distance / of_points do not accept a point (set) given as a plain list",
     "arguments go through Vec(...) / np.array(...): any iterable is a valid input", L.law_iterables),
    ("C12-B1", AABB, "AABB.pad", "pad does not move the two corners outwards by max(pad, 0), or changes another box",
     "pad enlarges the box it is called on and nothing else (the constructor keeps views of the caller's arrays)", L.law_pad),
    ("C12-B1", AABB, "AABB.of_points", "of_points is not AABB(min(points, axis=0) - pad, max(points, axis=0) + pad)", "the box of a point set must be tight",
     L.law_of_points),
    ("C12-B1", AABB, "AABB.of_mesh", "of_mesh is not the tight box of the vertices (+/- padding)", "the box of a point set must be tight", L.law_of_mesh),
    ("C12-B1", AABB, "AABB.span", "mini / maxi / dim / span / center / unit_cube / infinite are not the documented values", "", L.law_accessors),
    ("C12-O1", GEO, "sign", "sign(x) is not the documented piecewise constant", "-1 / 0 / 1", L.law_sign("sign", lambda x: (x > 0) - (x < 0))),
    ("C12-O1", GEO, "sign0", "sign0(x) is not the documented piecewise constant", "1 for x >= 0, -1 otherwise", L.law_sign("sign0", lambda x: 1 if x >= 0 else -1)),
    ("C12-O1", MATHS, "principal_angle", "principal_angle is not congruent to its argument modulo 2*pi inside [-pi, pi]",
     "angle reduction must be congruent modulo 2*pi and land in [-pi, pi]", L.law_principal_angle),
    ("C12-O1", MATHS, "angle_diff", "angle_diff is not congruent to a - b modulo 2*pi inside [-pi, pi]",
     "angle reduction must be congruent modulo 2*pi and land in [-pi, pi]", L.law_angle_diff),
    ("C12-O1", MATHS, "roots", "roots(c, n) are not the n distinct n-th roots of the (unit) input", "n-th roots raised to n give back the unit input", L.law_roots),
    ("C12-X1", MATHS, "solve_quadratic", "solve_quadratic does not return the real roots of A x^2 + B x + C", "", L.law_quadratic),
    ("C12-X1", GEO, "cross", "cross: components are not (A1*B2-A2*B1, A2*B0-A0*B2, A0*B1-A1*B0)",
     "every normal, area and angle of the library goes through this cross product", L.law_cross),
    ("C12-X1", GEO, "det_2x2", "det_2x2: the result is not A.x*B.y - A.y*B.x for array and complex arguments", "", L.law_det2),
    ("C12-X1", GEO, "det_3x3", "det_3x3: the result is not the 3x3 determinant for a matrix / three columns", "", L.law_det3),
    ("C12-X1", GEO, "norm", "norm / dot / distance / Vec.norm / Vec.dot are not the documented l2, l1, linf norms and dot product", "", L.law_norms),
    ("C12-X1", VEC, "Vec.normalized", "Vec construction, accessors, normalized / normalize are not the documented values", "", L.law_vec),
    ("C12-X1", GEO, "angle_3pts", "angle_3pts: not the angle at the middle point, in [0, pi], symmetric in the end points",
     "corner angles are defined at the middle argument", L.law_angle_3pts),
    ("C12-X1", GEO, "cotan", "cotan: not the cotangent of the angle at the middle point", "cotangent is the reciprocal tangent of the angle", L.law_cotan),
    ("C12-X1", GEO, "signed_angle_2vec3D", "signed_angle_2vec3D / signed_angle_3pts / angle_2vec3D: not sign((V1 x V2).N) * atan2(|V1 x V2|, V1.V2)",
     "signed angles are antisymmetric, their absolute value is the unsigned angle", L.law_signed_angle),
    ("C12-X1", GEO, "angle_2vec2D", "angle_2vec2D: not the oriented angle from the first to the second vector (modulo 2*pi)", "", L.law_angle_2d),
    ("C12-X1", GEO, "face_basis", "face_basis: not the right-handed frame X = AB/|AB|, Z = X x AC normalised, Y = Z x X",
     "local face coordinates assume cross(X, Y) = Z = the face normal", L.law_face_basis),
    ("C12-X1", GEO, "triangle_area", "triangle_area / triangle_area_2D / quad_area are not the areas", "", L.law_areas),
    ("C12-X1", GEO, "circumcenter", "circumcenter: not equidistant from the three points in their plane", "circumcentres are equidistant", L.law_circumcenter),
    ("C12-X1", GEO, "aspect_ratio", "aspect_ratio: not circumradius / (2 inradius)", "", L.law_aspect_ratio),
    ("C12-X1", GEO, "intersect_2lines2D", "intersect_2lines2D / distance_to_segment2D / project_to_plane are not the documented constructions", "", L.law_lines),
    ("C12-R1", ROT, "rotate_2d", "rotate_2d is not the rotation matrix [[cos, -sin], [sin, cos]] applied to its argument",
     "rotations are isometries and compose additively, for every input vector (integer coordinates included)", L.law_rotate_2d),
    ("C12-R1", ROT, "rotate_around_axis", "rotate_around_axis is not Rodrigues' rotation of (unit axis, angle) applied to its argument",
     "rotations are isometries fixing their axis and composing additively, for every input vector (integer coordinates included)", L.law_rotate_axis),
    ("C12-R1", ROT, "axis_rot_from_z", "axis_rot_from_z is not the rotation vector that maps the z axis onto its argument", "", L.law_axis_rot_from_z),
    ("C12-E1", VEC, "Vec.normalized", "numpy's error configuration differs after a call of Vec.normalized / cotan / face_basis / rotate_around_axis",
     "the configuration found on entry must be re-installed whether the call returns or raises", L.law_errstate),
]


#: exact (symbolic) clauses: (rule, module, anchor function, construct text of a finding, clause evaluator)
EXACT = [
    ("C12-R1", ROT, "rotate_2d", "rotate_2d: exact clause - the matrix of the map is not [[cos, -sin], [sin, cos]] identically", L.exact_rotate_2d),
    ("C12-R1", ROT, "rotate_around_axis", "rotate_around_axis: exact clause - the matrix of the map is not the rotation of (unit axis, angle) identically",
     L.exact_rotate_axis),
]


def run(ctx):
    fr = alias.Freshness(ctx.repo)
    ma = alias.MayAlias(ctx.repo, fr)
    e1_seterr(ctx)
    a1_param_immutability(ctx, ma)
    a2_borrowed_fields(ctx, ma)
    evaluate_laws(ctx)
    evaluate_exact(ctx)


def evaluate_exact(ctx):
    strict = {"mouette." + m for m in MODS}
    for rule, modname, qual, construct, clause in EXACT:
        fn = ctx.repo.func(modname, qual)
        site = ctx.site(modname, fn)
        verdict, text = clause(L.T(ctx.repo, strict))
        if verdict == "ok":
            ctx.ok(rule, site, f"{qual}: exact clause - {text}")
        elif verdict == "fail":
            ctx.fail(rule, site, construct, "decided on the polynomials the function returns for a symbolic input (all angles / axes / vectors on the "
                                            "generic branch), modulo cos^2 + sin^2 = 1 and |axis| = 1: " + text)
        else:
            ctx.undecided(rule, site, f"{qual}: the exact clause cannot be read (the table-based clauses of the rule are decided separately)", text)


# ---------------------------------------------------------------------------- evaluated laws
def evaluate_laws(ctx, laws=None):
    strict = {"mouette." + m for m in MODS}
    for rule, modname, qual, construct, what, law in (laws or LAWS):
        fn = ctx.repo.func(modname, qual)          # a vanished public primitive: AnalysisError
        site = ctx.site(modname, fn)
        t = L.T(ctx.repo, strict)
        try:
            witness = law(t)
        except Unknown as ex:
            ctx.undecided(rule, site, f"{qual}: the law cannot be evaluated ({construct})", f"construct outside the evaluated subset: {ex}")
            witness = "undecided"
        except Raised as ex:
            ctx.undecided(rule, site, f"{qual}: the evaluation raises on an input of the table ({construct})", f"{ex}")
            witness = "undecided"
        except Exception as ex:  # noqa  (a defect of the evaluator or a value of an unexpected type: never an alarm, never a crash)
            ctx.undecided(rule, site, f"{qual}: the law cannot be evaluated ({construct})", f"evaluator gave up: {type(ex).__name__}: {ex}")
            witness = "undecided"
        if witness is None:
            ctx.ok(rule, site, f"{qual}: {RULES[rule][:60]}... holds on the whole input table ({t.it.steps} evaluation steps)")
        elif witness != "undecided":
            ctx.fail(rule, site, construct, (what + "; " if what else "") + "witness: " + witness)
        seen = set()
        for eff in t.effects:
            if eff[0] == "mutation":
                _, name, label, detail = eff
                key = (name, label)
                if key in seen:
                    continue
                seen.add(key)
                ctx.fail("C12-A1", site, f"{name or qual} changes {label}",
                         f"evaluated on the input table: {detail}; no function may change the arrays passed to it "
                         f"(Vec(x), np.asarray(x) and basic slices are views of x)")
            elif eff[0] == "errstate" and rule != "C12-E1":
                _, name, when, detail = eff
                key = (name, "err")
                if key in seen:
                    continue
                seen.add(key)
                ctx.fail("C12-E1", site, f"{name or qual} leaves numpy's error configuration changed",
                         f"evaluated on the input table ({when}): {detail}")


# ---------------------------------------------------------------------------- E1
def _is_seterr(c):
    return au.call_tail(c) == "seterr"


def _is_query(c):
    return not c.args and not c.keywords


def _restored_name(c):
    """`np.seterr(**saved)` -> source of `saved`; `np.seterr(divide=s['divide'], over=s['over'], under=..., invalid=...)` -> source of s"""
    for k in c.keywords:
        if k.arg is None:
            return au.src(k.value)
    keys = {}
    for k in c.keywords:
        if isinstance(k.value, ast.Subscript) and isinstance(k.value.slice, ast.Constant) and k.value.slice.value == k.arg:
            keys[k.arg] = au.src(k.value.value)
    if set(keys) >= {"divide", "over", "under", "invalid"} and len(set(keys.values())) == 1:
        return next(iter(keys.values()))
    if c.args and len(c.args) == 1 and isinstance(c.args[0], ast.Name) and False:
        return None
    return None


def _saved_names(fn):
    """names / self attributes bound to the previous configuration: x = np.seterr(...), x = np.geterr(), (x := np.seterr(...))"""
    out = {}
    for n in au.walk(fn):
        if isinstance(n, ast.Assign) and isinstance(n.value, ast.Call) and au.call_tail(n.value) in ("seterr", "geterr"):
            for t in n.targets:
                if isinstance(t, (ast.Name, ast.Attribute)):
                    out[au.src(t)] = n
        if isinstance(n, ast.NamedExpr) and isinstance(n.value, ast.Call) and au.call_tail(n.value) in ("seterr", "geterr"):
            out[n.target.id] = n
    return out


def _finally_restores(tr, saved):
    for c in au.calls(tr.finalbody):
        if _is_seterr(c) and _restored_name(c) in saved:
            return True
    return False


def _handler_restores_and_reraises(tr, saved):
    """try: ... except <everything>: restore; raise  (followed by a restore on the normal path, checked by the caller)"""
    for h in tr.handlers:
        catches_all = h.type is None or au.src(h.type) in ("BaseException", "Exception")
        if not catches_all:
            continue
        has_restore = any(_is_seterr(c) and _restored_name(c) in saved for c in au.calls(h.body))
        reraises = bool(h.body) and isinstance(h.body[-1], ast.Raise) and h.body[-1].exc is None
        if has_restore and reraises:
            return True
    return False


def _trivial(st):
    if isinstance(st, ast.Pass):
        return True
    if isinstance(st, ast.Expr) and isinstance(st.value, ast.Constant):
        return True
    if isinstance(st, (ast.Assign, ast.AnnAssign)) and isinstance(getattr(st, "value", None), (ast.Constant, ast.Name)) \
            and all(isinstance(t, ast.Name) for t in au.assign_targets(st)):
        return True
    return False


def seterr_verdicts(fn, cls=None):
    """[(call node, 'ok' | 'fail' | 'undecided', why)] for the np.seterr calls of fn that change the configuration"""
    out = []
    calls = [c for c in au.calls(fn) if _is_seterr(c) and not _is_query(c)]
    if not calls:
        return out
    saved = _saved_names(fn)
    tries = [n for n in au.walk(fn) if isinstance(n, ast.Try)]
    any_restoring_try = any(any(_is_seterr(c) for c in au.calls(t.finalbody + [s for h in t.handlers for s in h.body])) for t in tries)
    for c in calls:
        st = au.enclosing_stmt(c)
        restored = _restored_name(c)
        anc = list(au.ancestors(c))
        in_finally = any(isinstance(a, ast.Try) and any(st is s for s in au.stmts(a.finalbody)) for a in anc)
        in_handler = any(isinstance(a, ast.ExceptHandler) for a in anc)
        if restored is not None and restored in saved:
            # a restore of a saved configuration: never a leak by itself
            continue
        if restored is not None:
            # re-installs something that is not a configuration saved in this function (a parameter: restore helper)
            if restored in au.params(fn) or restored.split(".")[0] in ("self",):
                continue
            out.append((c, "undecided", f"np.seterr(**{restored}) re-installs a configuration of unknown origin"))
            continue
        if in_finally or in_handler:
            out.append((c, "fail", "the restore does not re-install the saved configuration (np.seterr(**saved)): the configuration found on entry "
                                   "is replaced by a fixed one"))
            continue
        # ---- a call that changes the configuration
        ok = False
        # (a) inside the body of a try whose finally restores a configuration saved before
        for a in anc:
            if isinstance(a, ast.Try) and any(st is s for s in au.stmts(a.body)) and a.finalbody and _finally_restores(a, saved):
                ok = True
        # (b) followed (trivial statements apart) by a try whose finally restores
        blk, owner = au.enclosing_block(st)
        if not ok and blk:
            idx = [id(x) for x in blk].index(id(st))
            j = idx + 1
            while j < len(blk) and _trivial(blk[j]):
                j += 1
            nxt = blk[j] if j < len(blk) else None
            if isinstance(nxt, ast.Try):
                if nxt.finalbody and _finally_restores(nxt, saved):
                    ok = True
                elif _handler_restores_and_reraises(nxt, saved):
                    rest = blk[j + 1:] + list(nxt.orelse)
                    k = 0
                    while k < len(rest) and _trivial(rest[k]):
                        k += 1
                    if k < len(rest) and any(_is_seterr(x) and _restored_name(x) in saved for x in au.calls(rest[k])):
                        ok = True
        # (c) the previous configuration is handed to the caller (helper that switches the mode; its callers are checked)
        if not ok and isinstance(st, ast.Return) and st.value is c:
            ok = True
        # (d) __enter__ of a context manager whose __exit__ restores the saved field
        if not ok and cls is not None and fn.name == "__enter__" and isinstance(st, ast.Assign) and au.is_self_attr(st.targets[0]):
            ex = next((m for m in cls.body if isinstance(m, ast.FunctionDef) and m.name == "__exit__"), None)
            if ex is not None and any(_is_seterr(x) and _restored_name(x) == au.src(st.targets[0]) for x in au.calls(ex)):
                ok = True
        if ok:
            out.append((c, "ok", "saved and restored on every exit"))
        elif any_restoring_try:
            out.append((c, "undecided", "np.seterr is followed by a try statement that restores something, in a layout the rule does not understand"))
        else:
            out.append((c, "fail", "np.seterr changes the process-wide error configuration and is not restored on every exit "
                                   "(previous value not saved / no try-finally)"))
    return out


FIXTURE_E1 = """
def normalized(vec):
    np.seterr(all='raise')
    out = vec / norm(vec)
    np.seterr(all='warn')
    return out
def fine(vec):
    old = np.seterr(all='raise')
    try:
        return vec / norm(vec)
    finally:
        np.seterr(**old)
def skipped(vec):
    old = np.seterr(all='raise')
    out = vec / norm(vec)
    np.seterr(**old)
    return out
"""


def _parented(src):
    tree = ast.parse(src)
    for n in ast.walk(tree):
        for c in ast.iter_child_nodes(n):
            c._parent = n
    return tree


def e1_seterr(ctx):
    repo = ctx.repo
    fx = _parented(FIXTURE_E1).body
    got = [[v for _, v, _ in seterr_verdicts(f)] for f in fx]
    if got != [["fail", "fail"], ["ok"], ["fail"]]:
        raise AnalysisError(f"C12-E1 fixture: the seterr matcher gives {got} on the built-in examples")
    mods = MODS if ctx.tier == "quick" else sorted(m[len("mouette."):] for m in repo.modules if m != "mouette")
    nfun = 0
    for modname in mods:
        mod = repo.module(modname)
        owner = {}
        for cq, cls in mod.classes.items():
            for m in cls.body:
                if isinstance(m, ast.FunctionDef):
                    owner[id(m)] = cls
        for q, fn in sorted(mod.funcs.items()):
            nfun += 1
            verdicts = seterr_verdicts(fn, owner.get(id(fn)))
            if not verdicts:
                continue
            site = ctx.site(mod.name, fn)
            bad = [v for v in verdicts if v[1] == "fail"]
            und = [v for v in verdicts if v[1] == "undecided"]
            if bad:
                node, _, why = bad[0]
                ctx.fail("C12-E1", ctx.site(mod.name, fn, node), f"{q}: np.seterr is not restored on all exits",
                         why + "; on an exit that skips the restore (the guarded operation raises, or no restore at all) the changed "
                               "mode stays installed for the rest of the process")
            elif und:
                ctx.undecided("C12-E1", ctx.site(mod.name, fn, und[0][0]), f"{q}: np.seterr with a restore the rule cannot follow", und[0][2])
            else:
                ctx.ok("C12-E1", site, f"{len(verdicts)} np.seterr call(s) that change the configuration, saved and restored in finally")
    ctx.ok("C12-E1", ctx.site(VEC, repo.func(VEC, "Vec.normalized")), f"{nfun} functions scanned for np.seterr; built-in fixtures matched")


# ---------------------------------------------------------------------------- A1
def _array_like_param(fn, name):
    for a in fn.args.posonlyargs + fn.args.args + fn.args.kwonlyargs:
        if a.arg == name:
            if a.annotation is not None:
                s = au.src(a.annotation)
                if s in SCALAR_ANN:
                    return False
                if any(k in s for k in ("Vec", "ndarray", "list", "Iterable", "Sequence", "array")):
                    return True
    for n in au.walk(fn):
        if isinstance(n, (ast.Subscript, ast.Attribute)) and isinstance(n.value, ast.Name) and n.value.id == name:
            return True
    return False


def _optional_buffer(fn, name):
    """a parameter whose default is None and which the function tests against None: an optional output / working buffer the caller
    opts into - writing into it is its documented purpose"""
    a = fn.args
    pos = a.posonlyargs + a.args
    defaults = dict(zip([p.arg for p in pos[len(pos) - len(a.defaults):]], a.defaults))
    defaults.update({p.arg: d for p, d in zip(a.kwonlyargs, a.kw_defaults) if d is not None})
    d = defaults.get(name)
    if not (isinstance(d, ast.Constant) and d.value is None):
        return False
    for n in au.walk(fn):
        if isinstance(n, ast.Compare) and isinstance(n.left, ast.Name) and n.left.id == name and len(n.ops) == 1 \
                and isinstance(n.ops[0], (ast.Is, ast.IsNot)) and isinstance(n.comparators[0], ast.Constant) and n.comparators[0].value is None:
            return True
    return False


def _is_private(q, fn):
    return "<locals>" in q or (fn.name.startswith("_") and not (fn.name.startswith("__") and fn.name.endswith("__")))


def param_mutations(ma, mod, cls, fn):
    """[(node, param, how)] writes into parameters (or views of them) in fn; the receiver, *args / **kwargs and optional buffers apart"""
    ps = [x.arg for x in fn.args.posonlyargs + fn.args.args + fn.args.kwonlyargs]
    decos = {au.src(d) for d in fn.decorator_list}
    if ps and ps[0] in ("self", "cls") and "staticmethod" not in decos:
        ps = ps[1:]
    ps = [p for p in ps if not _optional_buffer(fn, p)]
    if not ps:
        return []
    a = alias.Analysis(ma, mod, cls, fn, {p: frozenset({(p, alias.WHOLE)}) for p in ps}).run()
    found = []
    for s in a.sinks:
        if s.how[0] == "aug-name" and not _array_like_param(fn, s.root):
            continue
        found.append((s.node, s.root, s.how[1]))
    return found


FIXTURE_A1 = """
def f(pt, box, k: float, pts, buf=None, **kw):
    p = Vec(pt)
    p[0] = 0.
    q = np.array(pt)
    q[0] = 1.
    box.maxi += 1
    k += 1
    n = pt.size
    n += 1
    if k:
        r = pt.copy()
    else:
        r = np.zeros(3)
    r[0] = 2
    for row in pts:
        row[0] = 0
    if buf is None:
        buf = np.zeros(3)
    buf[0] = 1
    kw.pop("x")
    pt = pt.copy()
    pt[1] = 2
"""


def a1_param_immutability(ctx, ma):
    repo = ctx.repo
    fx = _parented(FIXTURE_A1).body[0]
    got = sorted((p, getattr(node, "lineno", 0)) for node, p, how in param_mutations(ma, repo.module(GEO), None, fx))
    if got != [("box", 7), ("pt", 4), ("pts", 17)]:
        raise AnalysisError(f"C12-A1 fixture: matcher found {got}, expected the three planted mutations only")
    n = 0
    for modname in MODS:
        mod = repo.module(modname)
        owner = {}
        for cq, cls in mod.classes.items():
            for m in cls.body:
                if isinstance(m, ast.FunctionDef):
                    owner[id(m)] = cls
        for q, fn in sorted(mod.funcs.items()):
            if any(isinstance(d, ast.Attribute) and d.attr == "setter" for d in fn.decorator_list):
                continue  # a property setter is documented to modify its receiver only; value param is read
            n += 1
            site = ctx.site(mod.name, fn)
            if _is_private(q, fn):
                # a private helper may fill a buffer its callers allocate: its writes are charged to the public functions that hand it
                # one of their own parameters (helper summaries of the may-alias analysis)
                ctx.ok("C12-A1", site, "private helper: writes are followed into its callers")
                continue
            muts = param_mutations(ma, mod, owner.get(id(fn)), fn)
            if not muts:
                ctx.ok("C12-A1", site, "no parameter (or view of one) is written")
            seen = set()
            for node, p, how in muts:
                if p in seen:
                    continue
                seen.add(p)
                ctx.fail("C12-A1", ctx.site(mod.name, fn, node), f"{q} mutates its argument `{p}`",
                         f"{how}: no function may change the arrays passed to it (Vec(x), np.asarray(x) and basic slices are views)")
    if n < 40:
        raise AnalysisError(f"C12-A1: only {n} functions found in the primitive modules")


# ---------------------------------------------------------------------------- A2
def a2_borrowed_fields(ctx, ma):
    repo = ctx.repo
    n_cls = 0
    for modname in MODS:
        mod = repo.module(modname)
        for cq, cls in sorted(mod.classes.items()):
            init = next((st for st in cls.body if isinstance(st, ast.FunctionDef) and st.name == "__init__"), None)
            if init is None:
                continue
            n_cls += 1
            ps = au.params(init, skip_self=True)
            a = alias.Analysis(ma, mod, cls, init, {p: frozenset({(p, alias.WHOLE)}) for p in ps})
            borrowed = {}

            # fields bound to a view of a constructor argument on some path of __init__
            class Rec(alias.Analysis):
                def stmt(self, s, st):
                    if isinstance(s, (ast.Assign, ast.AnnAssign)) and getattr(s, "value", None) is not None:
                        for t in au.assign_targets(s):
                            if au.is_self_attr(t) and any(k == alias.WHOLE for _, k in self.aliases(s.value, st)):
                                borrowed[t.attr] = s
                    return alias.Analysis.stmt(self, s, st)
            Rec(ma, mod, cls, init, a.init).run()
            if not borrowed:
                ctx.ok("C12-A2", ctx.site(mod.name, init), f"{cq}.__init__ keeps no view of its arguments")
                continue
            props = {}
            for m in cls.body:
                if isinstance(m, ast.FunctionDef) and any(au.src(d) == "property" for d in m.decorator_list):
                    rets = [s for s in au.stmts(m.body) if isinstance(s, ast.Return)]
                    if len(rets) == 1 and au.is_self_attr(rets[0].value) and rets[0].value.attr in borrowed:
                        props[m.name] = rets[0].value.attr
            hits = {}
            for fn in [st for st in cls.body if isinstance(st, ast.FunctionDef) and st.name != "__init__"]:
                decos = {au.src(d) for d in fn.decorator_list}
                if "staticmethod" in decos or "classmethod" in decos or not au.params(fn) or au.params(fn)[0] != "self":
                    continue
                an = alias.Analysis(ma, mod, cls, fn, {}, field_roots={f: "self." + f for f in borrowed}, props=props).run()
                for s in an.sinks:
                    f = s.root[len("self."):]
                    if s.root.startswith("self.") and f in borrowed and f not in hits:
                        hits[f] = (fn, s)
            for f in sorted(borrowed):
                if f in hits:
                    fn, s = hits[f]
                    ctx.fail("C12-A2", ctx.site(mod.name, fn, s.node),
                             f"{cq}.{fn.name} updates self.{f} in place while {cq}.__init__ stores a view of its argument there",
                             f"`{au.src(borrowed[f])}` keeps a view (Vec(x) does not copy): {s.how[1]} changes the caller's "
                             f"array and every other box built from the same corner array (the k-d tree shares corners between "
                             f"parent and child boxes)")
                else:
                    ctx.ok("C12-A2", ctx.site(mod.name, init), f"{cq}.{f} borrows a constructor argument and is never mutated in place")
    ctx.ok("C12-A2", ctx.site(AABB, repo.func(AABB, "AABB.__init__")), f"{n_cls} constructors examined")



# ----------------------------------------------------------------------- generic families (msa/rules/generic.py)
_run_specific = run


def run(ctx):
    _run_specific(ctx)
    from ..rules import generic
    generic.apply(ctx, "C12", stale_modules=())


def _generic_rule_texts():
    from ..rules import generic
    return generic.rule_texts("C12", stale=False)


RULES.update(_generic_rule_texts())
