"""C12 - geometric primitives and boxes obey their algebra, with no side effects (structural clauses)."""
from __future__ import annotations
import ast
from .. import au, sym, order
from ..core import AnalysisError
from ..rules import alias

MODS = ["geometry.geometry", "geometry.rotations", "geometry.aabb", "geometry.vector", "utils.maths"]
AABB = "geometry.aabb"
GEO = "geometry.geometry"

EXPLANATION = (
    "Static side-effect and predicate analysis of the primitive modules: every np.seterr is restored on all exits (or "
    "replaced by np.errstate); no function mutates a non-receiver parameter or an alias of one (ownership grammar with "
    "Vec(x) / np.asarray(x) / basic slices as views, flow-aware reaching definitions); a constructor that stores views of "
    "its arguments has no method that mutates those fields in place; interval / sign predicates agree with their "
    "specification under every ordering of their operands; min/max pairing of the box algebra. Structural necessary "
    "conditions only - the numerical identities are not decided.")

RULES = {
    "C12-E1": "numpy's floating-point error configuration is restored on every exit of a function that changes it (saved value in try/finally) or np.errstate is used",
    "C12-A1": "no function of the primitive modules mutates a parameter other than its receiver, nor an alias (view) of one",
    "C12-A2": "a field that holds a view of a constructor argument is never mutated in place by a method",
    "C12-O1": "contains_point is half-open, do_intersect closed on both sides, sign/sign0 piecewise constants, angle folding threshold pi",
    "C12-R1": "rotate_2d and rotate_around_axis are linear maps whose matrix, extracted from the source as polynomials in (cos, sin, axis), "
              "is orthogonal with determinant 1 and fixes the axis, identically modulo cos^2+sin^2=1 and |axis|=1 (a polynomial proof for all inputs)",
    "C12-X1": "closed-form primitives of geometry.py are the textbook polynomials / angle forms (cross, det_2x2, det_3x3, quad_area, "
              "aspect_ratio, triangle_area, angle primitives, right-handed face_basis) - rule shared with C07-X1, re-run here because the "
              "statement of C12 names these identities",
    "C12-B1": "box algebra: intersection = (max of minima, min of maxima), union = (min of minima, max of maxima), projection clamps, distance uses max(mini - p, p - maxi, 0)",
}

INPLACE_METHODS = {"sort", "fill", "normalize", "resize", "put", "itemset", "append", "extend", "clear", "pop", "remove",
                   "insert", "update", "reverse", "setflags", "partition", "byteswap"}
SCALAR_ANN = {"float", "int", "bool", "str", "complex"}


def run(ctx):
    fr = alias.Freshness(ctx.repo)
    e1_seterr(ctx)
    a1_param_immutability(ctx, fr)
    a2_borrowed_fields(ctx, fr)
    o1_predicates(ctx)
    b1_box_algebra(ctx)
    r1_rotation_matrices(ctx)
    x1_shared_primitives(ctx)


# ---------------------------------------------------------------------------- E1
def seterr_problems(fn):
    """[(node, why)] for np.seterr calls of fn that are not restored on all exits."""
    out = []
    calls = [c for c in au.calls(fn) if au.call_tail(c) == "seterr"]
    if not calls:
        return out, 0
    for c in calls:
        st = au.enclosing_stmt(c)
        # restore call: np.seterr(**saved) in a finalbody
        in_finally = any(isinstance(a, ast.Try) and any(st is s or any(st is x for x in au.stmts([s])) for s in a.finalbody)
                         for a in au.ancestors(c))
        if in_finally:
            if not (c.keywords and any(k.arg is None for k in c.keywords)):
                out.append((c, "the restore in `finally` does not re-install the saved configuration (np.seterr(**saved))"))
            continue
        # setting call: must save the old value and be followed by try/finally restoring it
        saved = None
        if isinstance(st, ast.Assign) and isinstance(st.targets[0], ast.Name) and st.value is c:
            saved = st.targets[0].id
        blk, _ = au.enclosing_block(st)
        ok = False
        if saved and blk:
            idx = [id(x) for x in blk].index(id(st))
            nxt = blk[idx + 1] if idx + 1 < len(blk) else None
            if isinstance(nxt, ast.Try) and nxt.finalbody:
                for c2 in au.calls(nxt.finalbody):
                    if au.call_tail(c2) == "seterr" and any(k.arg is None and au.src(k.value) == saved for k in c2.keywords):
                        ok = True
        if not ok:
            out.append((c, "np.seterr changes the process-wide error configuration and is not restored on every exit "
                           "(previous value not saved / no try-finally)"))
    return out, len(calls)


FIXTURE_E1 = """
def normalized(vec):
    np.seterr(all='raise')
    out = vec / norm(vec)
    np.seterr(all='warn')
    return out
"""


def e1_seterr(ctx):
    repo = ctx.repo
    fx = ast.parse(FIXTURE_E1).body[0]
    for n in ast.walk(fx):
        for c in ast.iter_child_nodes(n):
            c._parent = n
    probs, ncalls = seterr_problems(fx)
    if len(probs) != 2:
        raise AnalysisError("C12-E1 fixture: the seterr matcher did not fire on the built-in positive example")
    mods = MODS if ctx.tier == "quick" else sorted(m[len("mouette."):] for m in repo.modules if m != "mouette")
    nfun = 0
    for modname in mods:
        mod = repo.module(modname)
        for q, fn in sorted(mod.funcs.items()):
            nfun += 1
            probs, ncalls = seterr_problems(fn)
            site = ctx.site(mod.name, fn)
            if not ncalls:
                continue
            if not probs:
                ctx.ok("C12-E1", site, f"{ncalls} seterr call(s), saved and restored in finally")
            seen = False
            for node, why in probs:
                if seen:
                    continue
                seen = True
                ctx.fail("C12-E1", ctx.site(mod.name, fn, node), f"{q}: np.seterr is not restored on all exits",
                         why + "; on success the caller's configuration is replaced, and when the guarded operation raises, "
                               "'raise' stays installed for the rest of the process")
    ctx.ok("C12-E1", ctx.site("geometry.vector", repo.func("geometry.vector", "Vec.normalized")),
           f"{nfun} functions scanned for np.seterr; built-in positive fixture matched")


# ---------------------------------------------------------------------------- A1
def _array_like_param(fn, name):
    for a in fn.args.posonlyargs + fn.args.args + fn.args.kwonlyargs:
        if a.arg == name:
            if a.annotation is not None:
                s = au.src(a.annotation)
                if s in SCALAR_ANN:
                    return False
                if any(k in s for k in ("Vec", "ndarray", "list", "Iterable", "Sequence", "array")):
                    return True
    for n in au.walk(fn):
        if isinstance(n, (ast.Subscript, ast.Attribute)) and isinstance(n.value, ast.Name) and n.value.id == name:
            return True
    return False


def param_mutations(fn, fr, skip_first_self=True):
    """[(node, param, how)] mutations of parameters (or views of them) in fn."""
    ps = au.params(fn)
    recv = None
    if skip_first_self and ps and ps[0] in ("self", "cls"):
        recv, ps = ps[0], ps[1:]
    if not ps:
        return []
    b = sym.Bindings(fn)
    pset = set(ps)

    def roots(name, at, depth=0):
        """parameters whose storage `name` may share at node `at`."""
        if depth > 6:
            return set()
        d = b.reaching(name, at)
        if d is not None:
            dst = b._last_def_stmt
            out = set()
            for a in fr.aliases(d):
                out |= roots(a, dst, depth + 1) if a != name or True else set()
            return out
        if name in pset:
            # the parameter itself, unless it was definitely rebound (reaching() would have found it)
            return {name}
        return set()

    def target_roots(e, at):
        out = set()
        for a in fr.aliases(e):
            out |= roots(a, at)
        return out
    found = []
    for st in au.stmts(fn.body):
        if isinstance(st, ast.AugAssign):
            t = st.target
            if isinstance(t, ast.Name):
                r = roots(t.id, st)
                for p in r:
                    if _array_like_param(fn, p):
                        found.append((st, p, f"augmented assignment `{au.src(st)}` updates the array in place"))
            elif isinstance(t, (ast.Subscript, ast.Attribute)):
                for p in target_roots(t.value, st):
                    found.append((st, p, f"`{au.src(st)}` writes into the argument"))
        elif isinstance(st, (ast.Assign, ast.AnnAssign)):
            for t in au.assign_targets(st):
                for tt in ([t] if not isinstance(t, (ast.Tuple, ast.List)) else t.elts):
                    if isinstance(tt, (ast.Subscript, ast.Attribute)) and not (recv and au.is_self_attr(tt, recv=recv)):
                        for p in target_roots(tt.value, st):
                            found.append((st, p, f"`{au.src(tt)} = ...` writes into the argument"))
        for c in au.calls(st) if not isinstance(st, (ast.For, ast.While, ast.If, ast.Try, ast.With)) else []:
            if isinstance(c.func, ast.Attribute) and c.func.attr in INPLACE_METHODS:
                for p in target_roots(c.func.value, st):
                    found.append((c, p, f"in-place method `{au.src(c)}`"))
    return found


FIXTURE_A1 = """
def f(pt, box, k: float):
    p = Vec(pt)
    p[0] = 0.
    q = np.array(pt)
    q[0] = 1.
    box.maxi += 1
    k += 1
    pt = pt.copy()
    pt[1] = 2
"""


def a1_param_immutability(ctx, fr):
    repo = ctx.repo
    fx = ast.parse(FIXTURE_A1).body[0]
    for n in ast.walk(fx):
        for c in ast.iter_child_nodes(n):
            c._parent = n
    got = sorted((p, getattr(node, "lineno", 0)) for node, p, how in param_mutations(fx, fr))
    if got != [("box", 7), ("pt", 4)]:
        raise AnalysisError(f"C12-A1 fixture: matcher found {got}, expected the two planted mutations only")
    n = 0
    for modname in MODS:
        mod = repo.module(modname)
        for q, fn in sorted(mod.funcs.items()):
            if "<locals>" in q:
                continue
            if any(isinstance(d, ast.Attribute) and d.attr == "setter" for d in fn.decorator_list):
                continue  # a property setter is documented to modify its receiver only; value param is read
            n += 1
            muts = param_mutations(fn, fr)
            site = ctx.site(mod.name, fn)
            if not muts:
                ctx.ok("C12-A1", site, "no parameter (or view of one) is written")
            seen = set()
            for node, p, how in muts:
                if p in seen:
                    continue
                seen.add(p)
                ctx.fail("C12-A1", ctx.site(mod.name, fn, node), f"{q} mutates its argument `{p}`",
                         f"{how}: no function may change the arrays passed to it (Vec(x), np.asarray(x) and basic slices are views)")
    ctx.require_count("C12-A1 functions", n, 60)


# ---------------------------------------------------------------------------- A2
def a2_borrowed_fields(ctx, fr):
    repo = ctx.repo
    n_cls = 0
    for modname in MODS:
        mod = repo.module(modname)
        for cq, cls in sorted(mod.classes.items()):
            init = next((st for st in cls.body if isinstance(st, ast.FunctionDef) and st.name == "__init__"), None)
            if init is None:
                continue
            ps = set(au.params(init, skip_self=True))
            borrowed = {}
            for st in au.stmts(init.body):
                if isinstance(st, (ast.Assign, ast.AnnAssign)) and st.value is not None:
                    for t in au.assign_targets(st):
                        if au.is_self_attr(t) and fr.aliases(st.value) & ps:
                            borrowed[t.attr] = st
            if not borrowed:
                continue
            n_cls += 1
            for fn in [st for st in cls.body if isinstance(st, ast.FunctionDef) and st.name != "__init__"]:
                for st in au.stmts(fn.body):
                    hit = None
                    if isinstance(st, ast.AugAssign):
                        t = st.target
                        base = t if au.is_self_attr(t) else (t.value if isinstance(t, (ast.Subscript, ast.Attribute)) else None)
                        if base is not None and au.is_self_attr(base) and base.attr in borrowed:
                            hit = base.attr
                    elif isinstance(st, ast.Assign):
                        for t in st.targets:
                            if isinstance(t, (ast.Subscript,)) and au.is_self_attr(t.value) and t.value.attr in borrowed:
                                hit = t.value.attr
                    elif isinstance(st, ast.Expr) and isinstance(st.value, ast.Call) and isinstance(st.value.func, ast.Attribute) \
                            and st.value.func.attr in INPLACE_METHODS and au.is_self_attr(st.value.func.value) \
                            and st.value.func.value.attr in borrowed:
                        hit = st.value.func.value.attr
                    if hit:
                        ctx.fail("C12-A2", ctx.site(mod.name, fn, st),
                                 f"{cq}.{fn.name} updates self.{hit} in place while {cq}.__init__ stores a view of its argument there",
                                 f"`{au.src(borrowed[hit])}` keeps a view (Vec(x) does not copy): `{au.src(st)}` changes the caller's "
                                 f"array and every other box built from the same corner array (the k-d tree shares corners between "
                                 f"parent and child boxes)")
            for f in sorted(borrowed):
                if not any(x.rule == "C12-A2" and f"self.{f} " in x.construct for x in ctx.findings):
                    ctx.ok("C12-A2", ctx.site(mod.name, init), f"{cq}.{f} borrows a constructor argument and is never mutated in place")
    ctx.require_count("C12-A2 classes storing views", n_cls, 1)


# ---------------------------------------------------------------------------- O1
def o1_predicates(ctx):
    repo = ctx.repo
    # contains_point
    fn = repo.func(AABB, "AABB.contains_point")
    site = ctx.site(AABB, fn)
    pt = au.params(fn, skip_self=True)[0]
    rets = [st for st in fn.body if isinstance(st, ast.Return)]

    def strip_all(e):
        # (a <= b).all() / np.all(a <= b)  -> a <= b
        if isinstance(e, ast.Call) and au.call_tail(e) == "all":
            if isinstance(e.func, ast.Attribute) and not e.args:
                return e.func.value
            if e.args:
                return e.args[0]
        return e

    class Strip(ast.NodeTransformer):
        def visit_Call(self, node):
            self.generic_visit(node)
            return strip_all(node)

    def s_box(node):
        t = au.src(node)
        if t == pt:
            return "pt"
        if t in ("self._p1", "self.mini"):
            return "lo"
        if t in ("self._p2", "self.maxi"):
            return "hi"
        raise order.Unsupported(t)
    if len(rets) != 1:
        ctx.fail("C12-O1", site, "contains_point does not end in a single return", "")
    else:
        e = Strip().visit(sym.subst(rets[0].value, {}))
        try:
            w, n = order.compare(e, "lo <= pt and pt < hi", s_box)
            ctx.check(w is None, "C12-O1", site, f"contains_point is `{au.src(rets[0].value)}`, not lo <= pt < hi component-wise",
                      f"differs for {w}: documented convention is inclusive at the minimum, exclusive at the maximum",
                      note=f"{n} orderings")
        except order.Unsupported as ex:
            ctx.fail("C12-O1", site, "contains_point uses an operand other than the point and the two corners", str(ex))
    # do_intersect
    fn = repo.func(AABB, "AABB.do_intersect")
    site = ctx.site(AABB, fn)
    b1, b2 = au.params(fn)[:2]
    comp = [n for n in au.walk(fn) if isinstance(n, (ast.ListComp, ast.GeneratorExp))]

    def s_int(node):
        if isinstance(node, ast.Subscript):
            node = node.value
        t = au.src(node)
        m = {f"{b1}.mini": "amin", f"{b1}._p1": "amin", f"{b1}.maxi": "amax", f"{b1}._p2": "amax",
             f"{b2}.mini": "bmin", f"{b2}._p1": "bmin", f"{b2}.maxi": "bmax", f"{b2}._p2": "bmax"}
        if t in m:
            return m[t]
        raise order.Unsupported(t)
    if len(comp) != 1:
        ctx.fail("C12-O1", site, "do_intersect no longer evaluates one predicate per axis", "")
    else:
        try:
            w, n = order.compare(comp[0].elt, "amin <= bmax and amax >= bmin", s_int)
            ctx.check(w is None, "C12-O1", site, f"per-axis intersection test `{au.src(comp[0].elt)}` is not amin <= bmax and amax >= bmin",
                      f"differs for {w}: two boxes intersect exactly when their overlap has non-negative extent in every dimension",
                      note=f"{n} orderings")
        except order.Unsupported as ex:
            ctx.fail("C12-O1", site, "do_intersect uses unexpected operands", str(ex))
        g = comp[0].generators[0]
        ok = isinstance(g.iter, ast.Call) and au.call_tail(g.iter) == "range" and au.src(g.iter.args[0]) in (f"{b1}.dim", f"{b2}.dim") \
            and not g.ifs
        ctx.check(ok, "C12-O1", site, "do_intersect does not test every axis", "")
        r = [st for st in fn.body if isinstance(st, ast.Return)]
        ok = r and isinstance(r[-1].value, ast.Call) and au.call_tail(r[-1].value) == "all"
        ctx.check(bool(ok), "C12-O1", site, "do_intersect does not require the per-axis test on all axes (np.all)", "")
    # sign / sign0
    for name, spec in (("sign", {-1: -1, 0: 0, 1: 1}), ("sign0", {-1: -1, 0: 1, 1: 1})):
        fn = repo.func(GEO, name)
        site = ctx.site(GEO, fn)
        x = au.params(fn)[0]
        try:
            f = order.return_formula(fn.body)
        except order.Unsupported as ex:
            ctx.fail("C12-O1", site, f"{name} is no longer an if/return chain", str(ex))
            continue
        pred = order.Pred(lambda node: "x" if au.src(node) == x else (_ for _ in ()).throw(order.Unsupported(au.src(node))))
        bad = None
        try:
            for xv in (-1, 0, 1):
                got = order.eval_formula(f, pred, {"x": xv}, leaf=lambda e, env: au.const(e))
                if got != spec[xv]:
                    bad = (xv, got)
        except order.Unsupported as ex:
            bad = ("unsupported", str(ex))
        ctx.check(bad is None, "C12-O1", site, f"{name}(x) is not the documented piecewise constant",
                  f"{name}({bad[0] if bad else ''}) evaluates to {bad[1] if bad else ''}", note="3 sign classes")
    # principal_angle: b = a % (2*pi); if b > pi (or >=): b -= 2*pi
    fn = repo.func("utils.maths", "principal_angle")
    site = ctx.site("utils.maths", fn)
    a = au.params(fn)[0]
    import math
    ok_mod = ok_fold = False
    var = None
    for st in fn.body:
        if isinstance(st, ast.Assign) and isinstance(st.value, ast.BinOp) and isinstance(st.value.op, ast.Mod) \
                and au.src(st.value.left) == a and abs((order.fold_const(st.value.right) or 0) - 2 * math.pi) < 1e-12:
            ok_mod, var = True, st.targets[0].id
        if isinstance(st, ast.If) and var and not st.orelse:
            # `var > pi` in any spelling (pi < var, not var <= pi; >= accepted as well: the value pi itself may fold either way)
            t, pol = au.strip_not(st.test)
            big = None
            if isinstance(t, ast.Compare) and len(t.ops) == 1:
                l, r, op = t.left, t.comparators[0], type(t.ops[0])
                if not pol:
                    op = {ast.Lt: ast.GtE, ast.LtE: ast.Gt, ast.Gt: ast.LtE, ast.GtE: ast.Lt}.get(op)
                if op in (ast.Lt, ast.LtE):
                    l, r, op = r, l, ast.Gt
                if op in (ast.Gt, ast.GtE) and au.src(l) == var and abs((order.fold_const(r) or 0) - math.pi) < 1e-12:
                    big = True
            for s in st.body if big else []:
                inc = au.increment(s)
                if inc is not None and inc[0] == var and inc[1] == -1 and abs((order.fold_const(inc[2]) or 0) - 2 * math.pi) < 1e-12:
                    ok_fold = True
    r = [st for st in fn.body if isinstance(st, ast.Return)]
    ctx.check(ok_mod and ok_fold and r and au.src(r[-1].value) == var, "C12-O1", site,
              "principal_angle is not `b = a mod 2pi; if b > pi: b -= 2pi; return b`",
              "angle reduction must be congruent modulo 2*pi and land in [-pi, pi]")
    fn = repo.func("utils.maths", "angle_diff")
    r = [st for st in fn.body if isinstance(st, ast.Return)]
    a, b = au.params(fn)[:2]
    ok = False
    if r and isinstance(r[0].value, ast.BinOp) and isinstance(r[0].value.op, ast.Sub):
        left, right = r[0].value.left, r[0].value.right
        if isinstance(left, ast.BinOp) and isinstance(left.op, ast.Mod):
            p = sym.to_poly(left.left, atom_of=lambda e: sym.Poly.atom("PI") if order.fold_const(e) is not None and abs(order.fold_const(e) - math.pi) < 1e-12 and not isinstance(e, ast.BinOp) else None)
            ok = p == sym.Poly.atom(a) - sym.Poly.atom(b) + sym.Poly.atom("PI") \
                and abs((order.fold_const(left.right) or 0) - 2 * math.pi) < 1e-12 and abs((order.fold_const(right) or 0) - math.pi) < 1e-12
    ctx.check(ok, "C12-O1", ctx.site("utils.maths", fn), "angle_diff is not ((a - b + pi) mod 2pi) - pi", "")


# ---------------------------------------------------------------------------- B1
def b1_box_algebra(ctx):
    repo = ctx.repo

    def ctor_args(fn):
        for st in au.stmts(fn.body):
            if isinstance(st, ast.Return) and isinstance(st.value, ast.Call) and au.call_tail(st.value) == "AABB" and len(st.value.args) == 2:
                b = sym.Bindings(fn)
                return [b.resolve(a, at=st) for a in st.value.args], st
        return None, None

    def minmax(e):
        """('min'|'max', {operand srcs}) for np.minimum/np.maximum(a,b) or np.min/np.max((a,b), axis=0)"""
        if isinstance(e, ast.Call):
            t = au.call_tail(e)
            if t in ("minimum", "maximum") and len(e.args) == 2:
                return t[:3], {au.src(a) for a in e.args}
            if t in ("min", "max", "amin", "amax") and e.args and isinstance(e.args[0], (ast.Tuple, ast.List)):
                return t[-3:], {au.src(a) for a in e.args[0].elts}
        return None, set()
    lo_names = lambda b: {f"{b}.mini", f"{b}._p1"}
    hi_names = lambda b: {f"{b}.maxi", f"{b}._p2"}
    for name, want in (("intersection", ("max", "min")), ("union", ("min", "max"))):
        fn = repo.func(AABB, "AABB." + name)
        site = ctx.site(AABB, fn)
        b1, b2 = au.params(fn)[:2]
        args, st = ctor_args(fn)
        if not args:
            ctx.fail("C12-B1", site, f"{name} does not return AABB(lo, hi)", "")
            continue
        (k1, o1), (k2, o2) = minmax(args[0]), minmax(args[1])
        ok = (k1, k2) == want and len(o1) == 2 and len(o2) == 2 \
            and all(o & lo_names(b) for b in (b1, b2) for o in [o1]) and all(o & hi_names(b) for b in (b1, b2) for o in [o2]) \
            and o1 <= lo_names(b1) | lo_names(b2) and o2 <= hi_names(b1) | hi_names(b2)
        ctx.check(ok, "C12-B1", site,
                  f"{name} builds AABB({au.src(args[0])}, {au.src(args[1])})",
                  f"{name} must be ({want[0]} of the two minima, {want[1]} of the two maxima)", note=f"{name}: {want}")
    # of_points: min/max over axis 0 -/+ pad
    fn = repo.func(AABB, "AABB.of_points")
    args, st = ctor_args(fn)
    ok = False
    if args:
        def parse(e, k, op):
            return isinstance(e, ast.BinOp) and isinstance(e.op, op) and isinstance(e.left, ast.Call) and au.call_tail(e.left) == k \
                and any(kw.arg == "axis" and au.const(kw.value) == 0 for kw in e.left.keywords)
        ok = parse(args[0], "min", ast.Sub) and parse(args[1], "max", ast.Add)
    ctx.check(ok, "C12-B1", ctx.site(AABB, fn), "of_points is not AABB(min(points, axis=0) - pad, max(points, axis=0) + pad)",
              "the box of a point set must be tight")
    # project: maximum(mini, minimum(maxi, pt))
    fn = repo.func(AABB, "AABB.project")
    pt = au.params(fn, skip_self=True)[0]
    r = [st for st in fn.body if isinstance(st, ast.Return)]
    ok = False
    if r:
        k1, o1 = minmax(r[-1].value)
        inner = [a for a in r[-1].value.args if isinstance(a, ast.Call)] if isinstance(r[-1].value, ast.Call) else []
        if k1 and inner:
            k2, o2 = minmax(inner[0])
            other = {au.src(a) for a in r[-1].value.args if a is not inner[0]}
            ok = (k1 == "max" and other <= {"self.mini", "self._p1"} and k2 == "min" and o2 & {"self.maxi", "self._p2"} and pt in o2) or \
                 (k1 == "min" and other <= {"self.maxi", "self._p2"} and k2 == "max" and o2 & {"self.mini", "self._p1"} and pt in o2)
    ctx.check(ok, "C12-B1", ctx.site(AABB, fn), "project is not the clamp max(mini, min(maxi, pt))",
              "the projection of a point must lie in the closed box")
    # distance: maximum(maximum(mini - pt, pt - maxi), 0)
    fn = repo.func(AABB, "AABB.distance")
    pt = au.params(fn, skip_self=True)[0]
    ok = False
    for st in au.stmts(fn.body):
        if isinstance(st, ast.Assign) and isinstance(st.value, ast.Call):
            k1, _ = minmax(st.value)
            if k1 == "max" and len(st.value.args) == 2 and au.const(st.value.args[1]) in (0, 0.0) and isinstance(st.value.args[0], ast.Call):
                k2, o2 = minmax(st.value.args[0])
                ok = k2 == "max" and o2 in ({f"self.mini - {pt}", f"{pt} - self.maxi"}, {f"self._p1 - {pt}", f"{pt} - self._p2"})
    ctx.check(ok, "C12-B1", ctx.site(AABB, fn), "distance is not the norm of max(mini - pt, pt - maxi, 0)",
              "a contained point is at distance zero and the distance is realised by the projection")
    for prop, want in (("span", ("self._p2", "self._p1")),):
        fn = repo.func(AABB, "AABB." + prop)
        r = [st for st in fn.body if isinstance(st, ast.Return)]
        ok = r and isinstance(r[0].value, ast.BinOp) and isinstance(r[0].value.op, ast.Sub) \
            and (au.src(r[0].value.left), au.src(r[0].value.right)) in (want, ("self.maxi", "self.mini"))
        ctx.check(bool(ok), "C12-B1", ctx.site(AABB, fn), "span is not maxi - mini", "")
    fn = repo.func(AABB, "AABB.center")
    r = [st for st in fn.body if isinstance(st, ast.Return)]
    ok = False
    if r:
        p = sym.to_poly(r[0].value, atom_of=lambda e: {"self._p1": "lo", "self.mini": "lo", "self._p2": "hi", "self.maxi": "hi"}.get(au.src(e)))
        ok = p == (sym.Poly.atom("lo") + sym.Poly.atom("hi")).scale(sym.Fraction(1, 2))
    ctx.check(ok, "C12-B1", ctx.site(AABB, fn), "center is not (mini + maxi) / 2", "")


# ---------------------------------------------------------------------------- R1
def _reduce(poly, var, repl):
    """replace var^2 by the polynomial `repl` until var occurs with degree <= 1 in every monomial"""
    P = sym.Poly
    for _ in range(12):
        changed = False
        out = P()
        for mono, coef in poly.t.items():
            k = mono.count(var)
            if k >= 2:
                rest = list(mono)
                rest.remove(var)
                rest.remove(var)
                out = out + P({tuple(rest): coef}) * repl
                changed = True
            else:
                out = out + P({mono: coef})
        poly = out
        if not changed:
            break
    return poly


def _linear_map(fn, out_name, in_expr_of, comps, atom_of):
    """rows of the matrix of the stores out.<comp> = sum_j coef_j * in_j : {comp: {j: Poly}}"""
    rows = {}
    for st in au.stmts(fn.body):
        if isinstance(st, ast.Assign) and isinstance(st.targets[0], ast.Attribute) and isinstance(st.targets[0].value, ast.Name) \
                and st.targets[0].value.id == out_name and st.targets[0].attr in comps:
            p = sym.to_poly(st.value, atom_of=atom_of, opaque=False)
            row = {}
            for j in in_expr_of.values():
                row[j] = p.coeff(j)
                if p.degree_in(j) > 1:
                    raise sym.NotPoly("not linear")
            rest = p
            for j in in_expr_of.values():
                rest = rest.without(j)
            if not rest.is_zero():
                raise sym.NotPoly("affine part")
            rows[st.targets[0].attr] = row
    return rows


def r1_rotation_matrices(ctx):
    repo = ctx.repo
    P = sym.Poly
    RO = "geometry.rotations"
    # ---- rotate_2d
    fn = repo.func(RO, "rotate_2d")
    site = ctx.site(RO, fn)
    v, ang = au.params(fn)[:2]
    b = sym.Bindings(fn)
    cs = {}
    for st in fn.body:
        for name, val in sym.split_assign(st):
            if isinstance(val, ast.Call) and au.call_tail(val) in ("cos", "sin") and au.src(val.args[0]) == ang:
                cs[name] = "C" if au.call_tail(val) == "cos" else "S"
    outs = [st.targets[0].id for st in fn.body if isinstance(st, ast.Assign) and isinstance(st.targets[0], ast.Name)
            and isinstance(st.value, ast.Call) and au.call_tail(st.value) == "Vec"]
    ok = False
    detail = ""
    try:
        if len(cs) == 2 and outs:
            ins = {f"{v}[0]": "x0", f"{v}[1]": "x1", f"{v}.x": "x0", f"{v}.y": "x1"}
            atom = lambda e: ins.get(au.src(e)) or (cs.get(e.id) if isinstance(e, ast.Name) else None)
            rows = _linear_map(fn, outs[0], {"a": "x0", "b": "x1"}, ("x", "y"), atom)
            M = [[rows["x"]["x0"], rows["x"]["x1"]], [rows["y"]["x0"], rows["y"]["x1"]]]
            one_minus = P.const(1) - P.atom("C") * P.atom("C")
            red = lambda q: _reduce(q, "S", one_minus)
            mtm = [[red(M[0][i] * M[0][j] + M[1][i] * M[1][j]) for j in range(2)] for i in range(2)]
            det = red(M[0][0] * M[1][1] - M[0][1] * M[1][0])
            ok = mtm[0][0] == P.const(1) and mtm[1][1] == P.const(1) and mtm[0][1].is_zero() and det == P.const(1)
            # counter-clockwise for positive angles: M = [[C,-S],[S,C]]
            ok = ok and M[1][0] == P.atom("S")
            detail = f"M = {M}"
    except (sym.NotPoly, KeyError) as e:
        detail = f"not a linear map of the input: {e}"
    ctx.check(ok, "C12-R1", site, "rotate_2d is not the rotation matrix [[cos, -sin], [sin, cos]] applied to its argument",
              f"M^T M = I and det M = 1 must hold identically modulo cos^2 + sin^2 = 1 ({detail})", note="2x2 matrix orthogonal, det 1")
    # ---- rotate_around_axis
    fn = repo.func(RO, "rotate_around_axis")
    site = ctx.site(RO, fn)
    inp, axis_p, ang = au.params(fn)[:3]
    cs, uvw, axis_name = {}, None, None
    for st in fn.body:
        for name, val in sym.split_assign(st):
            if isinstance(val, ast.Call) and au.call_tail(val) in ("cos", "sin") and au.src(val.args[0]) == ang:
                cs[name] = "C" if au.call_tail(val) == "cos" else "S"
            if isinstance(val, ast.Call) and au.call_tail(val) == "normalized" and au.src(val.args[0]) == axis_p:
                axis_name = name
        if isinstance(st, ast.Assign) and isinstance(st.targets[0], ast.Tuple) and len(st.targets[0].elts) == 3 \
                and isinstance(st.value, ast.Name) and st.value.id == axis_name:
            uvw = [x.id for x in st.targets[0].elts]
    outs = [st.targets[0].id for st in fn.body if isinstance(st, ast.Assign) and isinstance(st.targets[0], ast.Name)
            and isinstance(st.value, ast.Call) and au.call_tail(st.value) == "Vec" and len(st.value.args) == 3]
    ok = False
    detail = ""
    try:
        if len(cs) == 2 and uvw and outs:
            amap = dict(zip(uvw, "UVW"))
            ins = {f"{inp}.x": "x0", f"{inp}.y": "x1", f"{inp}.z": "x2", f"{inp}[0]": "x0", f"{inp}[1]": "x1", f"{inp}[2]": "x2"}
            atom = lambda e: ins.get(au.src(e)) or ((cs.get(e.id) or amap.get(e.id)) if isinstance(e, ast.Name) else None)
            rows = _linear_map(fn, outs[0], {"a": "x0", "b": "x1", "c": "x2"}, ("x", "y", "z"), atom)
            R = [[rows[c][j] for j in ("x0", "x1", "x2")] for c in ("x", "y", "z")]
            s2 = P.const(1) - P.atom("C") * P.atom("C")
            w2 = P.const(1) - P.atom("U") * P.atom("U") - P.atom("V") * P.atom("V")
            red = lambda q: _reduce(_reduce(q, "S", s2), "W", w2)
            ax = [P.atom("U"), P.atom("V"), P.atom("W")]
            fixes = all(red(R[i][0] * ax[0] + R[i][1] * ax[1] + R[i][2] * ax[2] - ax[i]).is_zero() for i in range(3))
            ortho = all((red(sum((R[k][i] * R[k][j] for k in range(3)), P())) - P.const(1 if i == j else 0)).is_zero()
                        for i in range(3) for j in range(3))
            det = red(R[0][0] * (R[1][1] * R[2][2] - R[1][2] * R[2][1]) - R[0][1] * (R[1][0] * R[2][2] - R[1][2] * R[2][0])
                      + R[0][2] * (R[1][0] * R[2][1] - R[1][1] * R[2][0]))
            trace = red(R[0][0] + R[1][1] + R[2][2])
            ok = fixes and ortho and det == P.const(1) and trace == P.const(1) + P.atom("C").scale(2)
            detail = f"fixes axis: {fixes}, orthogonal: {ortho}, det: {det}, trace: {trace}"
    except (sym.NotPoly, KeyError) as e:
        detail = f"not a linear map of the input: {e}"
    ctx.check(ok, "C12-R1", site, "rotate_around_axis is not Rodrigues' rotation matrix of (unit axis, angle) applied to its argument",
              f"R axis = axis, R^T R = I, det R = 1 and trace R = 1 + 2 cos must hold identically modulo cos^2+sin^2 = 1 and |axis| = 1 ({detail})",
              note="3x3 matrix fixes the axis, orthogonal, det 1, trace 1 + 2cos")


def x1_shared_primitives(ctx):
    """Run C07's polynomial-identity rule on geometry.py under a C12 rule id."""
    from . import c07
    n_f, n_i = len(ctx.findings), dict(ctx.instances)
    c07.x1_primitives(ctx)
    for f in ctx.findings[n_f:]:
        if f.rule == "C07-X1":
            f.rule = "C12-X1"
    if "C07-X1" in ctx.instances:
        ctx.instances["C12-X1"] = ctx.instances.pop("C07-X1") - n_i.get("C07-X1", 0)
    for smp in ctx.samples:
        if smp.get("rule") == "C07-X1":
            smp["rule"] = "C12-X1"
